import SkfemVerif.Model.Blocks
import SkfemVerif.Lemmas.Blocks
import SkfemVerif.Props.C01
import Mathlib.Data.List.Perm.Basic
import Mathlib.Algebra.BigOperators.Group.List.Basic
/-
C19  Vector, composite and block structures agree with their components.

Model: Model/Blocks.lean (`vecDecode`, `vecCounts`, `sumCounts`, `deduceBfun`, `splitIndicesVector`,
`splitIndicesComposite`, `stackDecode`, `Coo.add`, `tolocal`, `fromlocal`, `cooDotD`,
`bilinearTripletsOn`, `bmatBlocks`) on top of Model/Dofs.lean (DOF tables) and Model/Assembly.lean
(`bilinearTriplets`, `interp`, `denseEntry`, `actionBil`, `cooDot`).
Tie: correspondence ops `blocks.split_composite`, `blocks.split_vector`, `blocks.deduce_bfun`
(+ `-layout`), `blocks.vec_decode`, `blocks.stack_decode`, `blocks.tolocal`, `blocks.fromlocal`,
`coo.dot`, `coo.add`, `blocks.bmat_blocks` (exact integers / exact rationals).

All theorems are for arbitrary component counts (nodal/edge/facet/interior, different from
component to component), arbitrary meshes (connectivity tables), arbitrary numbers of
components, cells, quadrature points, arbitrary integrands `f`, basis data and coefficient
vectors over any commutative ring `K`.
-/
namespace Skv.C19
open Skv Skv.Blocks

/-! ## 1. index algebra of the wrappers -/

/-- `ElementVector.gbasis`: local function `i` is scalar function `i / dim` in component
    `i % dim` -/
theorem C19_vector_decode (dim i : Nat) : vecDecode dim i = (i % dim, i / dim) := by
  unfold vecDecode
  have := Nat.mod_add_div i dim
  congr 1
  omega

/-- **vector decode matches the row layout**: the per-cell DOF table of `ElementVector(elem, dim)`
    consists, for every row of `elem`'s table, of `dim` consecutive rows `d ↦ dim * d + n`,
    `n = 0 … dim-1`.  Hence row `r` of the wrapper belongs to scalar function `r / dim`, component
    `r % dim` (what `vecDecode` computes), and the wrapper numbers scalar DOF `d` of component `n`
    as `dim * d + n`. -/
theorem C19_vector_layout (dim : Nat) (hd : 0 < dim) (c : DofCounts) (tp : Topo) :
    elementDofs (vecCounts dim c) tp = (elementDofs c tp).flatMap (vecRows dim) :=
  elementDofs_vec dim hd c tp

/-- row form of the previous theorem -/
theorem C19_vector_row (dim : Nat) (hd : 0 < dim) (c : DofCounts) (tp : Topo) (i : Nat)
    (hi : (vecDecode dim i).2 < (elementDofs c tp).length) :
    (elementDofs (vecCounts dim c) tp)[i]?
      = ((elementDofs c tp)[(vecDecode dim i).2]?).map
          (List.map (fun d => dim * d + (vecDecode dim i).1)) := by
  rw [C19_vector_layout dim hd, C19_vector_decode dim i] at *
  simp only at hi ⊢
  have hrows : ∀ j < (elementDofs c tp).length,
      (vecRows dim ((elementDofs c tp).getD j [])).length = dim := by
    intro j _; simp [vecRows]
  have e : (elementDofs c tp).flatMap (vecRows dim)
      = (List.range (elementDofs c tp).length).flatMap
          (fun j => vecRows dim ((elementDofs c tp).getD j [])) := by
    rw [List.flatMap_def, List.flatMap_def, map_getD_range (elementDofs c tp) [] (vecRows dim)]
  have hpos : i = i / dim * dim + i % dim := by
    have := Nat.div_add_mod i dim
    rw [Nat.mul_comm]; omega
  rw [e]
  conv_lhs => rw [hpos]
  rw [getElem?_flatMap_range _ dim _ hrows (i / dim) (i % dim) hi (Nat.mod_lt _ hd)]
  simp [vecRows, List.getD_eq_getElem?_getD, hi, Nat.mod_lt _ hd]

/-- **`split_indices()[n]` of a vector element is `d ↦ dim * d + n`** on the scalar element's own
    numbering `d = 0 … N_scalar - 1`: an exact bijection between component `n`'s numbering and the
    wrapper's numbers congruent to `n` -/
theorem C19_split_vector (dim : Nat) (hd : 0 < dim) (c : DofCounts) (tp : Topo) (n : Nat)
    (hn : n < dim) :
    splitIndicesVector dim c tp n = (List.range (dofsTotal c tp)).map (fun d => dim * d + n) :=
  splitIndicesVector_eq dim hd c tp n hn

/-- the vector split indices of different components are disjoint and together cover
    `0 … dim * N_scalar - 1` -/
theorem C19_split_vector_partition (dim : Nat) (hd : 0 < dim) (c : DofCounts) (tp : Topo) (x : Nat)
    (hx : x < dofsTotal (vecCounts dim c) tp) :
    x ∈ splitIndicesVector dim c tp (x % dim)
      ∧ ∀ n < dim, x ∈ splitIndicesVector dim c tp n → n = x % dim := by
  rw [dofsTotal_vec dim hd] at hx
  constructor
  · rw [C19_split_vector dim hd c tp _ (Nat.mod_lt _ hd)]
    simp only [List.mem_map, List.mem_range]
    refine ⟨x / dim, ?_, Nat.div_add_mod x dim⟩
    rw [Nat.div_lt_iff_lt_mul hd]; exact hx
  · intro n hn hmem
    rw [C19_split_vector dim hd c tp n hn] at hmem
    simp only [List.mem_map, List.mem_range] at hmem
    obtain ⟨d, _, rfl⟩ := hmem
    rw [Nat.mul_add_mod, Nat.mod_eq_of_lt hn]

/-- **`split_indices()[k]` of a composite element is the bijection between the component's own
    numbering and the wrapper's numbering**: at the component's own number of the DOF
    (kind `t`, `a`-th DOF of the entity, entity `e`) stands the wrapper's number of the DOF
    (kind `t`, `(o + a)`-th DOF of the entity, entity `e`), `o` = DOFs of that kind of the earlier
    components.  Kinds: 0 vertex, 1 edge, 2 facet, 3 cell.  The components may have any (different)
    entity counts. -/
theorem C19_split_is_renumbering (cs : List DofCounts) (tp : Topo) (k : Nat) (hk : k < cs.length)
    (hw : WellFormed (sumCounts cs) tp) (t a e : Nat) (ht : t < 4) (ha : a < (cs[k]).get t)
    (he : e < nentOf tp t) :
    (splitIndicesComposite cs tp k)[dofNumber ((cs[k]).get t) (offOf (cs[k]) tp t) a e]?
      = some (dofNumber ((sumCounts cs).get t) (offOf (sumCounts cs) tp t)
          ((compOffsets cs k).get t + a) e) :=
  split_entry cs tp k hk hw t a e ht ha he

/-- the split index list of component `k` is as long as the component's own DOF count -/
theorem C19_split_length (cs : List DofCounts) (tp : Topo) (k : Nat) (hk : k < cs.length) :
    (splitIndicesComposite cs tp k).length = dofsTotal (cs[k]) tp :=
  splitIndicesComposite_length cs tp k hk

/-- the rows of the components tile the rows of the wrapper's tables -/
theorem C19_component_rows (cs : List DofCounts) (k t : Nat) (hk : k < cs.length) :
    (compOffsets cs k).get t + (cs[k]).get t ≤ (sumCounts cs).get t
    ∧ (compOffsets cs (k + 1)).get t = (compOffsets cs k).get t + (cs[k]).get t := by
  refine ⟨comp_rows_le cs k t hk, ?_⟩
  rw [compOffsets_get, compOffsets_get, List.take_add_one]
  simp [hk]

/-- **closed form of `_deduce_bfun`**: the local function in the block of kind `t`, local entity
    `itr`, position `o + a` (component `n`'s `a`-th DOF of that entity) is component `n`'s function
    number `rowBase c_n t + itr * c_n.get t + a`, i.e. the function in the same (kind, entity,
    DOF-of-entity) position of the component's own local ordering -/
theorem C19_deduce_bfun (cs : List DofCounts) (r : RefCounts) (t itr n a : Nat) (ht : t < 4)
    (hitr : itr < r.get t) (hn : n < cs.length) (ha : a < (cs[n]).get t) :
    deduceBfun cs r (rowBase (sumCounts cs) r t
        + (itr * (sumCounts cs).get t + ((compOffsets cs n).get t + a)))
      = (n, rowBase (cs[n]) r t + (itr * (cs[n]).get t + a)) :=
  deduceBfun_closed cs r t itr n a ht hitr hn ha

/-- **`_deduce_bfun` agrees with the per-cell layout**: row `i` of the wrapper's `element_dofs`,
    with `(n, ind) = _deduce_bfun(i)`, is row `ind` of component `n`'s own `element_dofs` renamed
    through `split_indices()[n]` -/
theorem C19_deduce_bfun_layout (cs : List DofCounts) (tp : Topo) (r : RefCounts)
    (hw : WellFormed (sumCounts cs) tp) (hc : Compatible tp r)
    (hconn : ∀ t < 4, ∀ row ∈ connOf tp t, ∀ e ∈ row, e < nentOf tp t)
    (t itr n a : Nat) (ht : t < 4) (hitr : itr < r.get t) (hn : n < cs.length)
    (ha : a < (cs[n]).get t) :
    let i := rowBase (sumCounts cs) r t
      + (itr * (sumCounts cs).get t + ((compOffsets cs n).get t + a))
    (deduceBfun cs r i).1 = n ∧
    (elementDofs (sumCounts cs) tp)[i]?
      = ((elementDofs (cs[n]) tp)[(deduceBfun cs r i).2]?).map
          (List.map (fun d => (splitIndicesComposite cs tp n).getD d 0))
    ∧ (deduceBfun cs r i).2 < (elementDofs (cs[n]) tp).length := by
  intro i
  have hd := C19_deduce_bfun cs r t itr n a ht hitr hn ha
  have hwn := wellFormed_comp cs tp n hn hw
  refine ⟨by rw [hd], ?_, ?_⟩
  · rw [hd]; exact deduce_layout cs tp r hw hc hconn t itr n a ht hitr hn ha
  · rw [hd]
    have hrow := elementDofs_row (cs[n]) tp r hwn hc t itr a ht hitr ha
    have hitr' : itr < (connOf tp t).length := by rw [connOf_length tp r hc]; exact hitr
    rw [List.getElem?_eq_getElem hitr'] at hrow
    by_contra hlt
    rw [List.getElem?_eq_none (by omega)] at hrow
    simp at hrow

/-- the local functions of the wrapper are exactly the local functions of the components:
    `ns` has as many entries as the wrapper has functions and component `n` occurs `Nbfun_n`
    times -/
theorem C19_deduce_bfun_counts (cs : List DofCounts) (r : RefCounts) (n : Nat) (hn : n < cs.length) :
    (bfunNs cs r).length = nbfun (sumCounts cs) r ∧ (bfunNs cs r).count n = nbfun (cs[n]) r :=
  ⟨bfunNs_length cs r, bfunNs_count cs r n hn⟩

/-- **the split index lists are jointly injective**: a wrapper DOF number determines the component
    and the component's own DOF number (with `C19_split_length` and `dofsTotal` of the wrapper
    being the sum, the lists form a partition of `0 … N-1`) -/
theorem C19_split_injective (cs : List DofCounts) (tp : Topo) (hw : WellFormed (sumCounts cs) tp)
    (k k' d d' : Nat) (hk : k < cs.length) (hk' : k' < cs.length)
    (hd : d < dofsTotal (cs[k]) tp) (hd' : d' < dofsTotal (cs[k']) tp)
    (h : (splitIndicesComposite cs tp k).getD d 0 = (splitIndicesComposite cs tp k').getD d' 0) :
    k = k' ∧ d = d' := by
  obtain ⟨t, ht, a, ha, e, he, rfl⟩ := dof_decompose (cs[k]) tp (wellFormed_comp cs tp k hk hw) d hd
  obtain ⟨t', ht', a', ha', e', he', rfl⟩ :=
    dof_decompose (cs[k']) tp (wellFormed_comp cs tp k' hk' hw) d' hd'
  rw [List.getD_eq_getElem?_getD, List.getD_eq_getElem?_getD,
    C19_split_is_renumbering cs tp k hk hw t a e ht ha he,
    C19_split_is_renumbering cs tp k' hk' hw t' a' e' ht' ha' he'] at h
  simp only [Option.getD_some] at h
  have hr := comp_rows_le cs k t hk
  have hr' := comp_rows_le cs k' t' hk'
  have g1 := dofNumber_ge ((sumCounts cs).get t) (offOf (sumCounts cs) tp t)
    ((compOffsets cs k).get t + a) e
  have l1 := dofNumber_lt ((sumCounts cs).get t) (nentOf tp t) (offOf (sumCounts cs) tp t)
    ((compOffsets cs k).get t + a) e (by omega) he
  have g2 := dofNumber_ge ((sumCounts cs).get t') (offOf (sumCounts cs) tp t')
    ((compOffsets cs k').get t' + a') e'
  have l2 := dofNumber_lt ((sumCounts cs).get t') (nentOf tp t') (offOf (sumCounts cs) tp t')
    ((compOffsets cs k').get t' + a') e' (by omega) he'
  have htt : t = t' := by
    rcases Nat.lt_trichotomy t t' with hlt | heq | hgt
    · have := offOf_block_le (sumCounts cs) tp hw t t' hlt ht'; omega
    · exact heq
    · have := offOf_block_le (sumCounts cs) tp hw t' t hgt ht; omega
  subst htt
  obtain ⟨hrow, hent⟩ := dofNumber_inj _ _ _ _ _ _ (by omega) (by omega) h
  rw [compOffsets_get, compOffsets_get] at hrow
  have hk1 : k < (cs.map (fun c => c.get t)).length := by simpa using hk
  have hk1' : k' < (cs.map (fun c => c.get t)).length := by simpa using hk'
  obtain ⟨hkk, haa⟩ := prefix_unique (cs.map (fun c => c.get t)) k k' a a' hk1 hk1'
    (by simpa using ha) (by simpa using ha') hrow
  subst hkk
  subst haa
  subst hent
  exact ⟨rfl, rfl⟩

/-- the wrapper has exactly the DOFs of its components: with `C19_split_length` and
    `C19_split_injective` the split index lists are a partition of `0 … N-1` -/
theorem C19_split_total (cs : List DofCounts) (tp : Topo) (hw : WellFormed (sumCounts cs) tp) :
    dofsTotal (sumCounts cs) tp
      = ((List.range cs.length).map (fun k => (splitIndicesComposite cs tp k).length)).sum := by
  have h1 : (List.range cs.length).map (fun k => (splitIndicesComposite cs tp k).length)
      = (List.range cs.length).map (fun k => (fun x : DofCounts => x.nodal * tp.nverts
          + x.edge * tp.nedges + x.facet * tp.nfacets + x.interior * tp.nt)
            (cs.getD k ⟨0, 0, 0, 0⟩)) := by
    apply List.map_congr_left
    intro k hk
    have hk' : k < cs.length := List.mem_range.1 hk
    rw [C19_split_length cs tp k hk', dofsTotal_wellFormed _ tp (wellFormed_comp cs tp k hk' hw)]
    simp [List.getD_eq_getElem?_getD, hk']
  rw [h1, map_getD_range cs ⟨0, 0, 0, 0⟩ (fun x : DofCounts => x.nodal * tp.nverts
    + x.edge * tp.nedges + x.facet * tp.nfacets + x.interior * tp.nt), sum_weighted,
    dofsTotal_wellFormed _ tp hw]


/-! ## 2. wrappers as renamings of their components: interpolation and assembly -/

section Generic
variable {K : Type} [CommRing K]

/-- `dec` lists every pair (component `n < Kc`, local function `p < Nb n`) exactly once over the
    local functions `j < NbW` of the wrapper (stated as the change of summation variables) -/
def Reindexes (K : Type) [CommRing K] (NbW Kc : Nat) (Nb : Nat → Nat) (dec : Nat → Nat × Nat) : Prop :=
  ∀ G : Nat → Nat → K, ∑ j ∈ Finset.range NbW, G (dec j).1 (dec j).2
    = ∑ n ∈ Finset.range Kc, ∑ p ∈ Finset.range (Nb n), G n p

/-- `_deduce_bfun` of a composite element enumerates (component, function of the component) -/
theorem C19_reindex_composite (cs : List DofCounts) (r : RefCounts) :
    Reindexes K (nbfun (sumCounts cs) r) cs.length (fun n => nbfun (cs.getD n ⟨0, 0, 0, 0⟩) r)
      (deduceBfun cs r) := by
  intro G
  have h := sum_rank_reindex (bfunNs cs r) cs.length (fun x hx => mem_bfunNs hx) G
  rw [bfunNs_length] at h
  refine h.trans (Finset.sum_congr rfl (fun n hn => ?_))
  have hn' := Finset.mem_range.1 hn
  rw [bfunNs_count cs r n hn']
  simp [List.getD_eq_getElem?_getD, hn']

/-- the decoding of `ElementVector` enumerates (component `n < dim`, scalar function `p < Nb`) -/
theorem C19_reindex_vector (dim Nb : Nat) (hd : 0 < dim) :
    Reindexes K (Nb * dim) dim (fun _ => Nb) (vecDecode dim) :=
  fun G => sum_vec_reindex dim Nb hd G

/-- the stacking of `CompositeBasis` enumerates (basis `n`, function `p < Nbfun_n`) -/
theorem C19_reindex_stack (nbs : List Nat) :
    Reindexes K nbs.sum nbs.length (fun n => nbs.getD n 0) (stackDecode nbs) :=
  fun G => sum_stack_reindex nbs G

/-- a wrapper basis made of component bases: local function `j` of the wrapper is function
    `(dec j).2` of component `(dec j).1` (placed in the wrapper's field layout: zero in the other
    components' slots), and its DOF numbers are the component's DOF numbers renamed by `σ n`
    (`split_indices()[n]`).  Established for the implementation by the correspondence ops
    `blocks.deduce_bfun-layout`, `blocks.vec_decode`, `blocks.stack_decode`; `C19_deduce_bfun_layout`
    and `C19_vector_row` prove the DOF part from the DOF tables. -/
structure Wraps (K : Type) [CommRing K] (NbW Kc : Nat) (Nb : Nat → Nat) (dec : Nat → Nat × Nat)
    (σ : Nat → Nat → Nat) (dofs : Nat → Nat → Nat → Nat) (B : Nat → BasisData K)
    (dofsW : Nat → Nat → Nat) (bW : BasisData K) : Prop where
  reindex : Reindexes K NbW Kc Nb dec
  dofs_eq : ∀ j < NbW, ∀ k, dofsW j k = σ (dec j).1 (dofs (dec j).1 (dec j).2 k)
  basis_eq : ∀ j < NbW, ∀ k q, bW j k q = B (dec j).1 (dec j).2 k q

section Interp
variable {NbW Kc : Nat} {Nb : Nat → Nat} {dec : Nat → Nat × Nat} {σ : Nat → Nat → Nat}
  {dofs : Nat → Nat → Nat → Nat} {B : Nat → BasisData K} {dofsW : Nat → Nat → Nat} {bW : BasisData K}

/-- **split + interpolate each component = interpolate the whole** (all field attributes at once:
    an equation between samples) -/
theorem C19_interpolate_split (hW : Wraps K NbW Kc Nb dec σ dofs B dofsW bW) (x : Nat → K)
    (k q : Nat) :
    interp NbW x dofsW bW k q
      = ∑ n ∈ Finset.range Kc, interp (Nb n) (fun d => x (σ n d)) (dofs n) (B n) k q := by
  funext c
  rw [Finset.sum_apply]
  unfold interp
  rw [sum_map_range]
  have h1 : ∀ j ∈ Finset.range NbW, x (dofsW j k) * bW j k q c
      = (fun n p => x (σ n (dofs n p k)) * B n p k q c) (dec j).1 (dec j).2 := by
    intro j hj
    have hj' := Finset.mem_range.1 hj
    rw [hW.dofs_eq j hj' k, hW.basis_eq j hj' k q]
  refine (Finset.sum_congr rfl h1).trans
    ((hW.reindex (fun n p => x (σ n (dofs n p k)) * B n p k q c)).trans ?_)
  apply Finset.sum_congr rfl
  intro n _
  rw [sum_map_range]

/-- in a slot `c` of component `n` (where the other components' functions vanish) the whole is the
    interpolation of component `n` alone with the split coefficient vector `x[split_indices[n]]` -/
theorem C19_interpolate_component (hW : Wraps K NbW Kc Nb dec σ dofs B dofsW bW) (x : Nat → K)
    (k q n c : Nat) (hn : n < Kc) (hz : ∀ m, m ≠ n → ∀ p, B m p k q c = 0) :
    interp NbW x dofsW bW k q c = interp (Nb n) (fun d => x (σ n d)) (dofs n) (B n) k q c := by
  rw [C19_interpolate_split hW, Finset.sum_apply, Finset.sum_eq_single n]
  · intro m _ hm
    unfold interp
    apply List.sum_eq_zero
    intro y hy
    simp only [List.mem_map, List.mem_range] at hy
    obtain ⟨p, _, rfl⟩ := hy
    rw [hz m hm p, mul_zero]
  · intro h; exact absurd (Finset.mem_range.2 hn) h

end Interp
section Block
variable {NuW Ku : Nat} {Nu : Nat → Nat} {decU : Nat → Nat × Nat} {σu : Nat → Nat → Nat}
  {udofs : Nat → Nat → Nat → Nat} {UB : Nat → BasisData K} {udofsW : Nat → Nat → Nat}
  {ubW : BasisData K}
  {NvW Kv : Nat} {Nv : Nat → Nat} {decV : Nat → Nat × Nat} {σv : Nat → Nat → Nat}
  {vdofs : Nat → Nat → Nat → Nat} {VB : Nat → BasisData K} {vdofsW : Nat → Nat → Nat}
  {vbW : BasisData K}

/-- **block structure, weak form**: `vᵀ A u` on the wrapper bases is the sum over the blocks
    (trial component `n`, test component `m`) of the separately assembled component forms acting
    on the split vectors `u ∘ σu n`, `v ∘ σv m`; `f` is arbitrary (no linearity needed: the
    triplets are only renamed) -/
theorem C19_block_action (hU : Wraps K NuW Ku Nu decU σu udofs UB udofsW ubW)
    (hV : Wraps K NvW Kv Nv decV σv vdofs VB vdofsW vbW)
    (nt nq : Nat) (f : Sample K → Sample K → Sample K → K) (w : Nat → Nat → Sample K)
    (dx : Nat → Nat → K) (u v : Nat → K) :
    actionBil (bilinearTriplets NuW NvW nt nq f ubW vbW w dx udofsW vdofsW) u v
      = ∑ n ∈ Finset.range Ku, ∑ m ∈ Finset.range Kv,
          actionBil (bilinearTriplets (Nu n) (Nv m) nt nq f (UB n) (VB m) w dx (udofs n) (vdofs m))
            (fun d => u (σu n d)) (fun d => v (σv m d)) := by
  rw [actionBil_bilinearTriplets]
  -- the summand in terms of (component, function) of trial and test
  let H : Nat → Nat → Nat → Nat → K := fun n p m p' =>
    ∑ k ∈ Finset.range nt, v (σv m (vdofs m p' k))
      * kernelBil nq f (UB n) (VB m) w dx p p' k * u (σu n (udofs n p k))
  have hker : ∀ j < NuW, ∀ i < NvW, ∀ k,
      kernelBil nq f ubW vbW w dx j i k
        = kernelBil nq f (UB (decU j).1) (VB (decV i).1) w dx (decU j).2 (decV i).2 k := by
    intro j hj i hi k
    unfold kernelBil
    congr 1
    apply List.map_congr_left
    intro q _
    rw [hU.basis_eq j hj k q, hV.basis_eq i hi k q]
  have h1 : ∀ j ∈ Finset.range NuW, ∑ i ∈ Finset.range NvW, ∑ k ∈ Finset.range nt,
        v (vdofsW i k) * kernelBil nq f ubW vbW w dx j i k * u (udofsW j k)
      = (fun n p => ∑ m ∈ Finset.range Kv, ∑ p' ∈ Finset.range (Nv m), H n p m p')
          (decU j).1 (decU j).2 := by
    intro j hj
    have hj' := Finset.mem_range.1 hj
    have h2 : ∀ i ∈ Finset.range NvW, ∑ k ∈ Finset.range nt,
          v (vdofsW i k) * kernelBil nq f ubW vbW w dx j i k * u (udofsW j k)
        = (fun m p' => H (decU j).1 (decU j).2 m p') (decV i).1 (decV i).2 := by
      intro i hi
      have hi' := Finset.mem_range.1 hi
      apply Finset.sum_congr rfl
      intro k _
      rw [hker j hj' i hi' k, hU.dofs_eq j hj' k, hV.dofs_eq i hi' k]
    exact (Finset.sum_congr rfl h2).trans
      (hV.reindex (fun m p' => H (decU j).1 (decU j).2 m p'))
  refine (Finset.sum_congr rfl h1).trans ((hU.reindex
    (fun n p => ∑ m ∈ Finset.range Kv, ∑ p' ∈ Finset.range (Nv m), H n p m p')).trans ?_)
  apply Finset.sum_congr rfl
  intro n _
  rw [Finset.sum_comm]
  apply Finset.sum_congr rfl
  intro m _
  rw [actionBil_bilinearTriplets]

/-- **block structure, matrix form**: under the bijection the dense matrix on the wrapper
    numbering has, at (row `σv m r`, column `σu n c`), the entry `(r, c)` of the separately
    assembled block (trial component `n`, test component `m`).  `σu`, `σv` injective as maps
    (component, component DOF) ↦ wrapper DOF on the DOF ranges `NdU n`, `NdV m`. -/
theorem C19_block_matrix (hU : Wraps K NuW Ku Nu decU σu udofs UB udofsW ubW)
    (hV : Wraps K NvW Kv Nv decV σv vdofs VB vdofsW vbW)
    (nt nq : Nat) (f : Sample K → Sample K → Sample K → K) (w : Nat → Nat → Sample K)
    (dx : Nat → Nat → K) (NdU NdV : Nat → Nat)
    (hdu : ∀ n < Ku, ∀ p < Nu n, ∀ k < nt, udofs n p k < NdU n)
    (hdv : ∀ m < Kv, ∀ p < Nv m, ∀ k < nt, vdofs m p k < NdV m)
    (hσu : ∀ n < Ku, ∀ n' < Ku, ∀ d < NdU n, ∀ d' < NdU n', σu n d = σu n' d' → n = n' ∧ d = d')
    (hσv : ∀ m < Kv, ∀ m' < Kv, ∀ d < NdV m, ∀ d' < NdV m', σv m d = σv m' d' → m = m' ∧ d = d')
    (n m c r : Nat) (hn : n < Ku) (hm : m < Kv) (hc : c < NdU n) (hr : r < NdV m) :
    denseEntry (bilinearTriplets NuW NvW nt nq f ubW vbW w dx udofsW vdofsW) (σv m r) (σu n c)
      = denseEntry (bilinearTriplets (Nu n) (Nv m) nt nq f (UB n) (VB m) w dx (udofs n) (vdofs m))
          r c := by
  rw [← actionBil_unit, C19_block_action hU hV, ← actionBil_unit]
  rw [Finset.sum_eq_single n]
  · rw [Finset.sum_eq_single m]
    · apply actionBil_congr
      intro t ht
      obtain ⟨j, hj, i, hi, k, hk, rfl⟩ := mem_bilinearTriplets ht
      constructor
      · show (if σu n (udofs n j k) = σu n c then (1 : K) else 0) = if udofs n j k = c then 1 else 0
        by_cases h : udofs n j k = c
        · simp [h]
        · have : σu n (udofs n j k) ≠ σu n c := fun he =>
            h (hσu n hn n hn _ (hdu n hn j hj k hk) c hc he).2
          simp [h, this]
      · show (if σv m (vdofs m i k) = σv m r then (1 : K) else 0) = if vdofs m i k = r then 1 else 0
        by_cases h : vdofs m i k = r
        · simp [h]
        · have : σv m (vdofs m i k) ≠ σv m r := fun he =>
            h (hσv m hm m hm _ (hdv m hm i hi k hk) r hr he).2
          simp [h, this]
    · intro m' hm' hne
      apply actionBil_zero_right
      intro t ht
      obtain ⟨j, hj, i, hi, k, hk, rfl⟩ := mem_bilinearTriplets ht
      have hm'' := Finset.mem_range.1 hm'
      show (if σv m' (vdofs m' i k) = σv m r then (1 : K) else 0) = 0
      have : σv m' (vdofs m' i k) ≠ σv m r := fun he =>
        hne (hσv m' hm'' m hm _ (hdv m' hm'' i hi k hk) r hr he).1
      simp [this]
    · intro h; exact absurd (Finset.mem_range.2 hm) h
  · intro n' hn' hne
    apply Finset.sum_eq_zero
    intro m' _
    apply actionBil_zero_left
    intro t ht
    obtain ⟨j, hj, i, hi, k, hk, rfl⟩ := mem_bilinearTriplets ht
    have hn'' := Finset.mem_range.1 hn'
    show (if σu n' (udofs n' j k) = σu n c then (1 : K) else 0) = 0
    have : σu n' (udofs n' j k) ≠ σu n c := fun he =>
      hne (hσu n' hn'' n hn _ (hdu n' hn'' j hj k hk) c hc he).1
    simp [this]
  · intro h; exact absurd (Finset.mem_range.2 hn) h


/-- **block matrix of a composite element**: `C19_block_matrix` with `σ` = `split_indices()` of the
    trial and of the test wrapper (different component lists allowed); their injectivity is
    `C19_split_injective` -/
theorem C19_block_matrix_composite (csU csV : List DofCounts) (tp : Topo)
    (hwU : WellFormed (sumCounts csU) tp) (hwV : WellFormed (sumCounts csV) tp)
    (hU : Wraps K NuW csU.length Nu decU (fun n d => (splitIndicesComposite csU tp n).getD d 0)
      udofs UB udofsW ubW)
    (hV : Wraps K NvW csV.length Nv decV (fun m d => (splitIndicesComposite csV tp m).getD d 0)
      vdofs VB vdofsW vbW)
    (nt nq : Nat) (f : Sample K → Sample K → Sample K → K) (w : Nat → Nat → Sample K)
    (dx : Nat → Nat → K)
    (hdu : ∀ n < csU.length, ∀ p < Nu n, ∀ k < nt,
      udofs n p k < dofsTotal (csU.getD n ⟨0, 0, 0, 0⟩) tp)
    (hdv : ∀ m < csV.length, ∀ p < Nv m, ∀ k < nt,
      vdofs m p k < dofsTotal (csV.getD m ⟨0, 0, 0, 0⟩) tp)
    (n m c r : Nat) (hn : n < csU.length) (hm : m < csV.length)
    (hc : c < dofsTotal (csU.getD n ⟨0, 0, 0, 0⟩) tp) (hr : r < dofsTotal (csV.getD m ⟨0, 0, 0, 0⟩) tp) :
    denseEntry (bilinearTriplets NuW NvW nt nq f ubW vbW w dx udofsW vdofsW)
        ((splitIndicesComposite csV tp m).getD r 0) ((splitIndicesComposite csU tp n).getD c 0)
      = denseEntry (bilinearTriplets (Nu n) (Nv m) nt nq f (UB n) (VB m) w dx (udofs n) (vdofs m))
          r c := by
  have gd : ∀ (cs : List DofCounts) (i : Nat) (h : i < cs.length), cs.getD i ⟨0, 0, 0, 0⟩ = cs[i] := by
    intro cs i h; simp [List.getD_eq_getElem?_getD, h]
  exact C19_block_matrix hU hV nt nq f w dx
    (fun n => dofsTotal (csU.getD n ⟨0, 0, 0, 0⟩) tp) (fun m => dofsTotal (csV.getD m ⟨0, 0, 0, 0⟩) tp)
    hdu hdv
    (fun a ha a' ha' d hd d' hd' he =>
      C19_split_injective csU tp hwU a a' d d' ha ha' (by rw [← gd csU a ha]; exact hd)
        (by rw [← gd csU a' ha']; exact hd') he)
    (fun a ha a' ha' d hd d' hd' he =>
      C19_split_injective csV tp hwV a a' d d' ha ha' (by rw [← gd csV a ha]; exact hd)
        (by rw [← gd csV a' ha']; exact hd') he)
    n m c r hn hm hc hr

/-- **block matrix of a vector element**: `σ n d = dim * d + n` (`C19_split_vector`) -/
theorem C19_block_matrix_vector (dimU dimV NdU NdV : Nat)
    (hU : Wraps K NuW dimU Nu decU (fun n d => dimU * d + n) udofs UB udofsW ubW)
    (hV : Wraps K NvW dimV Nv decV (fun m d => dimV * d + m) vdofs VB vdofsW vbW)
    (nt nq : Nat) (f : Sample K → Sample K → Sample K → K) (w : Nat → Nat → Sample K)
    (dx : Nat → Nat → K)
    (hdu : ∀ n < dimU, ∀ p < Nu n, ∀ k < nt, udofs n p k < NdU)
    (hdv : ∀ m < dimV, ∀ p < Nv m, ∀ k < nt, vdofs m p k < NdV)
    (n m c r : Nat) (hn : n < dimU) (hm : m < dimV) (hc : c < NdU) (hr : r < NdV) :
    denseEntry (bilinearTriplets NuW NvW nt nq f ubW vbW w dx udofsW vdofsW)
        (dimV * r + m) (dimU * c + n)
      = denseEntry (bilinearTriplets (Nu n) (Nv m) nt nq f (UB n) (VB m) w dx (udofs n) (vdofs m))
          r c := by
  have inj : ∀ dim a a' d d' : Nat, a < dim → a' < dim → dim * d + a = dim * d' + a' → a = a' ∧ d = d' := by
    intro dim a a' d d' ha ha' he
    have h1 : (dim * d + a) % dim = (dim * d' + a') % dim := by rw [he]
    rw [Nat.mul_add_mod, Nat.mul_add_mod, Nat.mod_eq_of_lt ha, Nat.mod_eq_of_lt ha'] at h1
    subst h1
    have h2 : dim * d = dim * d' := by omega
    exact ⟨rfl, Nat.eq_of_mul_eq_mul_left (by omega) h2⟩
  exact C19_block_matrix hU hV nt nq f w dx (fun _ => NdU) (fun _ => NdV) hdu hdv
    (fun a ha a' ha' d _ d' _ he => inj dimU a a' d d' ha ha' he)
    (fun a ha a' ha' d _ d' _ he => inj dimV a a' d d' ha ha' he)
    n m c r hn hm hc hr

end Block

end Generic

section Coo
variable {K : Type} [CommRing K]

/-! ## 3. sums of assemblies, COOData -/

/-- **`asm` over a list of bases = sum of the tensors**: the elemental data are concatenated
    (`COOData.__add__` via `sum`) and the dense tensor of the concatenation is the sum of the dense
    tensors -/
theorem C19_asm_sum (Ts : List (List (Nat × Nat × K))) (r c : Nat) :
    denseEntry Ts.flatten r c = (Ts.map (fun T => denseEntry T r c)).sum :=
  denseEntry_flatten Ts r c

/-- **assembly over a partition of the cells = assembly over the whole mesh**: `parts` any list
    of cell lists whose concatenation is a rearrangement of `0 … nt-1` -/
theorem C19_asm_partition (parts : List (List Nat)) (nt : Nat)
    (hp : parts.flatten.Perm (List.range nt))
    (Nu Nv nq : Nat) (f : Sample K → Sample K → Sample K → K)
    (ub vb : BasisData K) (w : Nat → Nat → Sample K) (dx : Nat → Nat → K)
    (udofs vdofs : Nat → Nat → Nat) (r c : Nat) :
    denseEntry ((parts.map (fun cells =>
        bilinearTripletsOn cells Nu Nv nq f ub vb w dx udofs vdofs)).flatten) r c
      = denseEntry (bilinearTriplets Nu Nv nt nq f ub vb w dx udofs vdofs) r c := by
  rw [C19_asm_sum, List.map_map, denseEntry_bilinearTriplets, ← sum_map_range]
  have h1 : (parts.map ((fun T => denseEntry T r c) ∘ fun cells =>
        bilinearTripletsOn cells Nu Nv nq f ub vb w dx udofs vdofs))
      = parts.map (fun cells => (cells.map (cellEntry Nu Nv nq f ub vb w dx udofs vdofs r c)).sum) := by
    apply List.map_congr_left
    intro cells _
    exact denseEntry_bilinearTripletsOn cells Nu Nv nq f ub vb w dx udofs vdofs r c
  rw [h1, ← sum_map_flatten]
  exact (hp.map _).sum_eq

omit [CommRing K] in
/-- **`COOData.__add__`** concatenates the triplets (for well-formed operands) and takes the
    entrywise maximum of the shapes -/
theorem C19_coo_add (a b : Coo K) (h1 : a.rows.length = a.cols.length)
    (h2 : a.cols.length = a.data.length) :
    (a.add b).triplets = a.triplets ++ b.triplets
    ∧ (a.add b).shape = (max a.shape.1 b.shape.1, max a.shape.2 b.shape.2) := by
  refine ⟨?_, rfl⟩
  unfold Coo.add Coo.triplets
  simp only
  rw [List.zip_append h2, List.zip_append]
  rw [h1, List.length_zip, h2, Nat.min_self]

/-- … hence the dense tensor (and the product with a vector) of a sum is the sum -/
theorem C19_coo_add_dense (a b : Coo K) (h1 : a.rows.length = a.cols.length)
    (h2 : a.cols.length = a.data.length) (r c : Nat) (x : Nat → K) :
    denseEntry (a.add b).triplets r c = denseEntry a.triplets r c + denseEntry b.triplets r c
    ∧ cooDot (a.add b).triplets x r = cooDot a.triplets x r + cooDot b.triplets x r := by
  rw [(C19_coo_add a b h1 h2).1]
  exact ⟨denseEntry_append _ _ r c, cooDot_append _ _ x r⟩

/-- **`dot` = dense matrix-vector product** (`toarray() @ x`), column indices `< Nc` -/
theorem C19_coo_dot (T : List (Nat × Nat × K)) (Nc : Nat) (hT : ∀ t ∈ T, t.2.1 < Nc)
    (x : Nat → K) (r : Nat) :
    cooDot T x r = ∑ c ∈ Finset.range Nc, denseEntry T r c * x c :=
  cooDot_eq_dense T Nc hT x r

/-- `dot(x, D)` keeps `x` on `D` and is the product elsewhere -/
theorem C19_coo_dot_D (T : List (Nat × Nat × K)) (x : Nat → K) (D : List Nat) (r : Nat) :
    (r ∈ D → cooDotD T x D r = x r) ∧ (r ∉ D → cooDotD T x D r = cooDot T x r) := by
  unfold cooDotD
  constructor
  · intro h; simp [h]
  · intro h; simp [h]

/-! ## 4. local matrices -/

/-- **`fromlocal ∘ tolocal = id`** on data of the right length -/
theorem C19_fromlocal_tolocal (Nu Nv nt : Nat) (data : List K) (h : data.length = Nu * Nv * nt) :
    fromlocal Nu Nv nt (tolocal Nv nt data) = data := by
  have e : data = (List.range (Nu * Nv * nt)).map (fun p => data.getD p 0) := by
    rw [← h]
    have := map_getD_range data (0 : K) id
    rw [List.map_id] at this
    exact this.symm
  conv_rhs => rw [e]
  rw [range_mul_map, range_mul_flatMap]
  unfold fromlocal tolocal reshape3
  rfl

/-- **`tolocal ∘ fromlocal = id`** -/
theorem C19_tolocal_fromlocal (Nu Nv nt : Nat) (L : Nat → Nat → Nat → K) (k i j : Nat)
    (hk : k < nt) (hi : i < Nv) (hj : j < Nu) :
    tolocal Nv nt (fromlocal Nu Nv nt L) k i j = L k i j := by
  unfold tolocal reshape3 fromlocal
  have hin : ∀ j' < Nu, ((List.range Nv).flatMap (fun i => (List.range nt).map (fun k =>
      L k i j'))).length = Nv * nt := by
    intro j' _
    exact length_flatMap_range Nv nt _ (fun i _ => by simp)
  have e : (j * Nv + i) * nt + k = j * (Nv * nt) + (i * nt + k) := by ring
  have hik : i * nt + k < Nv * nt := by
    have h1 : (i + 1) * nt ≤ Nv * nt := Nat.mul_le_mul_right nt hi
    rw [Nat.add_mul] at h1
    omega
  rw [List.getD_eq_getElem?_getD, e, getElem?_flatMap_range Nu (Nv * nt) _ hin j (i * nt + k) hj hik,
    getElem?_flatMap_range Nv nt _ (fun i _ => by simp) i k hi hk]
  simp [hk]

/-- **orientation of `tolocal()`**: on the elemental data of a bilinear form, `tolocal()[k][i][j]`
    is the kernel of (trial function `j`, test function `i`) on cell `k`, and it is the entry that
    assembly scatters to row `vdofs[i][k]` (test), column `udofs[j][k]` (trial) — for any
    `Nu`, `Nv` (rectangular forms included) -/
theorem C19_tolocal_orientation (Nu Nv nt nq : Nat) (f : Sample K → Sample K → Sample K → K)
    (ub vb : BasisData K) (w : Nat → Nat → Sample K) (dx : Nat → Nat → K)
    (udofs vdofs : Nat → Nat → Nat) (k i j : Nat) (hk : k < nt) (hi : i < Nv) (hj : j < Nu) :
    let T := bilinearTriplets Nu Nv nt nq f ub vb w dx udofs vdofs
    tolocal Nv nt (T.map (fun t => t.2.2)) k i j = kernelBil nq f ub vb w dx j i k
    ∧ T[flatSlot Nv nt i j k]?
        = some (vdofs i k, udofs j k, tolocal Nv nt (T.map (fun t => t.2.2)) k i j) := by
  intro T
  have h := C01.C01_rows_test_cols_trial Nu Nv nt nq f ub vb w dx udofs vdofs j i k hj hi hk
  have e : (j * Nv + i) * nt + k = flatSlot Nv nt i j k := by unfold flatSlot; ring
  have h1 : tolocal Nv nt (T.map (fun t => t.2.2)) k i j = kernelBil nq f ub vb w dx j i k := by
    unfold tolocal reshape3
    rw [List.getD_eq_getElem?_getD, e, List.getElem?_map, h]
    rfl
  exact ⟨h1, by rw [h1]; exact h⟩

/-- the published `tolocal()` reshaped with `local_shape = (Nv, Nu)` although the data are laid out
    `(Nu, Nv, nt)`: for square forms it returns the transposed local matrices … -/
theorem C19_tolocal_old_transposed (N nt : Nat) (data : List K) (k a b : Nat) :
    tolocalOld N nt data k a b = tolocal N nt data k b a := rfl

end Coo

/-- … which differ from the local matrices for a non-symmetric form (2 × 2, one cell; the data
    are the slot numbers), and for rectangular forms (`Nu = 3`, `Nv = 2`) it scrambles the entries:
    the old local matrix is neither the local matrix nor (in any reading) its transpose -/
theorem C19_tolocal_old_counterexample :
    tolocalOld 2 1 [0, 1, 2, 3] 0 0 1 ≠ tolocal 2 1 ([0, 1, 2, 3] : List Int) 0 0 1
    ∧ tolocalArray 3 2 1 ([0, 1, 2, 3, 4, 5] : List Int) = [[[0, 2, 4], [1, 3, 5]]]
    ∧ tolocalOldArray 3 2 1 ([0, 1, 2, 3, 4, 5] : List Int) = [[[0, 1, 2], [3, 4, 5]]] := by
  decide


section Inv
variable {K : Type} [CommRing K]

/-- the COO triplets whose data are the local matrices `L` written back by `fromlocal`:
    `L k i j` travels with row `vdofs i k`, column `udofs j k` -/
def scatterLocal (Nu Nv nt : Nat) (udofs vdofs : Nat → Nat → Nat) (L : Nat → Nat → Nat → K) :
    List (Nat × Nat × K) :=
  (List.range Nu).flatMap (fun j => (List.range Nv).flatMap (fun i => (List.range nt).map (fun k =>
    (vdofs i k, udofs j k, L k i j))))

/-- **`fromlocal` keeps the indices**: replacing the data of the elemental COO of a bilinear form
    by `fromlocal(L)` gives the triplets `(vdofs[i][k], udofs[j][k], L[k][i][j])` — `inverse()`
    (`L` = the inverted local matrices) scatters the inverse blocks with rows = test,
    cols = trial -/
theorem C19_fromlocal_scatter (Nu Nv nt nq : Nat) (f : Sample K → Sample K → Sample K → K)
    (ub vb : BasisData K) (w : Nat → Nat → Sample K) (dx : Nat → Nat → K)
    (udofs vdofs : Nat → Nat → Nat) (L : Nat → Nat → Nat → K) :
    let T := bilinearTriplets Nu Nv nt nq f ub vb w dx udofs vdofs
    (Coo.mk (T.map (·.1)) (T.map (·.2.1)) (fromlocal Nu Nv nt L) (0, 0)).triplets
      = scatterLocal Nu Nv nt udofs vdofs L := by
  intro T
  have hr : T.map (·.1) = (scatterLocal Nu Nv nt udofs vdofs L).map (·.1) := by
    simp only [T, bilinearTriplets, scatterLocal, List.map_flatMap, List.map_map]
    rfl
  have hc : T.map (·.2.1) = (scatterLocal Nu Nv nt udofs vdofs L).map (·.2.1) := by
    simp only [T, bilinearTriplets, scatterLocal, List.map_flatMap, List.map_map]
    rfl
  have hd : fromlocal Nu Nv nt L = (scatterLocal Nu Nv nt udofs vdofs L).map (·.2.2) := by
    simp only [fromlocal, scatterLocal, List.map_flatMap, List.map_map]
    rfl
  unfold Coo.triplets
  simp only
  rw [hr, hc, hd, zip3_of_maps]

/-- product of a scattered block-diagonal matrix with a vector, for a cell-wise decoupled
    numbering (every DOF belongs to one cell: `dofs` injective in (local index, cell)) -/
theorem C19_scatter_dot (Nb nt : Nat) (dofs : Nat → Nat → Nat)
    (hinj : ∀ i < Nb, ∀ i' < Nb, ∀ k < nt, ∀ k' < nt, dofs i k = dofs i' k' → i = i' ∧ k = k')
    (L : Nat → Nat → Nat → K) (x : Nat → K) (i k : Nat) (hi : i < Nb) (hk : k < nt) :
    cooDot (scatterLocal Nb Nb nt dofs dofs L) x (dofs i k)
      = ∑ j ∈ Finset.range Nb, L k i j * x (dofs j k) := by
  rw [cooDot_eq_sum_ite]
  unfold scatterLocal
  rw [sum_map_flatMap_range]
  apply Finset.sum_congr rfl
  intro j _
  rw [sum_map_flatMap_range, Finset.sum_eq_single i]
  · rw [List.map_map, sum_map_range, Finset.sum_eq_single k]
    · simp
    · intro k' hk' hne
      have hk'' := Finset.mem_range.1 hk'
      have : dofs i k' ≠ dofs i k := fun he => hne (hinj i hi i hi k' hk'' k hk he).2
      simp [this]
    · intro h; exact absurd (Finset.mem_range.2 hk) h
  · intro i' hi' hne
    have hi'' := Finset.mem_range.1 hi'
    rw [List.map_map, sum_map_range]
    apply Finset.sum_eq_zero
    intro k' hk'
    have hk'' := Finset.mem_range.1 hk'
    have : dofs i' k' ≠ dofs i k := fun he => hne (hinj i' hi'' i hi k' hk'' k hk he).1
    simp [this]
  · intro h; exact absurd (Finset.mem_range.2 hi) h

/-- **`inverse()` of a cell-wise decoupled (discontinuous) matrix is the inverse matrix**:
    if `M k` is a left inverse of `L k` in every cell, the scattered `M` undoes the scattered `L` on
    every DOF -/
theorem C19_inverse_dg (Nb nt : Nat) (dofs : Nat → Nat → Nat)
    (hinj : ∀ i < Nb, ∀ i' < Nb, ∀ k < nt, ∀ k' < nt, dofs i k = dofs i' k' → i = i' ∧ k = k')
    (L M : Nat → Nat → Nat → K)
    (hinv : ∀ k < nt, ∀ i < Nb, ∀ j < Nb,
      ∑ m ∈ Finset.range Nb, M k i m * L k m j = if i = j then 1 else 0)
    (x : Nat → K) (i k : Nat) (hi : i < Nb) (hk : k < nt) :
    cooDot (scatterLocal Nb Nb nt dofs dofs M)
        (cooDot (scatterLocal Nb Nb nt dofs dofs L) x) (dofs i k) = x (dofs i k) := by
  rw [C19_scatter_dot Nb nt dofs hinj M _ i k hi hk]
  have h1 : ∀ m ∈ Finset.range Nb, M k i m * cooDot (scatterLocal Nb Nb nt dofs dofs L) x (dofs m k)
      = ∑ j ∈ Finset.range Nb, M k i m * L k m j * x (dofs j k) := by
    intro m hm
    rw [C19_scatter_dot Nb nt dofs hinj L x m k (Finset.mem_range.1 hm) hk, Finset.mul_sum]
    apply Finset.sum_congr rfl
    intro j _
    ring
  rw [Finset.sum_congr rfl h1, Finset.sum_comm]
  have h2 : ∀ j ∈ Finset.range Nb, ∑ m ∈ Finset.range Nb, M k i m * L k m j * x (dofs j k)
      = (if i = j then 1 else 0) * x (dofs j k) := by
    intro j hj
    rw [← Finset.sum_mul, hinv k hk i hi j (Finset.mem_range.1 hj)]
  rw [Finset.sum_congr rfl h2, Finset.sum_eq_single i]
  · simp
  · intro j _ hne; simp [Ne.symm hne]
  · intro h; exact absurd (Finset.mem_range.2 hi) h

/-- linear forms (`local_shape = (Nv,)`): `tolocal()[k][i]` is the entry scattered to `vdofs[i][k]`,
    and the round trip is the identity -/
theorem C19_tolocal_linear (Nv nt nq : Nat) (f : Sample K → Sample K → K)
    (vb : BasisData K) (w : Nat → Nat → Sample K) (dx : Nat → Nat → K)
    (vdofs : Nat → Nat → Nat) (k i : Nat) (hk : k < nt) (hi : i < Nv) :
    let T := linearPairs Nv nt nq f vb w dx vdofs
    T[i * nt + k]? = some (vdofs i k, tolocalLin nt (T.map (·.2)) k i)
    ∧ tolocalLin nt (T.map (·.2)) k i = kernelLin nq f vb w dx i k
    ∧ (∀ L : Nat → Nat → K, tolocalLin nt (fromlocalLin Nv nt L) k i = L k i) := by
  intro T
  have h : T[i * nt + k]? = some (vdofs i k, kernelLin nq f vb w dx i k) := by
    simp only [T, linearPairs]
    rw [getElem?_flatMap_range Nv nt _ (fun i _ => by simp) i k hi hk]
    simp [hk]
  have h1 : tolocalLin nt (T.map (·.2)) k i = kernelLin nq f vb w dx i k := by
    unfold tolocalLin
    rw [List.getD_eq_getElem?_getD, List.getElem?_map, h]
    rfl
  refine ⟨by rw [h1]; exact h, h1, ?_⟩
  intro L
  unfold tolocalLin fromlocalLin
  rw [List.getD_eq_getElem?_getD, getElem?_flatMap_range Nv nt _ (fun i _ => by simp) i k hi hk]
  simp [hk]

end Inv

/-! ## 5. `bmat(...).blocks` -/

/-- **the block offsets reported by `bmat`** are the cumulative widths of the block columns
    (what `np.split(x, K.blocks)` needs), for any number of block columns -/
theorem C19_bmat_blocks (widths : List Nat) :
    bmatBlocks false widths
      = (List.range (widths.length - 1)).map (fun j => (widths.take (j + 1)).sum) := by
  unfold bmatBlocks
  rw [bmat_foldl]
  simp only [List.nil_append, Nat.zero_add, List.length_dropLast]
  apply List.map_congr_left
  intro j hj
  simp only [List.mem_range] at hj
  rw [List.dropLast_eq_take, List.take_take, Nat.min_eq_left (by omega)]

/-- the published loop accumulated `diff += sizes[-1]`: wrong from the fourth block column on -/
theorem C19_bmat_blocks_old_counterexample :
    bmatBlocks true [2, 3, 4, 5] = [2, 5, 11] ∧ bmatBlocks false [2, 3, 4, 5] = [2, 5, 9] := by
  decide

/-! ## 6. `Dofs` and the number of components of `ElementVector(elem, dim)` -/

/-- one tetrahedron -/
def oneTet (dim : Nat) : Topo :=
  { dim := dim, nverts := 4, nedges := 6, nfacets := 4, nt := 1,
    t := [[0], [1], [2], [3]], t2e := [[0], [1], [2], [3], [4], [5]], t2f := [[0], [1], [2], [3]] }

/-- the published `Dofs.__init__` read `element.dim`, which for `ElementVector(elem, dim)` is the
    number of components: a two-component quadratic field on a tetrahedron lost its edge rows
    (8 rows instead of 2 × 10) -/
theorem C19_dofs_dim_old_counterexample :
    (elementDofs (vecCounts 2 ⟨1, 1, 0, 0⟩) (oneTet 2)).length = 8
    ∧ (elementDofs (vecCounts 2 ⟨1, 1, 0, 0⟩) (oneTet 3)).length = 20
    ∧ ((elementDofs ⟨1, 1, 0, 0⟩ (oneTet 3)).flatMap (vecRows 2)).length = 20 := by
  decide


/-! ## 7. `tolocal(basis=facet basis)` -/

section Facets
variable {K : Type} [CommRing K]

/-- **facet tensors summed to elemental tensors keep the global tensor**: any cell-wise
    weighting `G` (e.g. the indicator that local indices `(i, j)` of cell `k` are the global pair
    `(r, c)`) of the summed tensors equals the facet-wise weighting by the cell the facet was
    evaluated in -/
theorem C19_tolocal_facets (tind : List Nat) (nt : Nat) (ht : ∀ f < tind.length, tind.getD f 0 < nt)
    (L G : Nat → K) :
    ∑ k ∈ Finset.range nt, G k * sumToCells tind L k
      = ∑ f ∈ Finset.range tind.length, G (tind.getD f 0) * L f := by
  have h1 : ∀ k, sumToCells tind L k
      = ∑ f ∈ Finset.range tind.length, if tind.getD f 0 = k then L f else 0 := by
    intro k
    unfold sumToCells
    rw [← sum_map_range]
    generalize List.range tind.length = l
    induction l with
    | nil => simp
    | cons f l ih =>
      by_cases h : tind.getD f 0 = k
      · have hb : (tind.getD f 0 == k) = true := by simpa using h
        rw [List.filter_cons_of_pos (p := fun f => tind.getD f 0 == k) hb, List.map_cons, List.sum_cons, ih, List.map_cons,
          List.sum_cons, if_pos h]
      · have hb : ¬ (tind.getD f 0 == k) = true := by simpa using h
        rw [List.filter_cons_of_neg (p := fun f => tind.getD f 0 == k) hb, ih, List.map_cons, List.sum_cons, if_neg h, zero_add]
  simp only [h1, Finset.mul_sum]
  rw [Finset.sum_comm]
  apply Finset.sum_congr rfl
  intro f hf
  rw [Finset.sum_eq_single (tind.getD f 0)]
  · simp
  · intro k _ hne
    rw [if_neg (Ne.symm hne), mul_zero]
  · intro h; exact absurd (Finset.mem_range.2 (ht f (Finset.mem_range.1 hf))) h

end Facets

/-- the published version added the tensor of an interior facet to BOTH neighbouring cells
    (two cells sharing facet 0 which was evaluated in cell 0; one local facet slot) -/
theorem C19_tolocal_facets_old_counterexample :
    sumToCellsOld [0] [[0, 0]] (fun _ => (1 : Int)) 1 = 1
    ∧ sumToCells [0] (fun _ => (1 : Int)) 1 = 0
    ∧ sumToCells [0] (fun _ => (1 : Int)) 0 = 1 := by
  decide

/-! ## non-vacuity -/

/-- P2 × P1 (Taylor–Hood pressure part) on two triangles sharing an edge: hypotheses hold … -/
def twoTris : Topo :=
  { dim := 2, nverts := 4, nedges := 0, nfacets := 5, nt := 2,
    t := [[0, 1], [1, 2], [2, 3]], t2e := [], t2f := [[0, 2], [2, 4], [1, 3]] }

example : WellFormed (sumCounts [⟨1, 0, 1, 0⟩, ⟨1, 0, 0, 0⟩]) twoTris :=
  ⟨by decide, by decide⟩

example : Compatible twoTris ⟨3, 0, 3⟩ := ⟨rfl, rfl, rfl⟩

example : ∀ t < 4, ∀ row ∈ connOf twoTris t, ∀ e ∈ row, e < nentOf twoTris t := by decide

/-- … and the model computes what the implementation does -/
example : (List.range 9).map (deduceBfun [⟨1, 0, 1, 0⟩, ⟨1, 0, 0, 0⟩] ⟨3, 0, 3⟩)
    = [(0, 0), (1, 0), (0, 1), (1, 1), (0, 2), (1, 2), (0, 3), (0, 4), (0, 5)] := by decide

example : splitIndicesComposite [⟨1, 0, 1, 0⟩, ⟨1, 0, 0, 0⟩] twoTris 0 = [0, 2, 4, 6, 8, 9, 10, 11, 12]
    ∧ splitIndicesComposite [⟨1, 0, 1, 0⟩, ⟨1, 0, 0, 0⟩] twoTris 1 = [1, 3, 5, 7] := by decide

example : splitIndicesVector 2 ⟨1, 0, 1, 0⟩ twoTris 1 = [1, 3, 5, 7, 9, 11, 13, 15, 17] := by decide

/-- a wrapper of one component is a `Wraps` instance (so the hypotheses of the generic theorems
    are satisfiable; the correspondence establishes them for the real wrappers) -/
example (Nb : Nat) (dofs : Nat → Nat → Nat) (b : BasisData Int) :
    Wraps Int Nb 1 (fun _ => Nb) (fun j => (0, j)) (fun _ d => d) (fun _ => dofs) (fun _ => b) dofs b :=
  ⟨fun G => by simp, fun _ _ _ => rfl, fun _ _ _ _ => rfl⟩

example : [[0, 1], [2, 3]].flatten.Perm (List.range 4) := by decide

/-- the hypotheses of `C19_inverse_dg` hold for P0 on two cells with local matrices `2`, `1/2` -/
example : (∀ i < 1, ∀ i' < 1, ∀ k < 2, ∀ k' < 2, (fun _ k => k) i k = (fun _ k => k) i' k' → i = i' ∧ k = k')
    ∧ (∀ k < 2, ∀ i < 1, ∀ j < 1, ∑ m ∈ Finset.range 1,
        (fun _ _ _ => (1 / 2 : Rat)) k i m * (fun _ _ _ => (2 : Rat)) k m j = if i = j then 1 else 0) := by
  constructor
  · intro i hi i' hi' k _ k' _ h
    exact ⟨by omega, h⟩
  · intro k _ i hi j hj
    have : i = j := by omega
    simp [this]

end Skv.C19
