import SkfemVerif.Model.BC
import SkfemVerif.Lemmas.Np
import SkfemVerif.Lemmas.BC
import SkfemVerif.Lemmas.Mpc
import Mathlib.Algebra.BigOperators.Group.Finset.Basic
import Mathlib.Algebra.BigOperators.Ring.Finset
import Mathlib.Algebra.Field.Basic
import Mathlib.Tactic.Ring
/-
C05  Essential boundary conditions: condense, enforce, penalize, expansion.

Model: Model/BC.lean.  Tie: correspondence ops `bc.init`, `bc.condense`, `bc.enforce.idx`,
`bc.enforce`, `bc.penalize` on random sparse systems (rows without stored entries, explicit
zeros, unsymmetric patterns, index sets in any order and with repetitions).

`K` is any commutative ring (field where a reciprocal is needed); `n` any size; `A b x`
arbitrary.
-/
namespace Skv.C05
open Skv

/-! ### `_init_bc` -/

/-- exactly one of `I`, `D` may be given -/
theorem C05_init_bc_error (n : Nat) (I D : Option (List Nat)) :
    initBC n I D = none ↔ (I = none ∧ D = none) ∨ (I.isSome ∧ D.isSome) := by
  cases I <;> cases D <;> simp [initBC]

/-- when `D` is given (any order, repetitions allowed): the returned `D'` has the same members
    without repetition, `I'` is exactly the set complement in `0 … n-1`, ascending -/
theorem C05_init_bc_D (n : Nat) (D : List Nat) (I' D' : List Nat)
    (h : initBC n none (some D) = some (I', D')) :
    D'.Nodup ∧ (∀ i, i ∈ D' ↔ i ∈ D) ∧ I'.Nodup ∧ (∀ i, i ∈ I' ↔ (i < n ∧ i ∉ D))
      ∧ I'.Pairwise (· < ·) := by
  simp only [initBC, Option.some.injEq, Prod.mk.injEq] at h
  obtain ⟨rfl, rfl⟩ := h
  refine ⟨nodup_unique D, fun i => mem_unique, nodup_complementRange n _, ?_,
    pairwise_complementRange n _⟩
  intro i
  rw [mem_complementRange, mem_unique]

theorem C05_init_bc_I (n : Nat) (I : List Nat) (I' D' : List Nat)
    (h : initBC n (some I) none = some (I', D')) :
    I' = I ∧ D'.Nodup ∧ (∀ i, i ∈ D' ↔ (i < n ∧ i ∉ I)) := by
  simp only [initBC, Option.some.injEq, Prod.mk.injEq] at h
  obtain ⟨rfl, rfl⟩ := h
  exact ⟨rfl, nodup_complementRange n _, fun i => mem_complementRange⟩

section Ring
variable {K : Type} [CommRing K]

/-- the expansion `y = x.copy(); y[I] = sol` restores the prescribed values off `I` … -/
theorem C05_expand_off (x : Nat → K) (I : List Nat) (sol : List K) (i : Nat) (hi : i ∉ I) :
    expandSol x I sol i = x i := by
  exact expandSol_off x I sol i hi

/-- … and puts `sol[p]` at `I[p]` (for `I` without repetitions, any order) -/
theorem C05_expand_on (x : Nat → K) (I : List Nat) (sol : List K) (hI : I.Nodup)
    (hlen : sol.length = I.length) (p : Nat) (hp : p < I.length) :
    expandSol x I sol (I[p]) = sol[p]'(by omega) := by
  exact expandSol_on x I sol hI hlen p hp

/-- **condense + solve + expand**: if `sol` solves the condensed system
    `A_II sol = b_I − A_ID x_D`, then the expanded vector equals `x` on `D` and satisfies the
    ORIGINAL equations on every kept row.  `I` and `D` are any two duplicate-free lists (any order)
    that together contain every index `< n` exactly once. -/
theorem C05_condense_expand (n : Nat) (A : Nat → Nat → K) (b x : Nat → K) (I D : List Nat)
    (hI : I.Nodup) (hD : D.Nodup) (hdisj : ∀ i, i ∈ I → i ∉ D)
    (hcover : ∀ i, i < n ↔ (i ∈ I ∨ i ∈ D))
    (sol : List K) (hlen : sol.length = I.length)
    (hsol : ∀ p (hp : p < I.length),
      condensedRowApply A I sol (I[p]) = (condenseRhs A b x I D)[p]'(by simp [condenseRhs]; exact hp)) :
    (∀ d ∈ D, expandSol x I sol d = x d)
    ∧ (∀ i ∈ I, matVec n A (expandSol x I sol) i = b i) := by
  refine ⟨fun d hd => expandSol_off x I sol d (fun h => hdisj d h hd), ?_⟩
  intro i hi
  obtain ⟨p, hp, rfl⟩ := List.getElem_of_mem hi
  rw [matVec_expand n A x I D hI hD hdisj hcover sol hlen, hsol p hp]
  simp only [condenseRhs, List.getElem_map]
  ring

/-- `enforce` (dense semantics): constrained rows are exactly `diag * e_i`, rhs `x_i`; other rows
    untouched -/
theorem C05_enforce_rows (A : Nat → Nat → K) (b x : Nat → K) (D : List Nat) (diag : K) (i j : Nat) :
    (i ∈ D → enforceMat A D diag i j = (if i = j then diag else 0) ∧ enforceRhs b x D i = x i)
    ∧ (i ∉ D → enforceMat A D diag i j = A i j ∧ enforceRhs b x D i = b i) := by
  constructor
  · intro hi
    simp [enforceMat, enforceRhs, hi]
  · intro hi
    simp [enforceMat, enforceRhs, hi]

/-- `enforce` has the same solutions as the constrained problem: `z` solves the enforced system
    iff (`diag * z_d = x_d` on `D` and the original equations hold on the other rows) -/
theorem C05_enforce_same_solution (n : Nat) (A : Nat → Nat → K) (b x z : Nat → K) (D : List Nat)
    (diag : K) (hD : ∀ d ∈ D, d < n) :
    (∀ i < n, matVec n (enforceMat A D diag) z i = enforceRhs b x D i)
    ↔ ((∀ d ∈ D, diag * z d = x d) ∧ (∀ i < n, i ∉ D → matVec n A z i = b i)) := by
  constructor
  · intro h
    refine ⟨fun d hd => ?_, fun i hin hi => ?_⟩
    · have := h d (hD d hd)
      rw [matVec_enforce_mem n A z D diag d hd (hD d hd)] at this
      simpa [enforceRhs, hd] using this
    · have := h i hin
      rw [matVec_enforce_not_mem n A z D diag i hi] at this
      simpa [enforceRhs, hi] using this
  · rintro ⟨h1, h2⟩ i hin
    by_cases hi : i ∈ D
    · rw [matVec_enforce_mem n A z D diag i hi hin, h1 i hi]
      simp [enforceRhs, hi]
    · rw [matVec_enforce_not_mem n A z D diag i hi, h2 i hin hi]
      simp [enforceRhs, hi]

/-- `penalize`: a penalised row differs only in the diagonal and right-hand side … -/
theorem C05_penalize_rows (A : Nat → Nat → K) (b x : Nat → K) (D : List Nat) (epsInv : K) (i j : Nat) :
    (i ∈ D → penalizeMat A D epsInv i j = (if i = j then epsInv else A i j)
              ∧ penalizeRhs b x D epsInv i = x i * epsInv)
    ∧ (i ∉ D → penalizeMat A D epsInv i j = A i j ∧ penalizeRhs b x D epsInv i = b i) := by
  constructor
  · intro hi
    simp [penalizeMat, penalizeRhs, hi]
  · intro hi
    simp [penalizeMat, penalizeRhs, hi]

/-- **multipoint constraints**: if `w` solves the reduced system `B w = y` built by `mpc`, the expanded
    vector satisfies the constraint `z_S = T z_M + g` and the ORIGINAL equations on every row of
    `U ∪ M`.  `U`, `M`, `S`: duplicate-free, pairwise disjoint, together all indices `< n`. -/
theorem C05_mpc (n : Nat) (A : Nat → Nat → K) (b : Nat → K) (U M S : List Nat)
    (T : Nat → Nat → K) (g : Nat → K) (w : Nat → K)
    (hnd : (U ++ M ++ S).Nodup) (hcover : ∀ i, i < n ↔ i ∈ U ++ M ++ S)
    (hsol : ∀ p < (U ++ M).length,
      ((List.range (U ++ M).length).map (fun q => mpcMat A U M S T p q * w q)).sum = mpcRhs A b U M S g p) :
    (∀ s (hs : s < S.length), mpcExpand U M S T g w (S[s])
        = ((List.range M.length).map (fun j => T s j * mpcExpand U M S T g w (M.getD j 0))).sum + g s)
    ∧ (∀ r ∈ U ++ M, matVec n A (mpcExpand U M S T g w) r = b r) := by
  obtain ⟨hUM, hS, hd⟩ := List.nodup_append.1 hnd
  have hdisj : ∀ i, i ∈ U ++ M → i ∉ S := fun i hi hiS => hd i hi i hiS rfl
  have hcover' : ∀ i, i < n ↔ (i ∈ U ++ M ∨ i ∈ S) := by
    intro i
    rw [hcover i, List.mem_append]
  constructor
  · intro s hs
    rw [mpcExpand_S U M S T g w hS hdisj s hs]
    congr 2
    apply List.map_congr_left
    intro j hj
    have hj' : j < M.length := List.mem_range.1 hj
    rw [getD_M_eq U M j hj',
      mpcExpand_UM U M S T g w hUM (U.length + j) (by rw [List.length_append]; omega)]
  · intro r hr
    obtain ⟨p, hp, rfl⟩ := List.getElem_of_mem hr
    rw [← getD_eq_getElem_of_lt (U ++ M) p hp]
    exact mpc_row n A b U M S T g w hUM hS hdisj hcover' p (hsol p hp)

end Ring

section Field
variable {K : Type} [Field K]

/-- … and any solution of the penalised system agrees with the prescribed value up to
    `ε` times the off-diagonal coupling: `z_i − x_i = −ε · Σ_{j≠i} A_ij z_j` -/
theorem C05_penalize_error (n : Nat) (A : Nat → Nat → K) (b x z : Nat → K) (D : List Nat)
    (eps : K) (heps : eps ≠ 0) (i : Nat) (hi : i ∈ D) (hin : i < n)
    (hsol : matVec n (penalizeMat A D eps⁻¹) z i = penalizeRhs b x D eps⁻¹ i) :
    z i - x i = - eps * ∑ j ∈ (Finset.range n).erase i, A i j * z j := by
  rw [matVec_penalize_mem n A z D eps⁻¹ i hi hin] at hsol
  have hr : penalizeRhs b x D eps⁻¹ i = x i * eps⁻¹ := by simp [penalizeRhs, hi]
  rw [hr] at hsol
  have hc : eps * eps⁻¹ = 1 := mul_inv_cancel₀ heps
  calc z i - x i
      = eps * (eps⁻¹ * z i + ∑ j ∈ (Finset.range n).erase i, A i j * z j)
          - eps * ∑ j ∈ (Finset.range n).erase i, A i j * z j - x i := by
        rw [mul_add, ← mul_assoc, hc]; ring
    _ = - eps * ∑ j ∈ (Finset.range n).erase i, A i j * z j := by
        rw [hsol, mul_comm (x i), ← mul_assoc, hc]; ring

end Field

/-! ### CSR row zeroing (the index arithmetic of `enforce`) -/

/-- **the repaired arithmetic is right**: for every `indptr` and every list `D` of rows
    (any order; rows WITHOUT stored entries included) the computed flat positions are exactly the
    stored ranges of the rows in `D` -/
theorem C05_rowzero_idx (indptr : List Nat) (D : List Nat) :
    rowZeroIdx indptr D = rowRanges indptr D := by
  exact rowZeroIdx_eq_rowRanges indptr D

/-- the arithmetic of the pinned tree was wrong as soon as a constrained row stores no entry:
    it zeroes row 3 instead of row 2 … -/
theorem C05_rowzero_idx_old_counterexample :
    rowZeroIdxOld [0, 2, 2, 5, 7] [0, 1, 2] = some [0, 1, 4, 5, 6]
    ∧ rowRanges [0, 2, 2, 5, 7] [0, 1, 2] = [0, 1, 2, 3, 4] := by
  decide

/-- … or raises when the last constrained row is empty -/
theorem C05_rowzero_idx_old_raises : rowZeroIdxOld [0, 2, 2, 5, 7] [0, 1] = none := by
  decide

section Ring2
variable {K : Type} [CommRing K]

/-- **zeroing the positions `rowRanges indptr D` zeroes exactly the rows in `D`** of the dense
    matrix and leaves every other entry unchanged, for every CSR matrix whose `indptr` is
    non-decreasing on its own index range (`i + 1 < indptr.length`; nothing is asked past the end,
    and no relation between `indptr` and `data.length` is needed).  `D` in any order, repetitions
    and rows without stored entries allowed. -/
theorem C05_zero_rows_dense (m : CSR K) (D : List Nat)
    (hmono : ∀ i, i + 1 < m.indptr.length → m.indptr.getD i 0 ≤ m.indptr.getD (i + 1) 0)
    (i j : Nat) (hi : i + 1 < m.indptr.length) (hD : ∀ d ∈ D, d + 1 < m.indptr.length) :
    (CSR.entry { m with data := zeroAt m.data (rowRanges m.indptr D) } i j)
      = if i ∈ D then 0 else CSR.entry m i j :=
  zero_rows_dense m D hmono i j hi hD

/-- **condense and enforce agree**: the expanded solution of the condensed system solves the
    system produced by `enforce` (default `diag = 1`), for every matrix, data and index split -/
theorem C05_condense_solves_enforced (n : Nat) (A : Nat → Nat → K) (b x : Nat → K) (I D : List Nat)
    (hI : I.Nodup) (hD : D.Nodup) (hdisj : ∀ i, i ∈ I → i ∉ D)
    (hcover : ∀ i, i < n ↔ (i ∈ I ∨ i ∈ D))
    (sol : List K) (hlen : sol.length = I.length)
    (hsol : ∀ p (hp : p < I.length),
      condensedRowApply A I sol (I[p]) = (condenseRhs A b x I D)[p]'(by simp [condenseRhs]; exact hp)) :
    ∀ i < n, matVec n (enforceMat A D 1) (expandSol x I sol) i = enforceRhs b x D i := by
  obtain ⟨h1, h2⟩ := C05_condense_expand n A b x I D hI hD hdisj hcover sol hlen hsol
  refine (C05_enforce_same_solution n A b x _ D 1 (fun d hd => (hcover d).mpr (Or.inr hd))).mpr ⟨?_, ?_⟩
  · intro d hd; rw [one_mul]; exact h1 d hd
  · intro i hin hi
    rcases (hcover i).mp hin with h | h
    · exact h2 i h
    · exact absurd h hi

/-- `enforce` is idempotent (same `D`, same `diag`): enforcing an enforced system changes nothing -/
theorem C05_enforce_idempotent (A : Nat → Nat → K) (b x : Nat → K) (D : List Nat) (diag : K) :
    enforceMat (enforceMat A D diag) D diag = enforceMat A D diag
    ∧ enforceRhs (enforceRhs b x D) x D = enforceRhs b x D := by
  constructor
  · funext i j; unfold enforceMat; split <;> rfl
  · funext i; unfold enforceRhs; split <;> rfl

/-- a matrix right-hand side (mass matrix of an eigenproblem) is enforced with `diag = 0`: its
    constrained rows vanish entirely, so no finite eigenvalue is contributed by `D` -/
theorem C05_enforce_mass_rows_zero (M : Nat → Nat → K) (D : List Nat) (i j : Nat) (hi : i ∈ D) :
    enforceMat M D 0 i j = 0 := by
  simp [enforceMat, hi]

/-- the enforced matrix and right-hand side depend on `D` only as a set (order and repetitions of
    the index list are irrelevant) -/
theorem C05_enforce_set_only (A : Nat → Nat → K) (b x : Nat → K) (D D' : List Nat) (diag : K)
    (h : ∀ i, i ∈ D ↔ i ∈ D') :
    enforceMat A D diag = enforceMat A D' diag ∧ enforceRhs b x D = enforceRhs b x D' := by
  have hc : ∀ i, D.contains i = D'.contains i := by
    intro i
    by_cases hi : i ∈ D
    · rw [contains_eq_true_iff.mpr hi, contains_eq_true_iff.mpr ((h i).mp hi)]
    · have h1 : D.contains i = false := by simpa using hi
      have h2 : D'.contains i = false := by simpa using (fun h' => hi ((h i).mpr h'))
      rw [h1, h2]
  constructor
  · funext i j; simp only [enforceMat, hc]
  · funext i; simp only [enforceRhs, hc]

/-- `penalize` likewise depends on `D` only as a set -/
theorem C05_penalize_set_only (A : Nat → Nat → K) (b x : Nat → K) (D D' : List Nat) (epsInv : K)
    (h : ∀ i, i ∈ D ↔ i ∈ D') :
    penalizeMat A D epsInv = penalizeMat A D' epsInv ∧ penalizeRhs b x D epsInv = penalizeRhs b x D' epsInv := by
  have hc : ∀ i, D.contains i = D'.contains i := by
    intro i
    by_cases hi : i ∈ D
    · rw [contains_eq_true_iff.mpr hi, contains_eq_true_iff.mpr ((h i).mp hi)]
    · have h1 : D.contains i = false := by simpa using hi
      have h2 : D'.contains i = false := by simpa using (fun h' => hi ((h i).mpr h'))
      rw [h1, h2]
  constructor
  · funext i j; simp only [penalizeMat, hc]
  · funext i; simp only [penalizeRhs, hc]

/-- with nothing constrained, all three routes leave the system as it is -/
theorem C05_empty_D (A : Nat → Nat → K) (b x : Nat → K) (diag epsInv : K) :
    enforceMat A [] diag = A ∧ enforceRhs b x [] = b
    ∧ penalizeMat A [] epsInv = A ∧ penalizeRhs b x [] epsInv = b := by
  refine ⟨?_, ?_, ?_, ?_⟩
  · funext i j; simp [enforceMat]
  · funext i; simp [enforceRhs]
  · funext i j; simp [penalizeMat]
  · funext i; simp [penalizeRhs]

end Ring2

/-- non-vacuity of `C05_zero_rows_dense`: the `indptr` of the examples is non-decreasing on its
    index range (asking it for ALL `i` would be satisfiable only by the zero `indptr`, since `getD`
    returns 0 past the end) -/
example : ∀ i, i + 1 < [0, 2, 2, 5, 7].length →
    [0, 2, 2, 5, 7].getD i 0 ≤ [0, 2, 2, 5, 7].getD (i + 1) 0 := by
  intro i hi
  have : i < 4 := by simp only [List.length_cons, List.length_nil] at hi; omega
  match i, this with
  | 0, _ | 1, _ | 2, _ | 3, _ => decide
example : ¬ ∀ i, [0, 2, 2, 5, 7].getD i 0 ≤ [0, 2, 2, 5, 7].getD (i + 1) 0 :=
  fun h => absurd (h 4) (by decide)

/-- non-vacuity: 4×4 system with an empty row, D given with a repetition -/
example : initBC 4 none (some [2, 0, 2]) = some ([1, 3], [0, 2]) := by decide
example : rowZeroIdx [0, 2, 2, 5, 7] [3, 0, 1] = [5, 6, 0, 1] := by decide

end Skv.C05
