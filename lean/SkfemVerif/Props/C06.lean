import SkfemVerif.Model.Assembly
import SkfemVerif.Model.BC
import SkfemVerif.Props.C01
import SkfemVerif.Props.C05
import SkfemVerif.Lemmas.Galerkin
import Mathlib.Algebra.BigOperators.Group.Finset.Basic
import Mathlib.Algebra.BigOperators.Ring.Finset
import Mathlib.Tactic.Ring
/-
C06  Galerkin exactness end to end (patch test and projection identity).

Composition of C01 (what assembly computes) and C05 (condense / expand).  `K` is any field-like
commutative ring; "nonsingular" enters as an explicit injectivity hypothesis on the system that is
solved (the solver contract is: it returns SOME solution of the system it is given).

* `C06_projection_identity` is unconditional: the load vector assembled from the interpolated
  function `interp x*` IS `M x*`, for every basis, quadrature and mesh (curved ones included).
* `C06_patch` carries the hypothesis `hGalerkin` explicitly (the discrete equations hold for `x*` on
  the kept rows).  Deriving it from the strong form (Green's identity on polytopes) is analysis that
  is not formalised here — this is the `partial` part of C06.
-/
namespace Skv.C06
open Skv

variable {K : Type} [CommRing K]

/-- the mass integrand on sample component lists: `Σ_{c < ncomp} u_c v_c` -/
def massForm (ncomp : Nat) : Sample K → Sample K → Sample K → K :=
  fun u v _ => ∑ c ∈ Finset.range ncomp, u c * v c

/-- the load integrand `Σ_{c < ncomp} g_c v_c` where the function to be projected arrives through the
    parameters `w` -/
def loadForm (ncomp : Nat) : Sample K → Sample K → K :=
  fun v w => ∑ c ∈ Finset.range ncomp, w c * v c

theorem C06_massForm_bilinear (ncomp : Nat) : C01.IsBilinear (massForm (K := K) ncomp) := by
  constructor
  · intro a a' b w
    simp only [massForm, Pi.add_apply, add_mul, Finset.sum_add_distrib]
  · intro c a b w
    simp only [massForm, Pi.smul_apply, smul_eq_mul, mul_assoc, Finset.mul_sum]
  · intro b w
    simp only [massForm, Pi.zero_apply, zero_mul, Finset.sum_const_zero]
  · intro a b b' w
    simp only [massForm, Pi.add_apply, mul_add, Finset.sum_add_distrib]
  · intro c a b w
    simp only [massForm, Pi.smul_apply, smul_eq_mul, mul_left_comm, Finset.mul_sum]
  · intro a w
    simp only [massForm, Pi.zero_apply, mul_zero, Finset.sum_const_zero]

theorem C06_loadForm_linear (ncomp : Nat) : C01.IsLinear (loadForm (K := K) ncomp) := by
  constructor
  · intro b b' w
    simp only [loadForm, Pi.add_apply, mul_add, Finset.sum_add_distrib]
  · intro c b w
    simp only [loadForm, Pi.smul_apply, smul_eq_mul, mul_left_comm, Finset.mul_sum]
  · intro w
    simp only [loadForm, Pi.zero_apply, mul_zero, Finset.sum_const_zero]

/-- **projection identity** (tested against any `v`): if the function to be projected is the
    interpolation of a coefficient vector `xs` (same basis, same quadrature), then
    `vᵀ b = vᵀ M xs` for EVERY test vector `v` — the load vector equals `M xs` identically -/
theorem C06_projection_identity (Nb nt nq ncomp : Nat) (b : BasisData K) (w0 : Nat → Nat → Sample K)
    (dx : Nat → Nat → K) (dofs : Nat → Nat → Nat) (xs v : Nat → K) :
    actionLin (linearPairs Nb nt nq (loadForm ncomp) b (fun k q => interp Nb xs dofs b k q) dx dofs) v
      = actionBil (bilinearTriplets Nb Nb nt nq (massForm ncomp) b b w0 dx dofs dofs) xs v := by
  rw [C01.C01_linear_represents Nb nt nq (loadForm ncomp) (C06_loadForm_linear ncomp),
    C01.C01_bilinear_represents Nb Nb nt nq (massForm ncomp) (C06_massForm_bilinear ncomp)]
  rfl

/-- entrywise version: `b_r = Σ_c M_rc xs_c` when all DOF numbers are `< N` -/
theorem C06_projection_identity_entry (Nb nt nq ncomp N : Nat) (b : BasisData K)
    (w0 : Nat → Nat → Sample K) (dx : Nat → Nat → K) (dofs : Nat → Nat → Nat)
    (hdofs : ∀ j < Nb, ∀ k < nt, dofs j k < N) (xs : Nat → K) (r : Nat) (hr : r < N) :
    denseVecEntry (linearPairs Nb nt nq (loadForm ncomp) b (fun k q => interp Nb xs dofs b k q) dx dofs) r
      = ∑ c ∈ Finset.range N,
          denseEntry (bilinearTriplets Nb Nb nt nq (massForm ncomp) b b w0 dx dofs dofs) r c * xs c := by
  have h := C06_projection_identity Nb nt nq ncomp b w0 dx dofs xs
    (fun i => if i = r then (1 : K) else 0)
  rw [actionLin_indicator,
    C01.C01_coo_dense _ N N (mem_bilinearTriplets_lt Nb Nb nt nq N N (massForm ncomp) b b w0 dx
      dofs dofs hdofs hdofs),
    dense_indicator_row N N _ xs r hr] at h
  exact h

/-- hence the projection returns `xs` whenever the mass matrix is injective (nonsingular):
    any `z` with `M z = b` equals `xs` -/
theorem C06_projection_returns (N : Nat) (M : Nat → Nat → K) (bvec xs z : Nat → K)
    (hb : ∀ r < N, bvec r = matVec N M xs r)
    (hinj : ∀ y y' : Nat → K, (∀ r < N, matVec N M y r = matVec N M y' r) → ∀ r < N, y r = y' r)
    (hz : ∀ r < N, matVec N M z r = bvec r) : ∀ r < N, z r = xs r := by
  refine hinj z xs (fun r hr => ?_)
  rw [hz r hr, hb r hr]

/-- **patch test** (modulo `hGalerkin`): let `xs` be the coefficient vector of the exact solution in
    the space.  If the discrete equations hold for `xs` on the kept rows (`hGalerkin`), the prescribed
    vector `x` agrees with `xs` on the constrained DOFs, and the condensed system has at most one
    solution, then `solve(*condense(A, b, x, D=D))` IS `xs`: whatever solution `sol` of the
    condensed system the solver returns, its expansion equals `xs` on all of `0 … n-1`. -/
theorem C06_patch (n : Nat) (A : Nat → Nat → K) (b x xs : Nat → K) (I D : List Nat)
    (hI : I.Nodup) (hD : D.Nodup) (hdisj : ∀ i, i ∈ I → i ∉ D)
    (hcover : ∀ i, i < n ↔ (i ∈ I ∨ i ∈ D))
    (hx : ∀ d ∈ D, x d = xs d)
    (hGalerkin : ∀ i ∈ I, matVec n A xs i = b i)
    (hinj : ∀ s s' : List K, s.length = I.length → s'.length = I.length →
      (∀ i ∈ I, condensedRowApply A I s i = condensedRowApply A I s' i) → s = s')
    (sol : List K) (hlen : sol.length = I.length)
    (hsol : ∀ p (hp : p < I.length),
      condensedRowApply A I sol (I[p]) = (condenseRhs A b x I D)[p]'(by simp [condenseRhs]; exact hp)) :
    ∀ i < n, expandSol x I sol i = xs i := by
  have hrestr : sol = I.map xs := by
    refine hinj sol (I.map xs) hlen (List.length_map _) (fun i hi => ?_)
    obtain ⟨p, hp, rfl⟩ := List.getElem_of_mem hi
    rw [hsol p hp,
      restrict_solves_condensed n A b x xs I D hI hD hdisj hcover hx (I[p]) (hGalerkin _ hi)]
    simp only [condenseRhs, List.getElem_map]
  intro i hin
  rcases (hcover i).1 hin with hi | hi
  · obtain ⟨p, hp, rfl⟩ := List.getElem_of_mem hi
    rw [C05.C05_expand_on x I sol hI hlen p hp]
    simp only [hrestr, List.getElem_map]
  · rw [C05.C05_expand_off x I sol i (fun h => hdisj i h hi)]
    exact hx i hi

/-- the boundary data: projecting onto the trace space and copying the values on the DOFs returned
    by the DOF query gives a prescribed vector that agrees with `xs` there (instance of the
    projection identity on the facet basis): if the facet projection `y` equals `xs` on `Dq` and the
    prescribed vector copies `y` on `Dq`, the hypothesis `hx` of `C06_patch` holds -/
theorem C06_boundary_data (x y xs : Nat → K) (Dq : List Nat)
    (hy : ∀ d ∈ Dq, y d = xs d) (hcopy : ∀ d ∈ Dq, x d = y d) : ∀ d ∈ Dq, x d = xs d := by
  intro d hd
  rw [hcopy d hd, hy d hd]

end Skv.C06
