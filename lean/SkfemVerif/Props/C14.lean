import SkfemVerif.Model.Finder
import SkfemVerif.Model.Assembly
import SkfemVerif.Lemmas.Assembly
import SkfemVerif.Lemmas.Finder
import Mathlib.Algebra.BigOperators.Group.Finset.Basic
import Mathlib.Algebra.BigOperators.Ring.Finset
import Mathlib.Algebra.Order.Field.Rat
import Mathlib.Tactic.Ring
import Mathlib.Tactic.FieldSimp
import Mathlib.Tactic.Linarith
import Mathlib.Tactic.NormNum
/-
C14  Point location and point evaluation of discrete functions are exact.

Model: Model/Finder.lean.  Tie: correspondence ops `finder.decide` (the implementation's own
candidate lists and inside matrices fed to the decision logic), `finder.bary` (reference
coordinates / inside flags on dyadic simplices), `finder.line`, `finder.split`,
`probes.assemble` (the model's COO triplets against the implementation's sparse matrix).

Quantification: any number `nt` of cells, ANY candidate list (the KD-tree query is abstracted
away: the theorems hold whatever it returns, duplicates and bad orderings included), any
predicate `inside`, any list of query points (any number, order, repetition); simplices with
arbitrary rational vertices and any slack `eps`; 1-D meshes with arbitrary rational vertex
coordinates, numbering and cell orientation; bases with any number of local functions, any
number `comp` of tensor components, any DOF table, any coefficient vector.

End-to-end statements in exact arithmetic: `C14_tri_mesh_finder` (triangular meshes) and
`C14_quad_mesh_finder` (strictly convex quadrilaterals through `to_meshtri` and `% nt`), the 1-D
finder `C14_line_finder_sound` / `C14_line_finder_raises_iff`, and `C14_probes_bookkeeping` for
the evaluation.

NOT proved here (checked by the search on the implementation only): the KD-tree (abstracted, not
needed), the Newton iteration of `MappingIsoparametric.invF`, floating-point effects within the
slack, and that the six / three tetrahedra of `to_meshtet` tile a planar-faced hexahedron / prism
(the 2-D analogue for convex quadrilaterals IS proved: `C14_quad_split_tiles`).
-/
namespace Skv.C14
open Skv Skv.Find

/-! ### (a) the two-stage search -/

section Decision
variable {P : Type}

/-- **soundness**: whatever the candidates are, an answer has one cell per query point and
    every returned cell passes the inside test for its point -/
theorem C14_finder_sound (inside : Nat → P → Bool) (nt : Nat) (cand : List Nat) (pts : List P)
    (r : List Nat) (h : finder inside nt cand pts = some r) :
    r.length = pts.length ∧
      ∀ i (hi : i < pts.length) (hr : i < r.length), inside r[i] pts[i] = true := by
  have key : ∀ ix, finderStage inside ix pts = some r →
      r.length = pts.length ∧
        ∀ i (hi : i < pts.length) (hr : i < r.length), inside r[i] pts[i] = true := by
    intro ix hs
    obtain ⟨hall, rfl⟩ := (finderStage_eq_some _ _ _ _).1 hs
    refine ⟨by simp, fun i hi hr => ?_⟩
    simp only [List.getElem_map]
    exact (firstInside_spec inside ix pts[i] (hall _ (List.getElem_mem hi))).2
  rcases finder_cases inside nt cand pts with ⟨_, h1⟩ | ⟨_, h2⟩
  · rw [h1] at h
    exact key cand (by
      rw [← h1, ← h] at *
      rcases (finderStage_eq_some inside cand pts (pts.map (firstInside inside cand))).2
        ⟨by assumption, rfl⟩ with h3
      simpa using h3)
  · rw [h2] at h
    exact key _ h

/-- the returned cells are cell numbers when the candidates are -/
theorem C14_finder_range (inside : Nat → P → Bool) (nt : Nat) (cand : List Nat) (pts : List P)
    (hc : ∀ k ∈ cand, k < nt) (r : List Nat) (h : finder inside nt cand pts = some r) :
    ∀ k ∈ r, k < nt := by
  have key : ∀ ix, (∀ k ∈ ix, k < nt) → finderStage inside ix pts = some r → ∀ k ∈ r, k < nt := by
    intro ix hix hs
    obtain ⟨hall, rfl⟩ := (finderStage_eq_some _ _ _ _).1 hs
    intro k hk
    simp only [List.mem_map] at hk
    obtain ⟨x, hx, rfl⟩ := hk
    exact hix _ (firstInside_spec inside ix x (hall x hx)).1
  rcases finder_cases inside nt cand pts with ⟨hall, h1⟩ | ⟨_, h2⟩
  · exact key cand hc ((finderStage_eq_some _ _ _ _).2 ⟨hall, by rw [h1] at h; simpa using h.symm⟩)
  · rw [h2] at h
    exact key _ (fun k hk => by simpa using hk) h

/-- **raises iff outside**: the finder raises exactly when some query point passes the inside
    test of NO cell of the mesh — in particular it never raises because the candidate list
    missed the right cell, and it never returns a cell for a point outside every cell -/
theorem C14_finder_raises_iff (inside : Nat → P → Bool) (nt : Nat) (cand : List Nat)
    (pts : List P) (hc : ∀ k ∈ cand, k < nt) :
    finder inside nt cand pts = none ↔ ∃ x ∈ pts, ∀ k, k < nt → inside k x = false := by
  constructor
  · intro h
    rcases finder_cases inside nt cand pts with ⟨_, h1⟩ | ⟨_, h2⟩
    · rw [h1] at h; cases h
    · rw [h2] at h
      obtain ⟨x, hx, hno⟩ := (finderStage_eq_none _ _ _).1 h
      exact ⟨x, hx, fun k hk => hno k (by simpa using hk)⟩
  · rintro ⟨x, hx, hno⟩
    rcases finder_cases inside nt cand pts with ⟨hall, _⟩ | ⟨_, h2⟩
    · obtain ⟨k, hk, hin⟩ := hall x hx
      rw [hno k (hc k hk)] at hin
      cases hin
    · rw [h2]
      exact (finderStage_eq_none _ _ _).2 ⟨x, hx, fun k hk => hno k (by simpa using hk)⟩

/-- **completeness**: if every query point lies in some cell, the finder answers -/
theorem C14_finder_complete (inside : Nat → P → Bool) (nt : Nat) (cand : List Nat)
    (pts : List P) (hc : ∀ k ∈ cand, k < nt)
    (hall : ∀ x ∈ pts, ∃ k, k < nt ∧ inside k x = true) :
    ∃ r, finder inside nt cand pts = some r := by
  cases h : finder inside nt cand pts with
  | some r => exact ⟨r, rfl⟩
  | none =>
    obtain ⟨x, hx, hno⟩ := (C14_finder_raises_iff inside nt cand pts hc).1 h
    obtain ⟨k, hk, hin⟩ := hall x hx
    rw [hno k hk] at hin
    cases hin

/-- **any number, order and repetition of query points**: two query lists with the same SET of
    points (one may repeat, reorder, or drop repetitions of the other) are answered
    consistently — both raise or none does, and equal points get equal cells -/
theorem C14_finder_order_repetition (inside : Nat → P → Bool) (nt : Nat) (cand : List Nat)
    (pts pts' : List P) (hset : ∀ x, x ∈ pts' ↔ x ∈ pts) :
    (finder inside nt cand pts = none ↔ finder inside nt cand pts' = none) ∧
    ∀ r r', finder inside nt cand pts = some r → finder inside nt cand pts' = some r' →
      ∀ i j (hi : i < pts.length) (hj : j < pts'.length) (hri : i < r.length)
        (hrj : j < r'.length), pts[i] = pts'[j] → r[i] = r'[j] := by
  -- both runs use the same candidate list
  have hstage : ∀ ix, (finderStage inside ix pts = none ↔ finderStage inside ix pts' = none) := by
    intro ix
    rw [finderStage_eq_none, finderStage_eq_none]
    constructor
    · rintro ⟨x, hx, h⟩; exact ⟨x, (hset x).2 hx, h⟩
    · rintro ⟨x, hx, h⟩; exact ⟨x, (hset x).1 hx, h⟩
  have hsome : ∀ ix r r', finderStage inside ix pts = some r → finderStage inside ix pts' = some r' →
      ∀ i j (hi : i < pts.length) (hj : j < pts'.length) (hri : i < r.length)
        (hrj : j < r'.length), pts[i] = pts'[j] → r[i] = r'[j] := by
    intro ix r r' h1 h2 i j hi hj hri hrj hij
    obtain ⟨_, rfl⟩ := (finderStage_eq_some _ _ _ _).1 h1
    obtain ⟨_, rfl⟩ := (finderStage_eq_some _ _ _ _).1 h2
    simp only [List.getElem_map, hij]
  unfold finder finder2
  cases h1 : finderStage inside cand pts with
  | some r1 =>
    cases h1' : finderStage inside cand pts' with
    | some r1' =>
      refine ⟨by simp, ?_⟩
      intro r r' hr hr'
      simp only [Option.some.injEq] at hr hr'
      subst hr hr'
      exact hsome cand _ _ h1 h1'
    | none =>
      rw [← hstage cand] at h1'
      rw [h1] at h1'
      cases h1'
  | none =>
    have h1' := (hstage cand).1 h1
    rw [h1']
    exact ⟨hstage _, fun r r' hr hr' => hsome _ r r' hr hr'⟩

/-- the finder as it runs in floating point, where the inside matrix of the first pass
    (`inside1`, candidates only) and of the second pass (`inside2`, all cells) come from two
    evaluations of `invF`: every returned cell passed one of the two tests for its point, and a
    raise means that some point passed the second test for no cell at all -/
theorem C14_finder2_sound (inside1 inside2 : Nat → P → Bool) (nt : Nat) (cand : List Nat)
    (pts : List P) :
    (∀ r, finder2 inside1 inside2 nt cand pts = some r →
      r.length = pts.length ∧ ∀ i (hi : i < pts.length) (hr : i < r.length),
        inside1 r[i] pts[i] = true ∨ inside2 r[i] pts[i] = true) ∧
    (finder2 inside1 inside2 nt cand pts = none →
      ∃ x ∈ pts, ∀ k, k < nt → inside2 k x = false) := by
  unfold finder2
  cases h1 : finderStage inside1 cand pts with
  | some r1 =>
    refine ⟨fun r hr => ?_, fun h => by cases h⟩
    simp only [Option.some.injEq] at hr
    subst hr
    obtain ⟨hall, rfl⟩ := (finderStage_eq_some _ _ _ _).1 h1
    refine ⟨by simp, fun i hi hr => Or.inl ?_⟩
    simp only [List.getElem_map]
    exact (firstInside_spec inside1 cand pts[i] (hall _ (List.getElem_mem hi))).2
  | none =>
    refine ⟨fun r hr => ?_, fun h => ?_⟩
    · obtain ⟨hall, rfl⟩ := (finderStage_eq_some _ _ _ _).1 hr
      refine ⟨by simp, fun i hi hr => Or.inr ?_⟩
      simp only [List.getElem_map]
      exact (firstInside_spec inside2 _ pts[i] (hall _ (List.getElem_mem hi))).2
    · obtain ⟨x, hx, hno⟩ := (finderStage_eq_none _ _ _).1 h
      exact ⟨x, hx, fun k hk => hno k (by simpa using hk)⟩

/-- **quadrilaterals, hexahedra, prisms**: the answer `j % nt` of the split finder is a cell
    number, and one of the `nb` sub-simplices stacked at `b * nt + (j % nt)` — the sub-simplices
    of THAT cell, see `C14_split_modulo` — contains the point -/
theorem C14_finder_split_sound (insideSub : Nat → P → Bool) (nb nt : Nat) (cand : List Nat)
    (pts : List P) (hnt : 0 < nt) (hc : ∀ j ∈ cand, j < nb * nt) (r : List Nat)
    (h : finderSplit insideSub nb nt cand pts = some r) :
    r.length = pts.length ∧
      ∀ i (hi : i < pts.length) (hr : i < r.length),
        r[i] < nt ∧ ∃ b, b < nb ∧ insideSub (b * nt + r[i]) pts[i] = true := by
  unfold finderSplit at h
  cases hf : finder insideSub (nb * nt) cand pts with
  | none => rw [hf] at h; cases h
  | some s =>
    rw [hf] at h
    simp only [Option.map_some, Option.some.injEq] at h
    subst h
    obtain ⟨hlen, hin⟩ := C14_finder_sound insideSub (nb * nt) cand pts s hf
    have hrange := C14_finder_range insideSub (nb * nt) cand pts hc s hf
    refine ⟨by simpa using hlen, fun i hi hr => ?_⟩
    have hr' : i < s.length := by simpa using hr
    simp only [List.getElem_map]
    refine ⟨Nat.mod_lt _ hnt, s[i] / nt, ?_, ?_⟩
    · have := hrange s[i] (List.getElem_mem hr')
      exact Nat.div_lt_of_lt_mul (by rwa [Nat.mul_comm] at this)
    · have e : s[i] / nt * nt + s[i] % nt = s[i] := by
        rw [Nat.mul_comm]; exact Nat.div_add_mod _ _
      rw [e]
      exact hin i hi hr'

/-- the split finder raises iff some point lies in no sub-simplex of any cell -/
theorem C14_finder_split_raises_iff (insideSub : Nat → P → Bool) (nb nt : Nat) (cand : List Nat)
    (pts : List P) (hc : ∀ j ∈ cand, j < nb * nt) :
    finderSplit insideSub nb nt cand pts = none ↔
      ∃ x ∈ pts, ∀ b k, b < nb → k < nt → insideSub (b * nt + k) x = false := by
  unfold finderSplit
  rw [Option.map_eq_none_iff, C14_finder_raises_iff insideSub (nb * nt) cand pts hc]
  constructor
  · rintro ⟨x, hx, hno⟩
    refine ⟨x, hx, fun b k hb hk => hno _ ?_⟩
    calc b * nt + k < b * nt + nt := by omega
      _ = (b + 1) * nt := by rw [Nat.add_mul, Nat.one_mul]
      _ ≤ nb * nt := Nat.mul_le_mul_right nt hb
  · rintro ⟨x, hx, hno⟩
    refine ⟨x, hx, fun j hj => ?_⟩
    rcases Nat.eq_zero_or_pos nt with h0 | hnt
    · subst h0; simp at hj
    · have e : j / nt * nt + j % nt = j := by rw [Nat.mul_comm]; exact Nat.div_add_mod _ _
      rw [← e]
      exact hno _ _ (Nat.div_lt_of_lt_mul (by rwa [Nat.mul_comm] at hj)) (Nat.mod_lt _ hnt)

/-- non-vacuity: a candidate list that misses the right cell, points in any order with a
    repetition; the fallback finds the cells, and a point outside makes it raise -/
example :
    finder (fun k (x : Nat) => k == x) 3 [2, 2, 0] [1, 0, 1, 2] = some [1, 0, 1, 2]
    ∧ finder (fun k (x : Nat) => k == x) 3 [2, 0] [0, 2, 2] = some [0, 2, 2]
    ∧ finder (fun k (x : Nat) => k == x) 3 [2, 0] [0, 7] = none
    ∧ finderSplit (fun j (x : Nat) => j == x) 2 3 [4] [4, 1, 5] = some [1, 1, 2] := by
  decide

end Decision

/-! ### (b) the inside test of the simplex finders -/

section Inside

/-- `x` is a combination of the vertices with weights summing to one, all `≥ -eps`
    (`eps = 0`: the closed segment) -/
def InHull1 (eps v0 v1 x : Rat) : Prop :=
  ∃ l0 l1 : Rat, -eps ≤ l0 ∧ -eps ≤ l1 ∧ l0 + l1 = 1 ∧ x = l0 * v0 + l1 * v1

/-- the triangle inflated by the slack: barycentric coordinates `≥ -eps` (`eps = 0`: the closed
    triangle, i.e. the convex hull of the vertices) -/
def InHull2 (eps : Rat) (v0 v1 v2 x : P2) : Prop :=
  ∃ l0 l1 l2 : Rat, -eps ≤ l0 ∧ -eps ≤ l1 ∧ -eps ≤ l2 ∧ l0 + l1 + l2 = 1 ∧
    x.1 = l0 * v0.1 + l1 * v1.1 + l2 * v2.1 ∧ x.2 = l0 * v0.2 + l1 * v1.2 + l2 * v2.2

def InHull3 (eps : Rat) (v0 v1 v2 v3 x : P3) : Prop :=
  ∃ l0 l1 l2 l3 : Rat, -eps ≤ l0 ∧ -eps ≤ l1 ∧ -eps ≤ l2 ∧ -eps ≤ l3 ∧ l0 + l1 + l2 + l3 = 1 ∧
    x.x = l0 * v0.x + l1 * v1.x + l2 * v2.x + l3 * v3.x ∧
    x.y = l0 * v0.y + l1 * v1.y + l2 * v2.y + l3 * v3.y ∧
    x.z = l0 * v0.z + l1 * v1.z + l2 * v2.z + l3 * v3.z

/-- 1-D: the test `X ≥ -eps ∧ 1 - X ≥ -eps` on `X = invF(x)` is membership in the inflated cell -/
theorem C14_inside_line_spec (eps v0 v1 x : Rat) (h : v0 ≠ v1) :
    insideLine eps v0 v1 x = true ↔ InHull1 eps v0 v1 x := by
  have hd : v1 - v0 ≠ 0 := sub_ne_zero.2 (Ne.symm h)
  unfold insideLine InHull1
  simp only [Bool.and_eq_true, decide_eq_true_eq]
  constructor
  · rintro ⟨h1, h2⟩
    refine ⟨1 - invF1 v0 v1 x, invF1 v0 v1 x, h2, h1, by ring, ?_⟩
    have := invF1_spec v0 v1 x hd
    linarith
  · rintro ⟨l0, l1, h0, h1, hs, rfl⟩
    rw [invF1_of_bary v0 v1 l0 l1 hd hs]
    exact ⟨h1, by linarith⟩

/-- **triangles**: for every non-degenerate triangle (either orientation, any vertex order) and
    every slack, the finder's test on the reference coordinates computed by
    `MappingAffine.invF` holds iff all barycentric coordinates of `x` are `≥ -eps` -/
theorem C14_inside_tri_spec (eps : Rat) (v0 v1 v2 x : P2) (h : det2 v0 v1 v2 ≠ 0) :
    insideTri eps v0 v1 v2 x = true ↔ InHull2 eps v0 v1 v2 x := by
  unfold insideTri InHull2
  simp only [Bool.and_eq_true, decide_eq_true_eq]
  constructor
  · rintro ⟨⟨h1, h2⟩, h3⟩
    obtain ⟨e1, e2⟩ := invF2_spec v0 v1 v2 x h
    refine ⟨1 - (invF2 v0 v1 v2 x).1 - (invF2 v0 v1 v2 x).2, (invF2 v0 v1 v2 x).1,
      (invF2 v0 v1 v2 x).2, h3, h1, h2, by ring, ?_, ?_⟩
    · linarith
    · linarith
  · rintro ⟨l0, l1, l2, h0, h1, h2, hs, e1, e2⟩
    have hx : x = (l0 * v0.1 + l1 * v1.1 + l2 * v2.1, l0 * v0.2 + l1 * v1.2 + l2 * v2.2) :=
      Prod.ext e1 e2
    rw [hx, invF2_of_bary v0 v1 v2 l0 l1 l2 h hs]
    exact ⟨⟨h1, h2⟩, by show -eps ≤ 1 - l1 - l2; linarith⟩

/-- **tetrahedra** -/
theorem C14_inside_tet_spec (eps : Rat) (v0 v1 v2 v3 x : P3) (h : det3 v0 v1 v2 v3 ≠ 0) :
    insideTet eps v0 v1 v2 v3 x = true ↔ InHull3 eps v0 v1 v2 v3 x := by
  unfold insideTet InHull3
  simp only [Bool.and_eq_true, decide_eq_true_eq]
  constructor
  · rintro ⟨⟨⟨h1, h2⟩, h3⟩, h4⟩
    obtain ⟨e1, e2, e3⟩ := invF3_spec v0 v1 v2 v3 x h
    refine ⟨1 - (invF3 v0 v1 v2 v3 x).1 - (invF3 v0 v1 v2 v3 x).2.1 - (invF3 v0 v1 v2 v3 x).2.2,
      (invF3 v0 v1 v2 v3 x).1, (invF3 v0 v1 v2 v3 x).2.1, (invF3 v0 v1 v2 v3 x).2.2,
      h4, h1, h2, h3, by ring, ?_, ?_, ?_⟩
    · linarith
    · linarith
    · linarith
  · rintro ⟨l0, l1, l2, l3, h0, h1, h2, h3, hs, e1, e2, e3⟩
    have hx : x = ⟨l0 * v0.x + l1 * v1.x + l2 * v2.x + l3 * v3.x,
        l0 * v0.y + l1 * v1.y + l2 * v2.y + l3 * v3.y,
        l0 * v0.z + l1 * v1.z + l2 * v2.z + l3 * v3.z⟩ := by
      cases x
      simp only [P3.mk.injEq]
      exact ⟨e1, e2, e3⟩
    rw [hx, invF3_of_bary v0 v1 v2 v3 l0 l1 l2 l3 h hs]
    exact ⟨⟨⟨h1, h2⟩, h3⟩, by show -eps ≤ 1 - l1 - l2 - l3; linarith⟩

/-- a larger slack only accepts more points: nothing inside is lost to the slack -/
theorem C14_inside_tri_mono (eps eps' : Rat) (v0 v1 v2 x : P2) (h : det2 v0 v1 v2 ≠ 0)
    (he : eps ≤ eps') (hin : insideTri eps v0 v1 v2 x = true) :
    insideTri eps' v0 v1 v2 x = true := by
  rw [C14_inside_tri_spec _ _ _ _ _ h] at hin ⊢
  obtain ⟨l0, l1, l2, h0, h1, h2, rest⟩ := hin
  exact ⟨l0, l1, l2, by linarith, by linarith, by linarith, rest⟩

/-- non-vacuity: a clockwise triangle, a vertex, an edge point, an interior point and a point
    outside by less / more than the slack -/
example :
    insideTri 0 (0, 0) (0, 2) (2, 0) (0, 2) = true ∧ insideTri 0 (0, 0) (0, 2) (2, 0) (1, 1) = true
    ∧ insideTri 0 (0, 0) (0, 2) (2, 0) (1/2, 1/2) = true
    ∧ insideTri (1/100) (0, 0) (0, 2) (2, 0) (-1/100, 1) = true
    ∧ insideTri (1/100) (0, 0) (0, 2) (2, 0) (-1/10, 1) = false
    ∧ insideTet 0 ⟨0, 0, 0⟩ ⟨1, 0, 0⟩ ⟨0, 1, 0⟩ ⟨0, 0, 1⟩ ⟨1/4, 1/4, 1/2⟩ = true
    ∧ insideTet 0 ⟨0, 0, 0⟩ ⟨1, 0, 0⟩ ⟨0, 1, 0⟩ ⟨0, 0, 1⟩ ⟨1/2, 1/2, 1/2⟩ = false := by
  decide +kernel

/-! #### the two triangles of `to_meshtri` tile a convex quadrilateral -/

/-- the closed convex quadrilateral with vertices in cyclic order and orientation sign `s`
    (`1`: counter-clockwise, `-1`: clockwise): the intersection of the four edge half-planes -/
def InQuad (s : Rat) (p0 p1 p2 p3 x : P2) : Prop :=
  0 ≤ s * orient p0 p1 x ∧ 0 ≤ s * orient p1 p2 x ∧ 0 ≤ s * orient p2 p3 x ∧ 0 ≤ s * orient p3 p0 x

/-- strict convexity: every vertex is strictly on the inner side of the two edges it is not on -/
def ConvexQuad (s : Rat) (p0 p1 p2 p3 : P2) : Prop :=
  0 < s * orient p0 p1 p2 ∧ 0 < s * orient p1 p2 p3 ∧ 0 < s * orient p2 p3 p0 ∧ 0 < s * orient p3 p0 p1

/-- a point of a triangle whose vertices lie on the inner side of a line lies there too -/
theorem C14_halfplane_of_hull (s : Rat) (p q a b c x : P2) (hx : InHull2 0 a b c x)
    (ha : 0 ≤ s * orient p q a) (hb : 0 ≤ s * orient p q b) (hc : 0 ≤ s * orient p q c) :
    0 ≤ s * orient p q x := by
  obtain ⟨l0, l1, l2, h0, h1, h2, hs, e1, e2⟩ := hx
  have hx' : x = (l0 * a.1 + l1 * b.1 + l2 * c.1, l0 * a.2 + l1 * b.2 + l2 * c.2) :=
    Prod.ext e1 e2
  rw [hx', orient_bary p q a b c l0 l1 l2 hs]
  have h0' : 0 ≤ l0 := by linarith
  have h1' : 0 ≤ l1 := by linarith
  have h2' : 0 ≤ l2 := by linarith
  have := mul_nonneg h0' ha
  have := mul_nonneg h1' hb
  have := mul_nonneg h2' hc
  nlinarith

/-- a point on the inner side of the three edges of a triangle of orientation `s` is in it -/
theorem C14_hull_of_halfplanes (s : Rat) (hs : s = 1 ∨ s = -1) (a b c x : P2)
    (hD : 0 < s * orient a b c) (h1 : 0 ≤ s * orient a b x) (h2 : 0 ≤ s * orient b c x)
    (h3 : 0 ≤ s * orient c a x) : InHull2 0 a b c x := by
  have hD0 : orient a b c ≠ 0 := by
    intro h0
    rw [h0] at hD
    simp at hD
  obtain ⟨e0, e1, e2⟩ := bary_of_orient a b c x hD0
  have key : ∀ o : Rat, 0 ≤ s * o → 0 ≤ o / orient a b c := by
    intro o ho
    rcases hs with rfl | rfl
    · exact div_nonneg (by linarith) (by linarith)
    · have h1 : o ≤ 0 := by linarith
      have h2 : orient a b c ≤ 0 := by linarith
      rw [← neg_div_neg_eq]
      exact div_nonneg (by linarith) (by linarith)
  refine ⟨orient b c x / orient a b c, orient c a x / orient a b c, orient a b x / orient a b c,
    ?_, ?_, ?_, e0, e1, e2⟩
  · simpa using key _ h2
  · simpa using key _ h3
  · simpa using key _ h1

/-- **`MeshQuad1.element_finder`**: for every strictly convex quadrilateral (vertices in cyclic
    order, either orientation), a point passes the exact inside test of one of the two triangles
    `(0,1,3)`, `(1,2,3)` produced by `to_meshtri` iff it lies in the closed quadrilateral: the
    split loses no point of the cell and adds none -/
theorem C14_quad_split_tiles (s : Rat) (hs : s = 1 ∨ s = -1) (p0 p1 p2 p3 x : P2)
    (hconv : ConvexQuad s p0 p1 p2 p3) :
    (insideTri 0 p0 p1 p3 x = true ∨ insideTri 0 p1 p2 p3 x = true) ↔ InQuad s p0 p1 p2 p3 x := by
  obtain ⟨c0, c1, c2, c3⟩ := hconv
  -- orientation of the two triangles
  have dA : 0 < s * orient p0 p1 p3 := by rw [orient_cyc p3 p0 p1]; exact c3
  have dB : 0 < s * orient p1 p2 p3 := c1
  have hA : det2 p0 p1 p3 ≠ 0 := by
    rw [det2_eq_orient]; intro h0; rw [h0] at dA; simp at dA
  have hB : det2 p1 p2 p3 ≠ 0 := by
    rw [det2_eq_orient]; intro h0; rw [h0] at dB; simp at dB
  rw [C14_inside_tri_spec 0 _ _ _ _ hA, C14_inside_tri_spec 0 _ _ _ _ hB]
  constructor
  · rintro (hin | hin)
    · -- vertices p0, p1, p3 are on the inner side of every edge
      refine ⟨C14_halfplane_of_hull s p0 p1 p0 p1 p3 x hin ?_ ?_ ?_,
        C14_halfplane_of_hull s p1 p2 p0 p1 p3 x hin ?_ ?_ ?_,
        C14_halfplane_of_hull s p2 p3 p0 p1 p3 x hin ?_ ?_ ?_,
        C14_halfplane_of_hull s p3 p0 p0 p1 p3 x hin ?_ ?_ ?_⟩
      · rw [orient_self_left]; simp
      · rw [orient_self_right]; simp
      · exact le_of_lt dA
      · rw [orient_cyc p0 p1 p2]; exact le_of_lt c0
      · rw [orient_self_left]; simp
      · exact le_of_lt c1
      · exact le_of_lt c2
      · rw [orient_cyc p1 p2 p3]; exact le_of_lt c1
      · rw [orient_self_right]; simp
      · rw [orient_self_right]; simp
      · exact le_of_lt c3
      · rw [orient_self_left]; simp
    · refine ⟨C14_halfplane_of_hull s p0 p1 p1 p2 p3 x hin ?_ ?_ ?_,
        C14_halfplane_of_hull s p1 p2 p1 p2 p3 x hin ?_ ?_ ?_,
        C14_halfplane_of_hull s p2 p3 p1 p2 p3 x hin ?_ ?_ ?_,
        C14_halfplane_of_hull s p3 p0 p1 p2 p3 x hin ?_ ?_ ?_⟩
      · rw [orient_self_right]; simp
      · exact le_of_lt c0
      · exact le_of_lt dA
      · rw [orient_self_left]; simp
      · rw [orient_self_right]; simp
      · exact le_of_lt c1
      · rw [orient_cyc p1 p2 p3]; exact le_of_lt c1
      · rw [orient_self_left]; simp
      · rw [orient_self_right]; simp
      · exact le_of_lt c3
      · rw [orient_cyc p2 p3 p0]; exact le_of_lt c2
      · rw [orient_self_left]; simp
  · rintro ⟨q0, q1, q2, q3⟩
    -- which side of the diagonal p1 → p3 ?
    rcases le_total 0 (s * orient p1 p3 x) with hd | hd
    · left
      exact C14_hull_of_halfplanes s hs p0 p1 p3 x dA q0 hd q3
    · right
      refine C14_hull_of_halfplanes s hs p1 p2 p3 x dB q1 q2 ?_
      have : orient p3 p1 x = -orient p1 p3 x := by unfold orient; ring
      rw [this]
      linarith

/-- non-vacuity: a counter-clockwise and a clockwise strictly convex quadrilateral -/
example : ConvexQuad 1 (0, 0) (2, 0) (3, 2) (0, 1) ∧ ConvexQuad (-1) (0, 0) (0, 1) (3, 2) (2, 0) := by
  unfold ConvexQuad orient
  norm_num

end Inside

/-! ### (c) the 1-D finder -/

section Line

/-- a 1-D mesh: distinct vertex coordinates, cells join two different existing vertices.
    Nothing is assumed about the numbering of the vertices, the order of the cells, the
    orientation of a cell or about gaps between cells. -/
structure ValidLineMesh (p : Nat → Rat) (nv : Nat) (t : List (Nat × Nat)) : Prop where
  inj : ∀ u v, u < nv → v < nv → p u = p v → u = v
  verts : ∀ c ∈ t, c.1 < nv ∧ c.2 < nv
  nondeg : ∀ c ∈ t, c.1 ≠ c.2

/-- no vertex of the mesh lies strictly inside a cell -/
def NoInnerVertex (p : Nat → Rat) (nv : Nat) (t : List (Nat × Nat)) : Prop :=
  ∀ c ∈ t, ∀ u, u < nv → ¬ (p (minVertex p c) < p u ∧ p u < p (maxVertex p c))

/-- `x` lies in the closed cell -/
def InCell (p : Nat → Rat) (c : Nat × Nat) (x : Rat) : Prop :=
  p (minVertex p c) ≤ x ∧ x ≤ p (maxVertex p c)

theorem C14_line_minmax {p : Nat → Rat} {nv : Nat} {t : List (Nat × Nat)} (hv : ValidLineMesh p nv t)
    (c : Nat × Nat) (hc : c ∈ t) :
    minVertex p c < nv ∧ maxVertex p c < nv ∧ p (minVertex p c) < p (maxVertex p c) := by
  obtain ⟨h1, h2⟩ := hv.verts c hc
  have hne : p c.1 ≠ p c.2 := fun h => hv.nondeg c hc (hv.inj _ _ h1 h2 h)
  unfold minVertex maxVertex
  by_cases h : p c.2 ≤ p c.1
  · simp only [h, if_true]
    exact ⟨h2, h1, lt_of_le_of_ne h (Ne.symm hne)⟩
  · simp only [h, if_false]
    exact ⟨h1, h2, not_le.1 h⟩

theorem C14_mem_cellsWithMax (p : Nat → Rat) (t : List (Nat × Nat)) (v : Option Nat) (k : Nat) :
    k ∈ cellsWithMax p t v ↔ ∃ w, v = some w ∧ ∃ hk : k < t.length, maxVertex p t[k] = w := by
  unfold cellsWithMax
  cases v with
  | none => simp
  | some w =>
    simp only [List.mem_filter, List.mem_range, beq_iff_eq, Option.some.injEq, exists_eq_left']
    constructor
    · rintro ⟨hk, h⟩
      refine ⟨hk, ?_⟩
      simpa [List.getD, List.getElem?_eq_getElem hk] using h
    · rintro ⟨hk, h⟩
      refine ⟨hk, ?_⟩
      simpa [List.getD, List.getElem?_eq_getElem hk] using h

/-- **soundness of the 1-D finder**: a returned cell contains the point (closed cell) -/
theorem C14_line_locate_sound (p : Nat → Rat) (nv : Nat) (t : List (Nat × Nat))
    (hv : ValidLineMesh p nv t) (x : Rat) (k : Nat) (h : lineLocate p nv t x = some k) :
    ∃ hk : k < t.length, InCell p t[k] x := by
  unfold lineLocate at h
  simp only at h
  split at h
  · rename_i k' hl
    simp only [Option.some.injEq] at h
    subst h
    have hmem := List.mem_of_getLast? hl
    obtain ⟨v, hv', hk, hmax⟩ := (C14_mem_cellsWithMax _ _ _ _).1 hmem
    obtain ⟨_, hxv, hminimal⟩ := (digitize_vertex p nv x).1 v hv'
    obtain ⟨hmin, _, hlt⟩ := C14_line_minmax hv t[k'] (List.getElem_mem hk)
    refine ⟨hk, ?_, ?_⟩
    · by_contra hcon
      have := hminimal _ hmin (not_le.1 hcon)
      rw [← hmax] at this
      exact absurd hlt (not_lt.2 this)
    · rw [hmax]; exact le_of_lt hxv
  · rename_i hl
    have hmem := List.mem_of_getLast? h
    obtain ⟨v, hv', hk, hmax⟩ := (C14_mem_cellsWithMax _ _ _ _).1 hmem
    obtain ⟨_, hxv, hminimal⟩ := (digitizeRight_vertex p nv x).1 v hv'
    obtain ⟨hmin, _, hlt⟩ := C14_line_minmax hv t[k] (List.getElem_mem hk)
    refine ⟨hk, ?_, ?_⟩
    · by_contra hcon
      have := hminimal _ hmin (le_of_lt (not_le.1 hcon))
      rw [← hmax] at this
      exact absurd hlt (not_lt.2 this)
    · rw [hmax]; exact hxv

/-- **completeness of the 1-D finder**: every point of a cell — the right end points of the mesh
    and of each of its connected components included — is located -/
theorem C14_line_locate_complete (p : Nat → Rat) (nv : Nat) (t : List (Nat × Nat))
    (hv : ValidLineMesh p nv t) (hno : NoInnerVertex p nv t) (x : Rat) (k : Nat)
    (hk : k < t.length) (hin : InCell p t[k] x) : ∃ k', lineLocate p nv t x = some k' := by
  obtain ⟨hmin, hmax, hlt⟩ := C14_line_minmax hv t[k] (List.getElem_mem hk)
  obtain ⟨hlo, hhi⟩ := hin
  have some_of_mem : ∀ (l : List Nat) (a : Nat), a ∈ l → ∃ b, l.getLast? = some b := by
    intro l a ha
    cases hl : l.getLast? with
    | some b => exact ⟨b, rfl⟩
    | none =>
      rw [List.getLast?_eq_none_iff] at hl
      subst hl
      simp at ha
  unfold lineLocate
  simp only
  rcases lt_or_eq_of_le hhi with hlt' | heq
  · -- x < right end: the pass `right=False` finds the cell
    have hsome : ∃ v, (argsortKey p nv)[digitize ((argsortKey p nv).map p) x]? = some v := by
      cases hq : (argsortKey p nv)[digitize ((argsortKey p nv).map p) x]? with
      | some v => exact ⟨v, rfl⟩
      | none =>
        have := (digitize_vertex p nv x).2 hq _ hmax
        exact absurd hlt' (not_lt.2 this)
    obtain ⟨v, hq⟩ := hsome
    obtain ⟨hvn, hxv, hminimal⟩ := (digitize_vertex p nv x).1 v hq
    have hle : p v ≤ p (maxVertex p t[k]) := hminimal _ hmax hlt'
    have heqv : p v = p (maxVertex p t[k]) := by
      rcases lt_or_eq_of_le hle with hl | he
      · exact absurd ⟨lt_of_le_of_lt hlo hxv, hl⟩ (hno t[k] (List.getElem_mem hk) v hvn)
      · exact he
    have hvk : maxVertex p t[k] = v := (hv.inj _ _ hvn hmax heqv).symm
    have hmem : k ∈ cellsWithMax p t ((argsortKey p nv)[digitize ((argsortKey p nv).map p) x]?) :=
      (C14_mem_cellsWithMax _ _ _ _).2 ⟨v, hq, hk, hvk⟩
    obtain ⟨b, hb⟩ := some_of_mem _ _ hmem
    exact ⟨b, by rw [hb]⟩
  · -- x = right end: the pass `right=True` finds it unless `right=False` found another cell
    have hsome : ∃ v, (argsortKey p nv)[digitizeRight ((argsortKey p nv).map p) x]? = some v := by
      cases hq : (argsortKey p nv)[digitizeRight ((argsortKey p nv).map p) x]? with
      | some v => exact ⟨v, rfl⟩
      | none =>
        have := (digitizeRight_vertex p nv x).2 hq _ hmax
        rw [heq] at this
        exact absurd this (lt_irrefl _)
    obtain ⟨v, hq⟩ := hsome
    obtain ⟨hvn, hxv, hminimal⟩ := (digitizeRight_vertex p nv x).1 v hq
    have hle : p v ≤ p (maxVertex p t[k]) := hminimal _ hmax (le_of_eq heq)
    have heqv : p v = p (maxVertex p t[k]) := le_antisymm hle (by rw [← heq]; exact hxv)
    have hvk : maxVertex p t[k] = v := (hv.inj _ _ hvn hmax heqv).symm
    have hmem : k ∈ cellsWithMax p t
        ((argsortKey p nv)[digitizeRight ((argsortKey p nv).map p) x]?) :=
      (C14_mem_cellsWithMax _ _ _ _).2 ⟨v, hq, hk, hvk⟩
    obtain ⟨b, hb⟩ := some_of_mem _ _ hmem
    cases hL : (cellsWithMax p t
        ((argsortKey p nv)[digitize ((argsortKey p nv).map p) x]?)).getLast? with
    | some b' => exact ⟨b', rfl⟩
    | none => exact ⟨b, by simp [hb]⟩

/-- the 1-D finder treats every query point on its own: entry `i` of the answer is the cell
    located for `xs[i]`, whatever else is in the list (any number, order, repetition) -/
theorem C14_line_finder_pointwise (p : Nat → Rat) (nv : Nat) (t : List (Nat × Nat)) (xs : List Rat)
    (r : List Nat) (h : lineFinder p nv t xs = some r) :
    r.length = xs.length ∧ ∀ i (hi : i < xs.length) (hr : i < r.length),
      lineLocate p nv t xs[i] = some r[i] := by
  unfold lineFinder at h
  simp only at h
  split at h
  · rename_i hall
    simp only [Option.some.injEq] at h
    subst h
    refine ⟨by simp, fun i hi hr => ?_⟩
    simp only [List.getElem_map]
    have := (List.all_eq_true.1 hall) (lineLocate p nv t xs[i])
      (List.mem_map.2 ⟨xs[i], List.getElem_mem hi, rfl⟩)
    cases hq : lineLocate p nv t xs[i] with
    | none => rw [hq] at this; simp at this
    | some k => simp
  · cases h

/-- **the 1-D finder answers with containing cells**, one per query point, for any number,
    order and repetition of points (each point is treated on its own) -/
theorem C14_line_finder_sound (p : Nat → Rat) (nv : Nat) (t : List (Nat × Nat))
    (hv : ValidLineMesh p nv t) (xs : List Rat) (r : List Nat)
    (h : lineFinder p nv t xs = some r) :
    r.length = xs.length ∧ ∀ i (hi : i < xs.length) (hr : i < r.length),
      ∃ hk : r[i] < t.length, InCell p t[r[i]] xs[i] := by
  obtain ⟨hlen, hloc⟩ := C14_line_finder_pointwise p nv t xs r h
  exact ⟨hlen, fun i hi hr => C14_line_locate_sound p nv t hv xs[i] r[i] (hloc i hi hr)⟩

/-- **the 1-D finder raises iff some query point lies in no cell** -/
theorem C14_line_finder_raises_iff (p : Nat → Rat) (nv : Nat) (t : List (Nat × Nat))
    (hv : ValidLineMesh p nv t) (hno : NoInnerVertex p nv t) (xs : List Rat) :
    lineFinder p nv t xs = none ↔ ∃ x ∈ xs, ∀ k (hk : k < t.length), ¬ InCell p t[k] x := by
  constructor
  · intro h
    unfold lineFinder at h
    simp only at h
    split at h
    · cases h
    · rename_i hall
      simp only [List.all_eq_true, not_forall] at hall
      obtain ⟨o, ho, hnot⟩ := hall
      obtain ⟨x, hx, rfl⟩ := List.mem_map.1 ho
      refine ⟨x, hx, fun k hk hin => ?_⟩
      obtain ⟨k', hk'⟩ := C14_line_locate_complete p nv t hv hno x k hk hin
      rw [hk'] at hnot
      simp at hnot
  · rintro ⟨x, hx, hnone⟩
    cases h : lineFinder p nv t xs with
    | none => rfl
    | some r =>
      exfalso
      obtain ⟨hlen, hin⟩ := C14_line_finder_sound p nv t hv xs r h
      obtain ⟨i, hi, rfl⟩ := List.getElem_of_mem hx
      obtain ⟨hk, hc⟩ := hin i hi (by omega)
      exact hnone _ hk hc

/-- the mesh `[0,1] ∪ [2,3]` (a gap, i.e. a non-convex domain) -/
def gapMesh : Nat → Rat := fun v => (v : Rat)

/-- the finder of the pinned tree raised for the right end point `x = 1` of the first component
    although `x` is a vertex of cell 0; the repaired finder returns cell 0 -/
theorem C14_line_finder_old_counterexample :
    lineFinderOld gapMesh 4 [(0, 1), (2, 3)] [1] = none
    ∧ lineFinder gapMesh 4 [(0, 1), (2, 3)] [1] = some [0]
    ∧ InCell gapMesh (0, 1) 1 := by
  refine ⟨by decide +kernel, by decide +kernel, ?_⟩
  unfold InCell minVertex maxVertex gapMesh
  norm_num

/-- the old finder only compared the NUMBER of cells found with the number of points: with
    one point in a gap and one point … it still raised correctly, but a point beyond the right
    end was an `IndexError`; the repaired finder raises in both cases and answers inside -/
example :
    lineFinder gapMesh 4 [(0, 1), (2, 3)] [3, 0, 1, 5/2, 1/2, 2] = some [1, 0, 0, 1, 0, 1]
    ∧ lineFinder gapMesh 4 [(0, 1), (2, 3)] [3/2] = none
    ∧ lineFinder gapMesh 4 [(0, 1), (2, 3)] [4] = none
    ∧ lineFinder gapMesh 4 [(0, 1), (2, 3)] [-1] = none
    ∧ lineFinder (fun v => ((3 - v : Int) : Rat)) 4 [(1, 0), (2, 3)] [3, 5/2, 0, 1/2] = some [0, 0, 1, 1] := by
  decide +kernel

/-- non-vacuity of the hypotheses -/
example : ValidLineMesh gapMesh 4 [(0, 1), (2, 3)] ∧ NoInnerVertex gapMesh 4 [(0, 1), (2, 3)] := by
  refine ⟨⟨?_, ?_, ?_⟩, ?_⟩
  · intro u v _ _ h
    unfold gapMesh at h
    exact_mod_cast h
  · decide
  · decide
  · intro c hc u hu
    unfold gapMesh minVertex maxVertex
    simp only [List.mem_cons, List.mem_nil_iff, or_false] at hc
    have hu' : u = 0 ∨ u = 1 ∨ u = 2 ∨ u = 3 := by omega
    rcases hc with rfl | rfl <;> rcases hu' with rfl | rfl | rfl | rfl <;> norm_num

end Line

/-! ### (d) the split trick of the quadrilateral / hexahedron / prism finders -/

/-- `to_meshtri()` / `to_meshtet()` stack one block of `nt` sub-simplices per template: column
    `j` of the split connectivity consists of the local vertices `tmpl[j / nt]` of cell
    `j % nt` — so `finder(...) % nt` is the parent cell of the sub-simplex found -/
theorem C14_split_modulo (tmpl : List (List Nat)) (nt : Nat) (t : Nat → Nat → Nat) (j : Nat)
    (hj : j < tmpl.length * nt) :
    ∃ hb : j / nt < tmpl.length,
      (splitCells tmpl nt t)[j]? = some ((tmpl[j / nt]).map (fun i => t (j % nt) i)) := by
  have hnt : 0 < nt := by
    rcases Nat.eq_zero_or_pos nt with h0 | h
    · subst h0; simp at hj
    · exact h
  have hb : j / nt < tmpl.length := Nat.div_lt_of_lt_mul (by rwa [Nat.mul_comm] at hj)
  refine ⟨hb, ?_⟩
  have e : j = j / nt * nt + j % nt := by rw [Nat.mul_comm]; exact (Nat.div_add_mod _ _).symm
  unfold splitCells
  conv_lhs => rw [e]
  rw [getElem?_flatMap_uniform tmpl nt _ (fun tm _ => by simp) (j / nt) (j % nt) hb
    (Nat.mod_lt _ hnt)]
  simp [Nat.mod_lt _ hnt]

theorem C14_split_count (tmpl : List (List Nat)) (nt : Nat) (t : Nat → Nat → Nat) :
    (splitCells tmpl nt t).length = tmpl.length * nt :=
  length_flatMap_uniform tmpl nt _ (fun tm _ => by simp)

/-- every vertex of sub-simplex `j` is a vertex of cell `j % nt` -/
theorem C14_split_vertices (tmpl : List (List Nat)) (nt : Nat) (t : Nat → Nat → Nat) (j : Nat)
    (hj : j < tmpl.length * nt) (sub : List Nat) (hs : (splitCells tmpl nt t)[j]? = some sub) :
    ∀ v ∈ sub, ∃ i, v = t (j % nt) i := by
  obtain ⟨_, h⟩ := C14_split_modulo tmpl nt t j hj
  rw [h] at hs
  simp only [Option.some.injEq] at hs
  subst hs
  intro v hv
  simp only [List.mem_map] at hv
  obtain ⟨i, _, rfl⟩ := hv
  exact ⟨i, rfl⟩

/-- non-vacuity: two quadrilaterals, two hexahedra -/
example : splitCells quadToTri 2 (fun k i => 10 * k + i)
      = [[0, 1, 3], [10, 11, 13], [1, 2, 3], [11, 12, 13]]
    ∧ (splitCells hexToTet 2 (fun k i => 10 * k + i))[9]? = some [13, 14, 15, 17] := by decide

/-! ### (e) `probes`, `interpolator`, `point_source` -/

section Probes
variable {K : Type} [CommRing K]

omit [CommRing K] in
/-- number of stored entries: one per (local function, component, point) -/
theorem C14_probes_triplet_count (Nbfun comp : Nat) (cells : List Nat) (dofs : Nat → Nat → Nat)
    (phi : Nat → Nat → Nat → K) :
    (probeTriplets Nbfun comp cells dofs phi).length = Nbfun * (comp * cells.length) := by
  rw [probeTriplets_structured]
  exact length_flatMap_range Nbfun _ _ (fun k _ =>
    length_flatMap_range comp cells.length _ (fun c _ => by simp))

omit [CommRing K] in
/-- the `tile` / `flatten` / fancy-indexing arithmetic of `probes`: the triplet at flat position
    `k * (comp * npts) + c * npts + p` is
    `(row c * npts + p, column element_dofs[k, cells[p]], value phi_k^c(x_p))` -/
theorem C14_probes_triplet_at (Nbfun comp : Nat) (cells : List Nat) (dofs : Nat → Nat → Nat)
    (phi : Nat → Nat → Nat → K) (k c p : Nat) (hk : k < Nbfun) (hc : c < comp)
    (hp : p < cells.length) :
    (probeTriplets Nbfun comp cells dofs phi)[k * (comp * cells.length) + (c * cells.length + p)]?
      = some (c * cells.length + p, dofs k (cells.getD p 0), phi k c p) := by
  rw [probeTriplets_structured]
  have hcp : c * cells.length + p < comp * cells.length := by
    have h1 : (c + 1) * cells.length ≤ comp * cells.length := Nat.mul_le_mul_right _ hc
    rw [Nat.add_mul] at h1
    omega
  rw [getElem?_flatMap_range Nbfun (comp * cells.length) _ (fun k _ =>
      length_flatMap_range comp cells.length _ (fun c _ => by simp)) k _ hk hcp,
    getElem?_flatMap_range comp cells.length _ (fun c _ => by simp) c p hc hp]
  simp [hp]

/-- **`(probes(x) @ y)[c * npts + p] = Σ_k y[element_dofs[k, cell_p]] · φ_k^c(x_p)`** for scalar
    (`comp = 1`), vector and tensor valued bases; `cells` may list any cells in any order with
    repetitions, the DOF table may contain repeated DOFs (COO duplicates are summed) -/
theorem C14_probes_bookkeeping (Nbfun comp : Nat) (cells : List Nat) (dofs : Nat → Nat → Nat)
    (phi : Nat → Nat → Nat → K) (y : Nat → K) (c p : Nat) (hc : c < comp)
    (hp : p < cells.length) :
    cooDot (probeTriplets Nbfun comp cells dofs phi) y (c * cells.length + p)
      = ∑ k ∈ Finset.range Nbfun, y (dofs k (cells.getD p 0)) * phi k c p := by
  rw [cooDot_probeTriplets Nbfun comp cells dofs phi y c p hc hp]
  exact Finset.sum_congr rfl (fun k _ => mul_comm _ _)

omit [CommRing K] in
/-- the matrix has the declared shape `(comp * npts, N)` when the DOF table stays below `N` -/
theorem C14_probes_shape (Nbfun comp N : Nat) (cells : List Nat) (dofs : Nat → Nat → Nat)
    (phi : Nat → Nat → Nat → K) (hd : ∀ k cell, dofs k cell < N) :
    ∀ t ∈ probeTriplets Nbfun comp cells dofs phi, t.1 < comp * cells.length ∧ t.2.1 < N := by
  intro t ht
  rw [probeTriplets_structured] at ht
  simp only [List.mem_flatMap, List.mem_map, List.mem_range] at ht
  obtain ⟨k, _, c, hc, p, hp, rfl⟩ := ht
  refine ⟨?_, hd _ _⟩
  have h1 : (c + 1) * cells.length ≤ comp * cells.length := Nat.mul_le_mul_right _ hc
  rw [Nat.add_mul] at h1
  show c * cells.length + p < comp * cells.length
  omega

/-- the dense matrix (duplicates summed, `toarray()`) acts like the triplets:
    `Σ_d A[r, d] y[d] = cooDot` -/
theorem C14_dense_action (T : List (Nat × Nat × K)) (N : Nat) (hT : ∀ t ∈ T, t.2.1 < N)
    (y : Nat → K) (r : Nat) :
    ∑ d ∈ Finset.range N, denseEntry T r d * y d = cooDot T y r := by
  induction T with
  | nil => simp [denseEntry, cooDot]
  | cons t T ih =>
    have ih' := ih (fun t' h' => hT t' (by simp [h']))
    have ht := hT t (by simp)
    simp only [denseEntry_cons, add_mul, Finset.sum_add_distrib, ih']
    by_cases hr : t.1 = r
    · have : cooDot (t :: T) y r = t.2.2 * y t.2.1 + cooDot T y r := by
        simp [cooDot, hr]
      rw [this]
      congr 1
      rw [Finset.sum_eq_single t.2.1]
      · simp [hr]
      · intro d _ hd
        simp [Ne.symm hd]
      · intro h
        exact absurd (Finset.mem_range.2 ht) h
    · have : cooDot (t :: T) y r = cooDot T y r := by
        simp [cooDot, hr]
      rw [this]
      have : ∑ d ∈ Finset.range N, (if t.1 = r ∧ t.2.1 = d then t.2.2 else 0) * y d = 0 := by
        apply Finset.sum_eq_zero
        intro d _
        simp [hr]
      rw [this, zero_add]

/-- **`interpolator` for tensor valued bases**: with base tensor order `(d1, d2)` the output is
    reshaped to `(d1, d2, npts)`; its entry `[i, j, p]` is flat row `(i * d2 + j) * npts + p`,
    i.e. component `(i, j)` of the located cell's local expansion at `x_p` (`d1 = 1` gives the
    vector case, `d1 = d2 = 1` the scalar one) -/
theorem C14_interpolator_reshape (Nbfun d1 d2 : Nat) (cells : List Nat) (dofs : Nat → Nat → Nat)
    (phi : Nat → Nat → Nat → K) (y : Nat → K) (i j p : Nat) (hi : i < d1) (hj : j < d2)
    (hp : p < cells.length) :
    cooDot (probeTriplets Nbfun (d1 * d2) cells dofs phi) y (tensorRow d2 cells.length i j p)
      = ∑ k ∈ Finset.range Nbfun, y (dofs k (cells.getD p 0)) * phi k (i * d2 + j) p := by
  unfold tensorRow
  refine C14_probes_bookkeeping Nbfun (d1 * d2) cells dofs phi y (i * d2 + j) p ?_ hp
  have h1 : (i + 1) * d2 ≤ d1 * d2 := Nat.mul_le_mul_right _ hi
  rw [Nat.add_mul] at h1
  omega

/-- distinct `(component, point)` pairs occupy distinct rows: nothing is mixed up by the reshape -/
theorem C14_tensor_row_injective (d2 npts i j p i' j' p' : Nat) (hj : j < d2) (hj' : j' < d2)
    (hp : p < npts) (hp' : p' < npts)
    (h : tensorRow d2 npts i j p = tensorRow d2 npts i' j' p') : i = i' ∧ j = j' ∧ p = p' := by
  unfold tensorRow at h
  obtain ⟨h1, h2⟩ := mul_add_inj hp' hp h
  obtain ⟨h3, h4⟩ := mul_add_inj hj' hj h1
  exact ⟨h3, h4, h2⟩

/-- **`point_source(x) · y`**: row 0 of the one-point probing matrix as a dense vector applied
    to `y` is the value at `x` of the located cell's local expansion (component 0 for vector
    valued bases) -/
theorem C14_point_source (Nbfun comp N cell : Nat) (dofs : Nat → Nat → Nat)
    (phi : Nat → Nat → Nat → K) (y : Nat → K) (hcomp : 0 < comp) (hd : ∀ k c, dofs k c < N) :
    ∑ d ∈ Finset.range N, denseEntry (probeTriplets Nbfun comp [cell] dofs phi) 0 d * y d
      = ∑ k ∈ Finset.range Nbfun, y (dofs k cell) * phi k 0 0 := by
  rw [C14_dense_action _ N (fun t ht => (C14_probes_shape Nbfun comp N [cell] dofs phi hd t ht).2)]
  have := C14_probes_bookkeeping Nbfun comp [cell] dofs phi y 0 0 hcomp (by simp)
  simpa using this

/-- **probing at the mapped quadrature points agrees with `interpolate`**: take the
    `nt * nq` points `x_{k,q} = F_k(X_q)` in the order `p = k * nq + q`; if the finder locates
    `x_{k,q}` in cell `k` and the pulled-back point is `X_q` (so that the evaluated basis values
    are the basis' own tables `b j k q`), row `c * (nt * nq) + p` of `probes @ y` is component
    `c` of `basis.interpolate(y)` at `(k, q)` -/
theorem C14_probes_vs_interpolate (Nbfun comp nt nq : Nat) (dofs : Nat → Nat → Nat)
    (b : BasisData K) (y : Nat → K) (c k q : Nat) (hc : c < comp) (hk : k < nt) (hq : q < nq) :
    cooDot (probeTriplets Nbfun comp ((List.range (nt * nq)).map (· / nq)) dofs
        (fun j c p => b j (p / nq) (p % nq) c)) y (c * (nt * nq) + (k * nq + q))
      = interp Nbfun y dofs b k q c := by
  have hp : k * nq + q < nt * nq := by
    have h1 : (k + 1) * nq ≤ nt * nq := Nat.mul_le_mul_right _ hk
    rw [Nat.add_mul] at h1
    omega
  have hlen : ((List.range (nt * nq)).map (· / nq)).length = nt * nq := by simp
  have := C14_probes_bookkeeping Nbfun comp ((List.range (nt * nq)).map (· / nq)) dofs
    (fun j c p => b j (p / nq) (p % nq) c) y c (k * nq + q) hc (by rw [hlen]; exact hp)
  rw [hlen] at this
  rw [this]
  unfold interp
  rw [sum_map_range]
  have hnq : 0 < nq := by omega
  have e1 : (k * nq + q) / nq = k := by
    rw [Nat.mul_comm, Nat.mul_add_div hnq, Nat.div_eq_of_lt hq]; rfl
  have e2 : (k * nq + q) % nq = q := by
    rw [Nat.mul_comm, Nat.mul_add_mod, Nat.mod_eq_of_lt hq]
  refine Finset.sum_congr rfl (fun j _ => ?_)
  simp [List.getD, hp, e1, e2]

/-- query points with trailing axes: `x` of shape `(dim, a, b)` is flattened to `a * b` points
    (`p = ia * b + ib`) and the result of shape `(comp, a * b)` is viewed as `(comp, a, b)`: the
    flat position of `[c, ia, ib]` is that of `[c, p]`, for every number of components -/
theorem C14_interpolator_trailing_axes (a b c ia ib : Nat) :
    (c * a + ia) * b + ib = c * (a * b) + (ia * b + ib) := by ring

/-- `out.reshape(shape)` is admissible iff the sizes agree -/
def reshapeOk (size : Nat) (shape : List Nat) : Bool := shape.prod == size

/-- the repaired `interpolator` reshapes to `base_tensor_order + shape[1:]`: always admissible -/
theorem C14_interpolator_trailing_reshape_ok (tensor trailing : List Nat) :
    reshapeOk (tensor.prod * trailing.prod) (tensor ++ trailing) = true := by
  simp [reshapeOk, List.prod_append]

/-- the pinned tree reshaped to `shape[1:]` alone: for a vector valued basis (2 components) and
    `x` of shape `(2, 2, 2)` the 8 values do not fit `(2, 2)` — NumPy raises `ValueError` -/
theorem C14_interpolator_trailing_old_counterexample :
    reshapeOk ([2].prod * [2, 2].prod) [2, 2] = false := by decide

/-- non-vacuity of the bookkeeping: 2 local functions, 2 components, points in cells
    `[1, 0, 1]` (a repetition), a DOF shared by both cells -/
example :
    cooDot (probeTriplets 2 2 [1, 0, 1] (fun k cell => k + cell)
      (fun k c p => ((k + 2 * c + 4 * p + 1 : Nat) : Int))) (fun d => ((10 ^ d : Nat) : Int)) (1 * 3 + 2)
      = 10 * 11 + 100 * 12 := by decide

end Probes

/-! ### end to end in exact arithmetic: triangular and quadrilateral meshes -/

section EndToEnd

/-- the inside matrix of a triangular mesh given by the vertex coordinates of its cells -/
def triInside (eps : Rat) (cells : List (P2 × P2 × P2)) : Nat → P2 → Bool :=
  fun k x => match cells[k]? with
    | some c => insideTri eps c.1 c.2.1 c.2.2 x
    | none => false

/-- **triangular meshes, any KD-tree**: with exact arithmetic the finder of a mesh of
    non-degenerate triangles (any orientation, any numbering, overlapping or not, any domain)
    answers for every query point with a cell whose `eps`-inflation contains the point, and
    raises iff some query point lies in no inflated cell -/
theorem C14_tri_mesh_finder (eps : Rat) (cells : List (P2 × P2 × P2))
    (hnd : ∀ c ∈ cells, det2 c.1 c.2.1 c.2.2 ≠ 0) (cand : List Nat)
    (hc : ∀ k ∈ cand, k < cells.length) (pts : List P2) :
    (∀ r, finder (triInside eps cells) cells.length cand pts = some r →
      r.length = pts.length ∧ ∀ i (hi : i < pts.length) (hr : i < r.length),
        ∃ hk : r[i] < cells.length,
          InHull2 eps cells[r[i]].1 cells[r[i]].2.1 cells[r[i]].2.2 pts[i]) ∧
    (finder (triInside eps cells) cells.length cand pts = none ↔
      ∃ x ∈ pts, ∀ k (hk : k < cells.length),
        ¬ InHull2 eps cells[k].1 cells[k].2.1 cells[k].2.2 x) := by
  have key : ∀ k (hk : k < cells.length) x, triInside eps cells k x = true ↔
      InHull2 eps cells[k].1 cells[k].2.1 cells[k].2.2 x := by
    intro k hk x
    unfold triInside
    rw [List.getElem?_eq_getElem hk]
    exact C14_inside_tri_spec eps _ _ _ x (hnd _ (List.getElem_mem hk))
  constructor
  · intro r hr
    obtain ⟨hlen, hin⟩ := C14_finder_sound _ _ _ _ r hr
    have hrange := C14_finder_range _ _ _ _ hc r hr
    refine ⟨hlen, fun i hi hri => ?_⟩
    have hk := hrange r[i] (List.getElem_mem hri)
    exact ⟨hk, (key _ hk _).1 (hin i hi hri)⟩
  · rw [C14_finder_raises_iff _ _ _ _ hc]
    constructor
    · rintro ⟨x, hx, hno⟩
      refine ⟨x, hx, fun k hk hin => ?_⟩
      have := (key k hk x).2 hin
      rw [hno k hk] at this
      cases this
    · rintro ⟨x, hx, hno⟩
      refine ⟨x, hx, fun k hk => ?_⟩
      cases h : triInside eps cells k x with
      | false => rfl
      | true => exact absurd ((key k hk x).1 h) (hno k hk)

/-- a quadrilateral cell: vertices in cyclic order -/
structure Quad where
  p0 : P2
  p1 : P2
  p2 : P2
  p3 : P2

/-- inside matrix of `to_meshtri()` of a quadrilateral mesh (exact, no slack): sub-triangle
    `j` is the triangle `(0,1,3)` (block `j / nt = 0`) or `(1,2,3)` (block 1) of cell `j % nt` -/
def quadSubInside (quads : List Quad) : Nat → P2 → Bool :=
  fun j x => match quads[j % quads.length]? with
    | some q => if j / quads.length = 0 then insideTri 0 q.p0 q.p1 q.p3 x
                else insideTri 0 q.p1 q.p2 q.p3 x
    | none => false

/-- **quadrilateral meshes, any KD-tree**: for a mesh of strictly convex quadrilaterals (cell `k`
    with orientation sign `sgn k`, so clockwise and counter-clockwise cells may be mixed) the
    finder `to_meshtri().element_finder()(x) % nt` answers with a cell that contains the point
    and raises iff some query point lies in no cell -/
theorem C14_quad_mesh_finder (quads : List Quad) (sgn : Nat → Rat)
    (hconv : ∀ k (hk : k < quads.length), (sgn k = 1 ∨ sgn k = -1) ∧
      ConvexQuad (sgn k) quads[k].p0 quads[k].p1 quads[k].p2 quads[k].p3)
    (cand : List Nat) (hc : ∀ j ∈ cand, j < 2 * quads.length) (pts : List P2) :
    (∀ r, finderSplit (quadSubInside quads) 2 quads.length cand pts = some r →
      r.length = pts.length ∧ ∀ i (hi : i < pts.length) (hr : i < r.length),
        ∃ hk : r[i] < quads.length,
          InQuad (sgn r[i]) quads[r[i]].p0 quads[r[i]].p1 quads[r[i]].p2 quads[r[i]].p3 pts[i]) ∧
    (finderSplit (quadSubInside quads) 2 quads.length cand pts = none ↔
      ∃ x ∈ pts, ∀ k (hk : k < quads.length),
        ¬ InQuad (sgn k) quads[k].p0 quads[k].p1 quads[k].p2 quads[k].p3 x) := by
  -- the two sub-triangles of cell k
  have sub : ∀ b k (hb : b < 2) (hk : k < quads.length) x,
      quadSubInside quads (b * quads.length + k) x
        = if b = 0 then insideTri 0 quads[k].p0 quads[k].p1 quads[k].p3 x
          else insideTri 0 quads[k].p1 quads[k].p2 quads[k].p3 x := by
    intro b k hb hk x
    have hpos : 0 < quads.length := by omega
    have e1 : (b * quads.length + k) % quads.length = k := by
      rw [Nat.mul_comm, Nat.mul_add_mod, Nat.mod_eq_of_lt hk]
    have e2 : (b * quads.length + k) / quads.length = b := by
      rw [Nat.mul_comm, Nat.mul_add_div hpos, Nat.div_eq_of_lt hk]; rfl
    unfold quadSubInside
    rw [e1, e2, List.getElem?_eq_getElem hk]
  have tiles : ∀ k (hk : k < quads.length) x,
      (insideTri 0 quads[k].p0 quads[k].p1 quads[k].p3 x = true ∨
        insideTri 0 quads[k].p1 quads[k].p2 quads[k].p3 x = true) ↔
      InQuad (sgn k) quads[k].p0 quads[k].p1 quads[k].p2 quads[k].p3 x :=
    fun k hk x => C14_quad_split_tiles (sgn k) (hconv k hk).1 _ _ _ _ x (hconv k hk).2
  constructor
  · intro r hr
    by_cases hpos : 0 < quads.length
    · obtain ⟨hlen, hin⟩ := C14_finder_split_sound _ 2 quads.length cand pts hpos hc r hr
      refine ⟨hlen, fun i hi hri => ?_⟩
      obtain ⟨hk, b, hb, hins⟩ := hin i hi hri
      refine ⟨hk, (tiles _ hk _).1 ?_⟩
      rw [sub b _ hb hk] at hins
      by_cases hb0 : b = 0
      · left; simpa [hb0] using hins
      · right; simpa [hb0] using hins
    · -- no cells: the finder cannot answer unless there are no points
      have h0 : quads.length = 0 := by omega
      unfold finderSplit at hr
      cases hf : finder (quadSubInside quads) (2 * quads.length) cand pts with
      | none => rw [hf] at hr; cases hr
      | some s =>
        rw [hf] at hr
        simp only [Option.map_some, Option.some.injEq] at hr
        subst hr
        obtain ⟨hlen, _⟩ := C14_finder_sound _ _ _ _ s hf
        have hrange := C14_finder_range _ _ _ _ hc s hf
        refine ⟨by simpa using hlen, fun i hi hri => ?_⟩
        have hri' : i < s.length := by simpa using hri
        have := hrange s[i] (List.getElem_mem hri')
        omega
  · rw [C14_finder_split_raises_iff _ 2 quads.length cand pts hc]
    constructor
    · rintro ⟨x, hx, hno⟩
      refine ⟨x, hx, fun k hk hin => ?_⟩
      rcases (tiles k hk x).2 hin with h | h
      · have := hno 0 k (by omega) hk
        rw [sub 0 k (by omega) hk] at this
        simp only [if_true] at this
        rw [this] at h; cases h
      · have := hno 1 k (by omega) hk
        rw [sub 1 k (by omega) hk] at this
        simp only [Nat.one_ne_zero, if_false] at this
        rw [this] at h; cases h
    · rintro ⟨x, hx, hno⟩
      refine ⟨x, hx, fun b k hb hk => ?_⟩
      rw [sub b k hb hk]
      have hnot := fun h => hno k hk ((tiles k hk x).1 h)
      by_cases hb0 : b = 0
      · simp only [hb0, if_true]
        cases h : insideTri 0 quads[k].p0 quads[k].p1 quads[k].p3 x with
        | false => rfl
        | true => exact absurd (Or.inl h) hnot
      · simp only [hb0, if_false]
        cases h : insideTri 0 quads[k].p1 quads[k].p2 quads[k].p3 x with
        | false => rfl
        | true => exact absurd (Or.inr h) hnot

/-- non-vacuity: an L-shaped (non-convex) domain of three unit squares, one of them clockwise;
    the candidate list misses the right cell; a point in the notch raises -/
def lMesh : List Quad :=
  [⟨(0, 0), (1, 0), (1, 1), (0, 1)⟩, ⟨(1, 0), (1, 1), (2, 1), (2, 0)⟩, ⟨(0, 1), (1, 1), (1, 2), (0, 2)⟩]

example :
    finderSplit (quadSubInside lMesh) 2 3 [0]
        [((3 : Rat) / 2, (1 : Rat) / 2), ((1 : Rat) / 2, (3 : Rat) / 2), ((1 : Rat), (1 : Rat))]
      = some [1, 2, 1]
    ∧ finderSplit (quadSubInside lMesh) 2 3 [0, 1]
        [((1 : Rat) / 2, (1 : Rat) / 2), ((3 : Rat) / 2, (3 : Rat) / 2)] = none := by
  constructor <;> decide +kernel

end EndToEnd

/-! ### the table cache of `ElementLinePp` met by `probes` (defect F8) -/

/-- with the points as key the cached tables are always those of the requested points -/
theorem C14_linepp_cache (f : Rat → Rat) (cacheX X : List Rat) :
    cachedTable keyPoints f cacheX X = X.map f := by
  unfold cachedTable keyPoints
  by_cases h : (cacheX == X) = true
  · rw [if_pos h]
    have : cacheX = X := by simpa using h
    rw [this]
  · rw [if_neg h]

/-- with the number of points as key (pinned tree) a single probe point `1/2` is answered with
    the table of the point `0` evaluated before (`_base_tensor_order` evaluates at `0`) -/
theorem C14_linepp_cache_old_counterexample :
    cachedTable keyCount (fun x => x) [0] [1/2] = [0]
    ∧ cachedTable keyPoints (fun x => x) [0] [1/2] = [1/2] := by
  decide +kernel

end Skv.C14
