import SkfemVerif.Model.Dofs
import SkfemVerif.Lemmas.Np
import SkfemVerif.Lemmas.Topology
import SkfemVerif.Lemmas.Dofs
/-
C04  DOF numbering: gap-free, shared exactly along shared entities.

Model: Model/Dofs.lean (`dofNumber`, `dofTable`, `gatherRows`, `elementDofs`, `dofsN`, …) =
`Dofs.__init__`.  Tie: correspondence op `dofs.init` (all four tables, `element_dofs`, `N`
compared exactly for every mesh class × every exported element and wrappers).

Every theorem is for arbitrary DOF counts (nodal/edge/facet/interior), arbitrary dimension and
arbitrary connectivity tables.
-/
namespace Skv.C04
open Skv

/-- the closed form of a table entry (`order='F'` reshape of `arange`) -/
theorem C04_table_entry (count n off a e : Nat) (ha : a < count) (he : e < n) :
    ((dofTable count n off).getD a []).getD e 0 = off + a + count * e := by
  rw [dofTable_getD count n off a e ha he]; rfl

/-- `(a, entity) ↦ number` is injective within a table: a DOF number determines its entity and
    its position on the entity -/
theorem C04_dofNumber_injective (count off a e a' e' : Nat) (ha : a < count) (ha' : a' < count)
    (h : dofNumber count off a e = dofNumber count off a' e') : a = a' ∧ e = e' := by
  exact dofNumber_inj count off a e a' e' ha ha' h

/-- each table occupies the consecutive range `[off, off + count * n)` -/
theorem C04_table_range (count n off a e : Nat) (ha : a < count) (he : e < n) :
    off ≤ dofNumber count off a e ∧ dofNumber count off a e < off + count * n := by
  exact ⟨dofNumber_ge _ _ _ _, dofNumber_lt _ _ _ _ _ ha he⟩

/-- … and fills it: every number of the range is an entry -/
theorem C04_table_surjective (count n off x : Nat) (h1 : off ≤ x) (h2 : x < off + count * n) :
    ∃ a e, a < count ∧ e < n ∧ dofNumber count off a e = x := by
  exact dofNumber_surj count n off x h1 h2

/-- the four blocks are stacked without gap or overlap: nodal, edge, facet, interior -/
theorem C04_block_offsets (c : DofCounts) (tp : Topo) :
    offEdge c tp = c.nodal * tp.nverts
    ∧ offFacet c tp = offEdge c tp + (if useEdges c tp then c.edge * tp.nedges else 0)
    ∧ offInterior c tp = offFacet c tp + (if useFacets c then c.facet * tp.nfacets else 0)
    ∧ dofsTotal c tp = offInterior c tp + c.interior * tp.nt := by
  exact ⟨rfl, rfl, rfl, rfl⟩

/-- entry of the per-cell table contributed by connectivity row `itr`, local dof `a`, cell `k`:
    it is the table entry of the entity `conn[itr][k]` — the per-cell numbering agrees with the
    per-entity tables and the mesh connectivity (order: all local dofs of row 0, then row 1, …) -/
theorem C04_gather_entry (count off : Nat) (conn : List (List Nat)) (itr a k : Nat)
    (hitr : itr < conn.length) (ha : a < count) (hk : k < (conn.getD itr []).length) :
    ((gatherRows count off conn).getD (itr * count + a) []).getD k 0
      = dofNumber count off a ((conn.getD itr []).getD k 0) := by
  exact gatherRows_getD count off conn itr a k hitr ha hk

theorem C04_gather_length (count off : Nat) (conn : List (List Nat)) :
    (gatherRows count off conn).length = conn.length * count := by
  exact gatherRows_length count off conn

/-- **shared exactly along shared entities** (one table): two per-cell entries coincide iff they
    are the same local dof of the same entity -/
theorem C04_share_iff (count off : Nat) (conn : List (List Nat)) (itr a k itr' a' k' : Nat)
    (hitr : itr < conn.length) (ha : a < count) (hk : k < (conn.getD itr []).length)
    (hitr' : itr' < conn.length) (ha' : a' < count) (hk' : k' < (conn.getD itr' []).length) :
    ((gatherRows count off conn).getD (itr * count + a) []).getD k 0
      = ((gatherRows count off conn).getD (itr' * count + a') []).getD k' 0
    ↔ a = a' ∧ (conn.getD itr []).getD k 0 = (conn.getD itr' []).getD k' 0 := by
  rw [gatherRows_getD count off conn itr a k hitr ha hk,
    gatherRows_getD count off conn itr' a' k' hitr' ha' hk']
  constructor
  · intro h
    exact dofNumber_inj count off _ _ _ _ ha ha' h
  · rintro ⟨rfl, h⟩
    rw [h]

-- (`hg` is not needed by the proof; the statement is kept as given)
set_option linter.unusedVariables false in
/-- numbers of different kinds never coincide: a vertex number is below every edge number, an
    edge number below every facet number, a facet number below every interior number -/
theorem C04_kinds_disjoint (c : DofCounts) (tp : Topo) (a v b e d f g k : Nat)
    (ha : a < c.nodal) (hv : v < tp.nverts)
    (hb : b < c.edge) (he : e < tp.nedges) (hue : useEdges c tp = true)
    (hd : d < c.facet) (hf : f < tp.nfacets)
    (hg : g < c.interior) :
    dofNumber c.nodal 0 a v < dofNumber c.edge (offEdge c tp) b e
    ∧ dofNumber c.edge (offEdge c tp) b e < dofNumber c.facet (offFacet c tp) d f
    ∧ dofNumber c.facet (offFacet c tp) d f < dofNumber c.interior (offInterior c tp) g k := by
  have hfac : useFacets c = true := by simp only [useFacets, decide_eq_true_eq]; omega
  have h1 := dofNumber_lt c.nodal tp.nverts 0 a v ha hv
  have h2 := dofNumber_ge c.edge (offEdge c tp) b e
  have h3 := dofNumber_lt c.edge tp.nedges (offEdge c tp) b e hb he
  have h4 := dofNumber_ge c.facet (offFacet c tp) d f
  have h5 := dofNumber_lt c.facet tp.nfacets (offFacet c tp) d f hd hf
  have h6 := dofNumber_ge c.interior (offInterior c tp) g k
  have e1 : offEdge c tp = c.nodal * tp.nverts := rfl
  have e2 : offFacet c tp = offEdge c tp + c.edge * tp.nedges := by
    simp only [offFacet, hue, if_true]
  have e3 : offInterior c tp = offFacet c tp + c.facet * tp.nfacets := by
    simp only [offInterior, hfac, if_true]
  omega

/-- cell-interior DOFs belong to one cell only -/
theorem C04_interior_one_cell (c : DofCounts) (tp : Topo) (g k g' k' : Nat)
    (hg : g < c.interior) (hg' : g' < c.interior)
    (h : dofNumber c.interior (offInterior c tp) g k = dofNumber c.interior (offInterior c tp) g' k') :
    k = k' := by
  exact (dofNumber_inj c.interior (offInterior c tp) g k g' k' hg hg' h).2

/-- all numbers in the per-cell table are below the closed-form total when the connectivity is
    in range -/
theorem C04_bounded (c : DofCounts) (tp : Topo)
    (ht : ∀ row ∈ tp.t, ∀ v ∈ row, v < tp.nverts)
    (he : ∀ row ∈ tp.t2e, ∀ v ∈ row, v < tp.nedges)
    (hf : ∀ row ∈ tp.t2f, ∀ v ∈ row, v < tp.nfacets)
    (x : Nat) (hx : x ∈ (elementDofs c tp).flatten) : x < dofsTotal c tp := by
  have e1 : offEdge c tp = c.nodal * tp.nverts := rfl
  have l1 : offEdge c tp ≤ offFacet c tp := by unfold offFacet; omega
  have l2 : offFacet c tp ≤ offInterior c tp := by unfold offInterior; omega
  have e4 : dofsTotal c tp = offInterior c tp + c.interior * tp.nt := rfl
  simp only [elementDofs, List.flatten_append, List.mem_append] at hx
  rcases hx with ((hx | hx) | hx) | hx
  · have := gatherRows_bounded ht hx
    omega
  · by_cases hue : useEdges c tp = true
    · simp only [hue, if_true] at hx
      have := gatherRows_bounded he hx
      have e2 : offFacet c tp = offEdge c tp + c.edge * tp.nedges := by
        simp only [offFacet, hue, if_true]
      omega
    · simp [hue] at hx
  · by_cases hfac : (decide (tp.dim ≥ 2) && useFacets c) = true
    · simp only [hfac, if_true] at hx
      have := gatherRows_bounded hf hx
      have hfac' : useFacets c = true := by
        simp only [Bool.and_eq_true] at hfac; exact hfac.2
      have e3 : offInterior c tp = offFacet c tp + c.facet * tp.nfacets := by
        simp only [offInterior, hfac', if_true]
      omega
    · simp [hfac] at hx
  · unfold interiorDofs at hx
    rw [mem_dofTable_flatten] at hx
    obtain ⟨a, e, ha, he', rfl⟩ := hx
    have := dofNumber_lt c.interior tp.nt (offInterior c tp) a e ha he'
    omega

-- (`htrow`/`herow`/`hfrow` are not needed by the proof; the statement is kept as given)
set_option linter.unusedVariables false in
/-- **gap-free**: if every vertex, every edge and every facet occurs in some cell (and every cell
    column exists), every number `0 … total-1` occurs in the per-cell table -/
theorem C04_gap_free (c : DofCounts) (tp : Topo)
    (hdim : c.facet > 0 → tp.dim ≥ 2)
    (htrow : ∀ row ∈ tp.t, row.length = tp.nt)
    (herow : ∀ row ∈ tp.t2e, row.length = tp.nt)
    (hfrow : ∀ row ∈ tp.t2f, row.length = tp.nt)
    (hv : ∀ v < tp.nverts, ∃ row ∈ tp.t, v ∈ row)
    (he : ∀ e < tp.nedges, ∃ row ∈ tp.t2e, e ∈ row)
    (hf : ∀ f < tp.nfacets, ∃ row ∈ tp.t2f, f ∈ row)
    (x : Nat) (hx : x < dofsTotal c tp) : x ∈ (elementDofs c tp).flatten := by
  have e1 : offEdge c tp = c.nodal * tp.nverts := rfl
  have e4 : dofsTotal c tp = offInterior c tp + c.interior * tp.nt := rfl
  simp only [elementDofs, List.flatten_append, List.mem_append]
  by_cases c1 : x < offEdge c tp
  · left; left; left
    exact gatherRows_covers hv (Nat.zero_le _) (by omega)
  by_cases c2 : x < offFacet c tp
  · left; left; right
    by_cases hue : useEdges c tp = true
    · simp only [hue, if_true]
      have e2 : offFacet c tp = offEdge c tp + c.edge * tp.nedges := by
        simp only [offFacet, hue, if_true]
      exact gatherRows_covers he (by omega) (by omega)
    · have e2 : offFacet c tp = offEdge c tp := by
        simp [offFacet, hue]
      omega
  by_cases c3 : x < offInterior c tp
  · left; right
    by_cases hfac : useFacets c = true
    · have hd : tp.dim ≥ 2 := hdim (by simpa [useFacets] using hfac)
      have hcond : (decide (tp.dim ≥ 2) && useFacets c) = true := by
        simp [hfac, hd]
      simp only [hcond, if_true]
      have e3 : offInterior c tp = offFacet c tp + c.facet * tp.nfacets := by
        simp only [offInterior, hfac, if_true]
      exact gatherRows_covers hf (by omega) (by omega)
    · have e3 : offInterior c tp = offFacet c tp := by
        simp [offInterior, hfac]
      omega
  · right
    unfold interiorDofs
    rw [mem_dofTable_flatten]
    exact dofNumber_surj c.interior tp.nt (offInterior c tp) x (by omega) (by omega)

/-- non-vacuity: P2 on two triangles sharing an edge (4 vertices, 5 facets) -/
example : elementDofs ⟨1, 0, 1, 0⟩
    { dim := 2, nverts := 4, nedges := 0, nfacets := 5, nt := 2,
      t := [[0, 1], [1, 2], [2, 3]], t2e := [], t2f := [[0, 2], [2, 4], [1, 3]] }
    = [[0, 1], [1, 2], [2, 3], [4, 6], [6, 8], [5, 7]] := by decide

end Skv.C04
