import SkfemVerif.Model.Poly
import SkfemVerif.Gen.TraceFacts
import SkfemVerif.Props.C09
import SkfemVerif.Lemmas.Traces
import Mathlib.Algebra.Order.Field.Rat
import Mathlib.Algebra.Order.BigOperators.Group.Finset
import Mathlib.Tactic.Ring
import Mathlib.Tactic.Linarith
/-
C03 (second part)  H1 continuity from the trace tables.

`Gen/TraceFacts.lean` (regenerated from the live `lbasis` on every run) holds, for every conforming
H1 element on triangles, quadrilaterals and tetrahedra that could be traced, the kernel-checked
facts `checkTraceTable vals fmaps keys tol` (the restriction of basis function `i` to reference
facet `f` vanishes when `keys[f][i] = none`, and is the same polynomial in the facet parameters for
all `(f, i)` carrying the same key), `checkKeys keys` (each key once per facet, same keys on every
facet) and, for quadrilateral elements, `checkTraceReversal` (reading a trace backwards gives the
trace of the mirrored key).  This file turns those facts into continuity of `u_h` across a facet
shared by two cells, for EVERY coefficient vector and EVERY point of the facet.

The facet parametrisation of the reference cell runs through the facet's local vertices in the
order of `refdom.facets`, i.e. from the lower to the higher LOCAL vertex; on meshes whose cells list
their vertices in ascending global order (`sort_t=True`, what the default triangle constructor
produces) that is the same affine map of the physical facet from both neighbours.  This is the
hypothesis `hmatch` below: functions with equal keys on the two sides are attached to the same
global DOF (from C04/C11: same sub-entity of the shared facet, same position in the facet's vertex
order, same local DOF index).
-/
namespace Skv.C03b
open Skv

/- `facetPoint origin dirs s` (the point `origin + Σ_k s_k · dirs_k`), `traceAt` (the one-sided trace
   of `u_h = Σ_i x[dof i] φ_i` on a reference facet) and `WFElem` (lengths of the generated data) are
   defined in `Lemmas/Traces.lean`:

     def facetPoint (origin : List ℚ) (dirs : List (List ℚ)) (s : List ℚ) : List ℚ :=
       (List.range origin.length).map (fun i => origin.getD i 0 +
         ((List.range dirs.length).map (fun k => s.getD k 0 * (dirs.getD k []).getD i 0)).sum)
     def traceAt vals fmaps dof x f s : ℚ :=
       ((List.range vals.length).map (fun i => x (dof i) * (vals.getD i []).eval
         (facetPoint (fmaps.getD f ([], [])).1 (fmaps.getD f ([], [])).2 s))).sum
     def WFElem dim vals fmaps : Prop :=
       (∀ v ∈ vals, ∀ t ∈ v, t.2.length = dim) ∧
       (∀ fm ∈ fmaps, fm.1.length = dim ∧ ∀ d ∈ fm.2, d.length = dim) -/

/-- **meaning of the restriction**: evaluating `p ∘ γ` at the facet parameters `s` is evaluating `p` at
    the point `γ(s)` (exponent vectors of `p` have the length of `origin`; every direction has that
    length too; `s` has one entry per direction) -/
theorem C03_substAffine_sound (p : Poly) (origin : List ℚ) (dirs : List (List ℚ)) (s : List ℚ)
    (hp : ∀ t ∈ p, t.2.length = origin.length) (hd : ∀ d ∈ dirs, d.length = origin.length)
    (hs : s.length = dirs.length) :
    (p.substAffine origin dirs).eval s = p.eval (facetPoint origin dirs s) := by
  -- `hd` is not needed: `getD` pads short direction vectors with 0 on both sides
  have _h := hd; clear _h hd
  exact eval_substAffine p origin dirs s hp hs

/-- the restriction of a well-formed table entry, evaluated: `tr f i` at `s` is `φ_i` at `γ_f(s)` -/
theorem eval_tr (dim : Nat) (vals : List Poly) (fmaps : List (List ℚ × List (List ℚ)))
    (hwf : WFElem dim vals fmaps) (f i : Nat) (hf : f < fmaps.length) (hi : i < vals.length)
    (s : List ℚ) (hs : s.length = ((fmaps.getD f ([], [])).2).length) :
    (tr vals fmaps f i).eval s
      = (vals.getD i []).eval (facetPoint (fmaps.getD f ([], [])).1 (fmaps.getD f ([], [])).2 s) := by
  have hfm : fmaps.getD f ([], []) ∈ fmaps := by
    rw [List.getD_eq_getElem fmaps _ hf]; exact List.getElem_mem hf
  have hv : vals.getD i [] ∈ vals := by
    rw [List.getD_eq_getElem vals _ hi]; exact List.getElem_mem hi
  have h1 := hwf.2 _ hfm
  exact C03_substAffine_sound _ _ _ s (fun t ht => by rw [hwf.1 _ hv t ht, h1.1])
    (fun d hd => by rw [h1.2 d hd, h1.1]) hs

/-- **functions not attached to the closure of a facet do not contribute to the trace** (exact version,
    `tol = 0`): if the table check passes with tolerance 0, the trace only involves the functions with a key -/
theorem C03_unattached_vanish (dim : Nat) (vals : List Poly) (fmaps : List (List ℚ × List (List ℚ)))
    (keys : List (List (Option Nat))) (hwf : WFElem dim vals fmaps)
    (h : checkTraceTable vals fmaps keys 0 = true) (f i : Nat) (hf : f < fmaps.length) (hi : i < vals.length)
    (hk : (keys.getD f []).getD i none = none) (s : List ℚ)
    (hs : s.length = ((fmaps.getD f ([], [])).2).length) :
    (vals.getD i []).eval (facetPoint (fmaps.getD f ([], [])).1 (fmaps.getD f ([], [])).2 s) = 0 := by
  obtain ⟨_, _, hent⟩ := checkTraceTable_spec vals fmaps keys 0 h
  have hc := entryOk_none vals fmaps keys 0 (f, i) hk (hent f i hf hi)
  rw [← eval_tr dim vals fmaps hwf f i hf hi s hs,
    C09.C09_eval_congr_coeff _ _ (close_zero_coeff _ _ hc) s]
  rfl

/-- **equal keys, equal traces** (exact version): functions carrying the same key on two facets have the
    same restriction, as functions of the facet parameters -/
theorem C03_equal_keys_equal_traces (dim : Nat) (vals : List Poly) (fmaps : List (List ℚ × List (List ℚ)))
    (keys : List (List (Option Nat))) (hwf : WFElem dim vals fmaps)
    (h : checkTraceTable vals fmaps keys 0 = true) (f i f' i' k : Nat)
    (hf : f < fmaps.length) (hi : i < vals.length) (hf' : f' < fmaps.length) (hi' : i' < vals.length)
    (hk : (keys.getD f []).getD i none = some k) (hk' : (keys.getD f' []).getD i' none = some k)
    (s : List ℚ) (hs : s.length = ((fmaps.getD f ([], [])).2).length)
    (hs' : s.length = ((fmaps.getD f' ([], [])).2).length) :
    (vals.getD i []).eval (facetPoint (fmaps.getD f ([], [])).1 (fmaps.getD f ([], [])).2 s)
      = (vals.getD i' []).eval (facetPoint (fmaps.getD f' ([], [])).1 (fmaps.getD f' ([], [])).2 s) := by
  obtain ⟨_, _, hent⟩ := checkTraceTable_spec vals fmaps keys 0 h
  obtain ⟨gj, hg, hc⟩ := entryOk_some vals fmaps keys 0 (f, i) k hk (hent f i hf hi)
  obtain ⟨gj', hg', hc'⟩ := entryOk_some vals fmaps keys 0 (f', i') k hk' (hent f' i' hf' hi')
  -- both are compared with the same first pair
  have hgg : gj' = gj := Option.some.inj (hg'.symm.trans hg)
  rw [hgg] at hc'
  rw [← eval_tr dim vals fmaps hwf f i hf hi s hs, ← eval_tr dim vals fmaps hwf f' i' hf' hi' s hs',
    C09.C09_eval_congr_coeff _ _ (close_zero_coeff _ _ hc) s,
    C09.C09_eval_congr_coeff _ _ (close_zero_coeff _ _ hc') s]

/-- **H1 continuity across a shared facet** (exact version).  Two cells see the shared facet as their
    local facets `f` and `f'`; `dof`, `dof'` are their local-to-global DOF maps.  If functions with equal
    keys are attached to the same global DOF (`hmatch`; sorted cells + C04/C11), then the two one-sided
    traces coincide for EVERY coefficient vector `x` at EVERY facet parameter `s`. -/
theorem C03_h1_continuous (dim : Nat) (vals : List Poly) (fmaps : List (List ℚ × List (List ℚ)))
    (keys : List (List (Option Nat))) (hwf : WFElem dim vals fmaps)
    (h : checkTraceTable vals fmaps keys 0 = true) (hkeys : checkKeys keys = true)
    (f f' : Nat) (hf : f < fmaps.length) (hf' : f' < fmaps.length)
    (dof dof' : Nat → Nat)
    (hmatch : ∀ i i' k, i < vals.length → i' < vals.length →
      (keys.getD f []).getD i none = some k → (keys.getD f' []).getD i' none = some k → dof i = dof' i')
    (x : Nat → ℚ) (s : List ℚ) (hs : s.length = ((fmaps.getD f ([], [])).2).length)
    (hs' : s.length = ((fmaps.getD f' ([], [])).2).length) :
    traceAt vals fmaps dof x f s = traceAt vals fmaps dof' x f' s := by
  obtain ⟨hlen, hrows, _⟩ := checkTraceTable_spec vals fmaps keys 0 h
  obtain ⟨hnd, hsame⟩ := checkKeys_spec keys hkeys
  -- the two rows of the key table
  have hrm : keys.getD f [] ∈ keys := by
    rw [List.getD_eq_getElem keys _ (hlen ▸ hf)]; exact List.getElem_mem _
  have hrm' : keys.getD f' [] ∈ keys := by
    rw [List.getD_eq_getElem keys _ (hlen ▸ hf')]; exact List.getElem_mem _
  have hrl := hrows _ hrm
  have hrl' := hrows _ hrm'
  -- the same keys, each once: the key lists are permutations of each other
  have hperm : ((keys.getD f []).filterMap id).Perm ((keys.getD f' []).filterMap id) :=
    (List.perm_ext_iff_of_nodup (hnd _ hrm) (hnd _ hrm')).mpr (hsame _ hrm _ hrm')
  -- the contribution of key `k`, read off on the side of `f'`
  let j : Nat → Nat := fun k => (keys.getD f' []).idxOf (some k)
  let c : Nat → ℚ := fun k => x (dof' (j k)) *
    (vals.getD (j k) []).eval (facetPoint (fmaps.getD f' ([], [])).1 (fmaps.getD f' ([], [])).2 s)
  have hj : ∀ k, k ∈ (keys.getD f' []).filterMap id →
      j k < vals.length ∧ (keys.getD f' []).getD (j k) none = some k := fun k hk => by
    have := idxOf_spec _ k hk
    exact ⟨hrl' ▸ this.1, this.2⟩
  have hL : traceAt vals fmaps dof x f s = (((keys.getD f []).filterMap id).map c).sum := by
    unfold traceAt
    rw [← hrl]
    refine sum_by_keys _ _ c (fun i hi hk => ?_) (fun i k hi hk => ?_)
    · rw [C03_unattached_vanish dim vals fmaps keys hwf h f i hf (hrl ▸ hi) hk s hs, mul_zero]
    · have hi' : i < vals.length := hrl ▸ hi
      obtain ⟨hjl, hjk⟩ := hj k ((hsame _ hrm _ hrm' k).mp (mem_filterMap_of_getD _ i k hk))
      show x (dof i) * _ = x (dof' (j k)) * _
      rw [hmatch i (j k) k hi' hjl hk hjk,
        C03_equal_keys_equal_traces dim vals fmaps keys hwf h f i f' (j k) k hf hi' hf' hjl hk hjk
          s hs hs']
  have hR : traceAt vals fmaps dof' x f' s = (((keys.getD f' []).filterMap id).map c).sum := by
    unfold traceAt
    rw [← hrl']
    refine sum_by_keys _ _ c (fun i hi hk => ?_) (fun i k hi hk => ?_)
    · rw [C03_unattached_vanish dim vals fmaps keys hwf h f' i hf' (hrl' ▸ hi) hk s hs', mul_zero]
    · have hi' : i < vals.length := hrl' ▸ hi
      have hkm' := mem_filterMap_of_getD _ i k hk
      obtain ⟨hjl, hjk⟩ := hj k hkm'
      -- a function of `f` with the same key links the two DOFs of `f'`
      obtain ⟨i0l, i0k⟩ := idxOf_spec _ k ((hsame _ hrm _ hrm' k).mpr hkm')
      have i0l' : (keys.getD f []).idxOf (some k) < vals.length := hrl ▸ i0l
      show x (dof' i) * _ = x (dof' (j k)) * _
      rw [← hmatch _ i k i0l' hi' i0k hk, hmatch _ (j k) k i0l' hjl i0k hjk,
        C03_equal_keys_equal_traces dim vals fmaps keys hwf h f' i f' (j k) k hf' hi' hf' hjl hk hjk
          s hs' hs']
  rw [hL, hR]
  exact (hperm.map c).sum_eq

theorem shapeTol_nonneg : (0 : ℚ) ≤ Gen.Shapes.shapeTol := by
  unfold Gen.Shapes.shapeTol
  exact Rat.mkRat_nonneg (by norm_num) _

/-- the generated tolerance is what the kernel checked; for elements whose traced coefficients are exact
    rationals the check also passes with tolerance 0 whenever it passes with a tolerance below the
    smallest nonzero coefficient gap — not needed below: the statements above are instantiated through
    `checkTraceTable_mono` -/
theorem C03_checkTraceTable_mono (vals : List Poly) (fmaps : List (List ℚ × List (List ℚ)))
    (keys : List (List (Option Nat))) (tol tol' : ℚ) (hle : tol ≤ tol')
    (h : checkTraceTable vals fmaps keys tol = true) : checkTraceTable vals fmaps keys tol' = true :=
  checkTraceTable_mono vals fmaps keys tol tol' hle h

/-- **approximate version for the generated elements** (tolerance `shapeTol = 2^-40`): for every element of
    the generated table, functions without key are small on the facet and functions with equal keys
    have traces that differ by at most `shapeTol` times the number of terms, at every point of the
    reference facet (`s` in the unit box) -/
theorem C03_generated_traces (E : List Poly × List (List ℚ × List (List ℚ)) × List (List (Option Nat)))
    (hE : E ∈ Gen.Shapes.traceElements) (f i f' i' k : Nat)
    (hf : f < E.2.1.length) (hi : i < E.1.length) (hf' : f' < E.2.1.length) (hi' : i' < E.1.length)
    (hk : (E.2.2.getD f []).getD i none = some k) (hk' : (E.2.2.getD f' []).getD i' none = some k)
    (s : List ℚ) (hs : ∀ c ∈ s, 0 ≤ c ∧ c ≤ 1) :
    |((E.1.getD i []).substAffine (E.2.1.getD f ([], [])).1 (E.2.1.getD f ([], [])).2).eval s
      - ((E.1.getD i' []).substAffine (E.2.1.getD f' ([], [])).1 (E.2.1.getD f' ([], [])).2).eval s|
      ≤ 2 * Gen.Shapes.shapeTol *
        ((((E.1.getD i []).substAffine (E.2.1.getD f ([], [])).1 (E.2.1.getD f ([], [])).2).length
          + ((E.1.getD i' []).substAffine (E.2.1.getD f' ([], [])).1 (E.2.1.getD f' ([], [])).2).length
          + 2 * (E.1.length * E.2.1.length) : Nat) : ℚ) := by
  have htol : (0 : ℚ) ≤ Gen.Shapes.shapeTol := shapeTol_nonneg
  obtain ⟨_, _, hent⟩ := checkTraceTable_spec E.1 E.2.1 E.2.2 _ (Gen.Shapes.traceElements_ok E hE)
  obtain ⟨gj, hg, hc⟩ := entryOk_some E.1 E.2.1 E.2.2 _ (f, i) k hk (hent f i hf hi)
  obtain ⟨gj', hg', hc'⟩ := entryOk_some E.1 E.2.1 E.2.2 _ (f', i') k hk' (hent f' i' hf' hi')
  have hgg : gj' = gj := Option.some.inj (hg'.symm.trans hg)
  rw [hgg] at hc'
  -- both traces are coefficient-wise close to the trace of the first pair carrying the key, hence
  -- to each other (exponent vectors occurring only in the first pair's trace contribute nothing)
  have hcl := close_trans _ _ _ _ _ hc hc' htol htol
  have hb := C09.C09_close_sound _ _ _ hcl s hs
  refine le_trans hb ?_
  rw [← two_mul]
  refine mul_le_mul_of_nonneg_left ?_ (mul_nonneg (by norm_num) htol)
  have : (tr E.1 E.2.1 (f, i).1 (f, i).2).length + (tr E.1 E.2.1 (f', i').1 (f', i').2).length
      ≤ (tr E.1 E.2.1 (f, i).1 (f, i).2).length + (tr E.1 E.2.1 (f', i').1 (f', i').2).length
        + 2 * (E.1.length * E.2.1.length) := Nat.le_add_right _ _
  exact_mod_cast this

/-- non-vacuity: the generated table is not empty and P2 on the triangle is in it -/
example : Gen.Shapes.traceElements ≠ [] := by decide
example : checkKeys Gen.Shapes.ElementTriP2_keys = true := Gen.Shapes.ElementTriP2_keys_ok

end Skv.C03b
