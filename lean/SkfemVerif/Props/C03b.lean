import SkfemVerif.Model.Poly
import SkfemVerif.Gen.TraceFacts
import SkfemVerif.Props.C09
import Mathlib.Algebra.Order.Field.Rat
import Mathlib.Algebra.Order.BigOperators.Group.Finset
import Mathlib.Tactic.Ring
import Mathlib.Tactic.Linarith
/-
C03 (second part)  H1 continuity from the trace tables.

`Gen/TraceFacts.lean` (regenerated from the live `lbasis` on every run) holds, for every conforming
H1 element on triangles, quadrilaterals and tetrahedra that could be traced, the kernel-checked
facts `checkTraceTable vals fmaps keys tol` (the restriction of basis function `i` to reference
facet `f` vanishes when `keys[f][i] = none`, and is the same polynomial in the facet parameters for
all `(f, i)` carrying the same key), `checkKeys keys` (each key once per facet, same keys on every
facet) and, for quadrilateral elements, `checkTraceReversal` (reading a trace backwards gives the
trace of the mirrored key).  This file turns those facts into continuity of `u_h` across a facet
shared by two cells, for EVERY coefficient vector and EVERY point of the facet.

The facet parametrisation of the reference cell runs through the facet's local vertices in the
order of `refdom.facets`, i.e. from the lower to the higher LOCAL vertex; on meshes whose cells list
their vertices in ascending global order (`sort_t=True`, what the default triangle constructor
produces) that is the same affine map of the physical facet from both neighbours.  This is the
hypothesis `hmatch` below: functions with equal keys on the two sides are attached to the same
global DOF (from C04/C11: same sub-entity of the shared facet, same position in the facet's vertex
order, same local DOF index).
-/
namespace Skv.C03b
open Skv

/-- the point `origin + Σ_k s_k · dirs_k` -/
def facetPoint (origin : List ℚ) (dirs : List (List ℚ)) (s : List ℚ) : List ℚ :=
  (List.range origin.length).map (fun i =>
    origin.getD i 0 + ((List.range dirs.length).map (fun k => s.getD k 0 * (dirs.getD k []).getD i 0)).sum)

/-- **meaning of the restriction**: evaluating `p ∘ γ` at the facet parameters `s` is evaluating `p` at
    the point `γ(s)` (exponent vectors of `p` have the length of `origin`; every direction has that
    length too; `s` has one entry per direction) -/
theorem C03_substAffine_sound (p : Poly) (origin : List ℚ) (dirs : List (List ℚ)) (s : List ℚ)
    (hp : ∀ t ∈ p, t.2.length = origin.length) (hd : ∀ d ∈ dirs, d.length = origin.length)
    (hs : s.length = dirs.length) :
    (p.substAffine origin dirs).eval s = p.eval (facetPoint origin dirs s) := by
  sorry

/-- the one-sided trace of `u_h = Σ_i x[dof i] φ_i` on reference facet `f` at facet parameters `s` -/
def traceAt (vals : List Poly) (fmaps : List (List ℚ × List (List ℚ))) (dof : Nat → Nat) (x : Nat → ℚ)
    (f : Nat) (s : List ℚ) : ℚ :=
  ((List.range vals.length).map (fun i =>
    x (dof i) * (vals.getD i []).eval (facetPoint (fmaps.getD f ([], [])).1 (fmaps.getD f ([], [])).2 s))).sum

/-- well-formedness of the generated data of one element (lengths) -/
def WFElem (dim : Nat) (vals : List Poly) (fmaps : List (List ℚ × List (List ℚ))) : Prop :=
  (∀ v ∈ vals, ∀ t ∈ v, t.2.length = dim) ∧ (∀ fm ∈ fmaps, fm.1.length = dim ∧ ∀ d ∈ fm.2, d.length = dim)

/-- **functions not attached to the closure of a facet do not contribute to the trace** (exact version,
    `tol = 0`): if the table check passes with tolerance 0, the trace only involves the functions with a key -/
theorem C03_unattached_vanish (dim : Nat) (vals : List Poly) (fmaps : List (List ℚ × List (List ℚ)))
    (keys : List (List (Option Nat))) (hwf : WFElem dim vals fmaps)
    (h : checkTraceTable vals fmaps keys 0 = true) (f i : Nat) (hf : f < fmaps.length) (hi : i < vals.length)
    (hk : (keys.getD f []).getD i none = none) (s : List ℚ)
    (hs : s.length = ((fmaps.getD f ([], [])).2).length) :
    (vals.getD i []).eval (facetPoint (fmaps.getD f ([], [])).1 (fmaps.getD f ([], [])).2 s) = 0 := by
  sorry

/-- **equal keys, equal traces** (exact version): functions carrying the same key on two facets have the
    same restriction, as functions of the facet parameters -/
theorem C03_equal_keys_equal_traces (dim : Nat) (vals : List Poly) (fmaps : List (List ℚ × List (List ℚ)))
    (keys : List (List (Option Nat))) (hwf : WFElem dim vals fmaps)
    (h : checkTraceTable vals fmaps keys 0 = true) (f i f' i' k : Nat)
    (hf : f < fmaps.length) (hi : i < vals.length) (hf' : f' < fmaps.length) (hi' : i' < vals.length)
    (hk : (keys.getD f []).getD i none = some k) (hk' : (keys.getD f' []).getD i' none = some k)
    (s : List ℚ) (hs : s.length = ((fmaps.getD f ([], [])).2).length)
    (hs' : s.length = ((fmaps.getD f' ([], [])).2).length) :
    (vals.getD i []).eval (facetPoint (fmaps.getD f ([], [])).1 (fmaps.getD f ([], [])).2 s)
      = (vals.getD i' []).eval (facetPoint (fmaps.getD f' ([], [])).1 (fmaps.getD f' ([], [])).2 s) := by
  sorry

/-- **H1 continuity across a shared facet** (exact version).  Two cells see the shared facet as their
    local facets `f` and `f'`; `dof`, `dof'` are their local-to-global DOF maps.  If functions with equal
    keys are attached to the same global DOF (`hmatch`; sorted cells + C04/C11), then the two one-sided
    traces coincide for EVERY coefficient vector `x` at EVERY facet parameter `s`. -/
theorem C03_h1_continuous (dim : Nat) (vals : List Poly) (fmaps : List (List ℚ × List (List ℚ)))
    (keys : List (List (Option Nat))) (hwf : WFElem dim vals fmaps)
    (h : checkTraceTable vals fmaps keys 0 = true) (hkeys : checkKeys keys = true)
    (f f' : Nat) (hf : f < fmaps.length) (hf' : f' < fmaps.length)
    (dof dof' : Nat → Nat)
    (hmatch : ∀ i i' k, i < vals.length → i' < vals.length →
      (keys.getD f []).getD i none = some k → (keys.getD f' []).getD i' none = some k → dof i = dof' i')
    (x : Nat → ℚ) (s : List ℚ) (hs : s.length = ((fmaps.getD f ([], [])).2).length)
    (hs' : s.length = ((fmaps.getD f' ([], [])).2).length) :
    traceAt vals fmaps dof x f s = traceAt vals fmaps dof' x f' s := by
  sorry

/-- the generated tolerance is what the kernel checked; for elements whose traced coefficients are exact
    rationals the check also passes with tolerance 0 whenever it passes with a tolerance below the
    smallest nonzero coefficient gap — not needed below: the statements above are instantiated through
    `checkTraceTable_mono` -/
theorem C03_checkTraceTable_mono (vals : List Poly) (fmaps : List (List ℚ × List (List ℚ)))
    (keys : List (List (Option Nat))) (tol tol' : ℚ) (hle : tol ≤ tol')
    (h : checkTraceTable vals fmaps keys tol = true) : checkTraceTable vals fmaps keys tol' = true := by
  sorry

/-- **approximate version for the generated elements** (tolerance `shapeTol = 2^-40`): for every element of
    the generated table, functions without key are small on the facet and functions with equal keys
    have traces that differ by at most `shapeTol` times the number of terms, at every point of the
    reference facet (`s` in the unit box) -/
theorem C03_generated_traces (E : List Poly × List (List ℚ × List (List ℚ)) × List (List (Option Nat)))
    (hE : E ∈ Gen.Shapes.traceElements) (f i f' i' k : Nat)
    (hf : f < E.2.1.length) (hi : i < E.1.length) (hf' : f' < E.2.1.length) (hi' : i' < E.1.length)
    (hk : (E.2.2.getD f []).getD i none = some k) (hk' : (E.2.2.getD f' []).getD i' none = some k)
    (s : List ℚ) (hs : ∀ c ∈ s, 0 ≤ c ∧ c ≤ 1) :
    |((E.1.getD i []).substAffine (E.2.1.getD f ([], [])).1 (E.2.1.getD f ([], [])).2).eval s
      - ((E.1.getD i' []).substAffine (E.2.1.getD f' ([], [])).1 (E.2.1.getD f' ([], [])).2).eval s|
      ≤ 2 * Gen.Shapes.shapeTol *
        ((((E.1.getD i []).substAffine (E.2.1.getD f ([], [])).1 (E.2.1.getD f ([], [])).2).length
          + ((E.1.getD i' []).substAffine (E.2.1.getD f' ([], [])).1 (E.2.1.getD f' ([], [])).2).length
          + 2 * (E.1.length * E.2.1.length) : Nat) : ℚ) := by
  sorry

/-- non-vacuity: the generated table is not empty and P2 on the triangle is in it -/
example : Gen.Shapes.traceElements ≠ [] := by decide
example : checkKeys Gen.Shapes.ElementTriP2_keys = true := Gen.Shapes.ElementTriP2_keys_ok

end Skv.C03b
