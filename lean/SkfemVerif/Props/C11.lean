import SkfemVerif.Lemmas.Topology
import SkfemVerif.Lemmas.Topology2
/-
C11  Derived mesh connectivity is coherent with the cell list.

Model: `Skv.buildEntities`, `Skv.buildInverse` (Model/Topology.lean), tied to
`Mesh.build_entities` / `Mesh.build_inverse` by the correspondence ops
`topo.entities`, `topo.inverse` (exact array comparison on every run).

All theorems hold for EVERY cell list `cells` (any number of cells, any vertex
numbers, any local order) and EVERY reference table `ref` (facets or edges of
any reference cell, including the wedge's repeated-index facets).
-/
namespace Skv.C11

open Skv

/-- each facet / edge appears once -/
theorem C11_entities_nodup (cells ref : List (List Nat)) :
    (entitiesSorted cells ref).Nodup :=
  nodup_unique _

/-- the stored entities are in strictly ascending lexicographic order
    (what `np.unique(axis=1)` returns; the facet numbering is canonical) -/
theorem C11_entities_lex_sorted (cells ref : List (List Nat)) :
    (entitiesSorted cells ref).Pairwise (· < ·) :=
  pairwise_unique _

/-- **slot specification**: the entity named by `t2f[i][k]` (resp. `t2e[i][k]`) is the sorted
    vertex tuple of the local entity `ref[i]` of cell `k`. -/
theorem C11_slot_spec (cells ref : List (List Nat)) (i k : Nat)
    (hi : i < ref.length) (hk : k < cells.length) :
    ∃ (h1 : i < (entityMapping cells ref).length)
      (h2 : k < ((entityMapping cells ref)[i]).length)
      (h3 : ((entityMapping cells ref)[i])[k] < (entitiesSorted cells ref).length),
      (entitiesSorted cells ref)[((entityMapping cells ref)[i])[k]]
        = sortCol (slotCol cells[k] ref[i]) := by
  obtain ⟨h1, h2, h3, e⟩ := entityMapping_getElem cells ref i k hi hk
  obtain ⟨hs, es⟩ := sortedIndexing_getElem cells ref i k hi hk
  obtain ⟨hu, eu⟩ := uniqueInverse_spec (sortedIndexing cells ref) (i * cells.length + k) hs
  refine ⟨h1, h2, ?_, ?_⟩
  · rw [e]; exact hu
  · simp only [e]
    exact eu.trans es

/-- the named entity has exactly the vertices of the local entity -/
theorem C11_slot_vertices (cells ref : List (List Nat)) (i k : Nat)
    (hi : i < ref.length) (hk : k < cells.length) (v : Nat) :
    v ∈ (entitiesSorted cells ref).getD (((entityMapping cells ref).getD i []).getD k 0) []
      ↔ v ∈ slotCol cells[k] ref[i] := by
  obtain ⟨h1, h2, h3, e⟩ := C11_slot_spec cells ref i k hi hk
  simp only [List.getD_eq_getElem?_getD, List.getElem?_eq_getElem h1, Option.getD_some,
    List.getElem?_eq_getElem h2, List.getElem?_eq_getElem h3, e, mem_sortCol]

/-- every stored entity is a local entity of some cell (nothing spurious) -/
theorem C11_entities_complete (cells ref : List (List Nat)) (ent : List Nat)
    (h : ent ∈ entitiesSorted cells ref) :
    ∃ slot ∈ ref, ∃ c ∈ cells, ent = sortCol (slotCol c slot) := by
  have h' : ent ∈ sortedIndexing cells ref := mem_unique.mp h
  simp only [sortedIndexing, List.mem_map] at h'
  obtain ⟨col, hcol, rfl⟩ := h'
  obtain ⟨s, hs, c, hc, rfl⟩ := mem_indexing.mp hcol
  exact ⟨s, hs, c, hc, rfl⟩

/-- every local entity of every cell is stored -/
theorem C11_entities_cover (cells ref : List (List Nat)) (slot c : List Nat)
    (hs : slot ∈ ref) (hc : c ∈ cells) :
    sortCol (slotCol c slot) ∈ entitiesSorted cells ref := by
  apply mem_unique.mpr
  simp only [sortedIndexing, List.mem_map]
  exact ⟨slotCol c slot, mem_indexing.mpr ⟨slot, hs, c, hc, rfl⟩, rfl⟩

/-- **sharing**: two slots (possibly of different cells) carry the same entity number iff their
    local entities have the same sorted vertex tuple. -/
theorem C11_same_entity_iff (cells ref : List (List Nat)) (i k i' k' : Nat)
    (hi : i < ref.length) (hk : k < cells.length) (hi' : i' < ref.length) (hk' : k' < cells.length) :
    ((entityMapping cells ref).getD i []).getD k 0 = ((entityMapping cells ref).getD i' []).getD k' 0
      ↔ sortCol (slotCol cells[k] ref[i]) = sortCol (slotCol cells[k'] ref[i']) := by
  obtain ⟨h1, h2, h3, e⟩ := C11_slot_spec cells ref i k hi hk
  obtain ⟨h1', h2', h3', e'⟩ := C11_slot_spec cells ref i' k' hi' hk'
  obtain ⟨_, _, g3, ge⟩ := entityMapping_getElem cells ref i k hi hk
  obtain ⟨_, _, g3', ge'⟩ := entityMapping_getElem cells ref i' k' hi' hk'
  obtain ⟨hs, es⟩ := sortedIndexing_getElem cells ref i k hi hk
  obtain ⟨hs', es'⟩ := sortedIndexing_getElem cells ref i' k' hi' hk'
  simp only [List.getD_eq_getElem?_getD, List.getElem?_eq_getElem h1, Option.getD_some,
    List.getElem?_eq_getElem h2, List.getElem?_eq_getElem h1', List.getElem?_eq_getElem h2']
  constructor
  · intro heq
    rw [← e, ← e']
    simp only [heq]
  · intro heq
    rw [ge, ge']
    simp only [entityOfColumn, uniqueInverse, List.getElem_map, es, es', heq]

/-- the same, for vertex renumberings: sharing is invariant under any injective renumbering
    `σ` of the vertices (`τ` a left inverse; independence of vertex numbering) -/
theorem C11_sortCol_renumber (σ τ : Nat → Nat) (hτ : ∀ x, τ (σ x) = x) (a b : List Nat) :
    (sortCol (a.map σ)).Perm (sortCol (b.map σ)) ↔ (sortCol a).Perm (sortCol b) := by
  have pa := perm_sortCol a
  have pb := perm_sortCol b
  have pa' := perm_sortCol (a.map σ)
  have pb' := perm_sortCol (b.map σ)
  constructor
  · intro h
    have h1 : (a.map σ).Perm (b.map σ) := pa'.symm.trans (h.trans pb')
    have h2 : a.Perm b := by
      have := h1.map τ
      simpa [List.map_map, Function.comp_def, hτ] using this
    exact pa.trans (h2.trans pb.symm)
  · intro h
    have h2 : a.Perm b := pa.symm.trans (h.trans pb)
    exact pa'.trans ((h2.map σ).trans pb'.symm)

/-! ### facet-to-cell table -/

/-- row 1 of `f2t` holds `-1` or a cell number; hence boundary and interior facets partition
    the facets. -/
theorem C11_boundary_interior_partition (nt : Nat) (mapping : List (List Nat)) (f : Nat)
    (hf : f < (buildInverse nt mapping).2.length) :
    (f ∈ boundaryFacets (buildInverse nt mapping).2 ∧ f ∉ interiorFacets (buildInverse nt mapping).2)
    ∨ (f ∉ boundaryFacets (buildInverse nt mapping).2 ∧ f ∈ interiorFacets (buildInverse nt mapping).2) := by
  have hlen : (buildInverse nt mapping).2.length = listMax mapping.flatten + 1 := by
    simp [buildInverse]
  have hf' : f < listMax mapping.flatten + 1 := by omega
  simp only [boundaryFacets, interiorFacets, List.mem_filter, List.mem_range, hf, true_and]
  have hval : (buildInverse nt mapping).2.getD f 0 =
      (if firstCell nt mapping.flatten f = lastCell nt mapping.flatten f then (-1 : Int)
        else (lastCell nt mapping.flatten f : Int)) := by
    simp [buildInverse, List.getD_eq_getElem?_getD, hf']
  rw [hval]
  split
  · left; simp
  · right
    constructor
    · simp
    · simp

/-- `f2t[0][f]` is a cell that names `f` in one of its slots (every stored facet has a first
    neighbour, and it really contains the facet) -/
theorem C11_f2t0_contains (nt : Nat) (hnt : 0 < nt) (mapping : List (List Nat))
    (hrows : ∀ r ∈ mapping, r.length = nt) (f : Nat) (hf : f ∈ mapping.flatten) :
    ∃ i, ∃ hi : i < mapping.length,
      ∃ hk : firstCell nt mapping.flatten f < (mapping[i]).length,
        (mapping[i])[firstCell nt mapping.flatten f] = f := by
  have hlt : mapping.flatten.idxOf f < mapping.flatten.length := List.idxOf_lt_length_of_mem hf
  have hget : mapping.flatten[mapping.flatten.idxOf f] = f := List.getElem_idxOf hlt
  have hlen := length_flatten_of_uniform mapping nt hrows
  let c := mapping.flatten.idxOf f
  have hc : c < mapping.length * nt := by rw [← hlen]; exact hlt
  have hi : c / nt < mapping.length := by
    apply Nat.div_lt_of_lt_mul; rw [Nat.mul_comm]; exact hc
  have hk : c % nt < nt := Nat.mod_lt _ hnt
  obtain ⟨h1, h2⟩ := flatten_getElem_of_uniform mapping nt hrows (c / nt) (c % nt) hi hk
  have hcd : c / nt * nt + c % nt = c := by rw [Nat.mul_comm]; exact Nat.div_add_mod c nt
  refine ⟨c / nt, hi, by rw [hrows _ (List.getElem_mem hi)]; exact hk, ?_⟩
  have : mapping.flatten[c / nt * nt + c % nt] = f := by
    simp only [hcd]; exact hget
  rw [h2] at this
  exact this

/-- `f2t[1][f]`, when it is not `-1`, is a cell that names `f` as well -/
theorem C11_f2t1_contains (nt : Nat) (hnt : 0 < nt) (mapping : List (List Nat))
    (hrows : ∀ r ∈ mapping, r.length = nt) (f : Nat) (hf : f ∈ mapping.flatten) :
    ∃ i, ∃ hi : i < mapping.length,
      ∃ hk : lastCell nt mapping.flatten f < (mapping[i]).length,
        (mapping[i])[lastCell nt mapping.flatten f] = f := by
  obtain ⟨hpos, hget⟩ := lastPos_spec mapping.flatten f hf
  obtain ⟨hi, hk, h⟩ := flat_pos_slot_cell nt hnt mapping hrows _ hpos
  exact ⟨_, hi, hk, h.trans hget⟩

/-- **facet-to-cell table, exactly**: if the facet `f` is named in at most two slots of the whole
    table (manifold hypothesis: a facet lies in at most two cells, and a cell names it once), then the
    cells naming `f` are exactly `f2t[0][f]` and (when different) `f2t[1][f]` -/
theorem C11_f2t_spec (nt : Nat) (hnt : 0 < nt) (mapping : List (List Nat))
    (hrows : ∀ r ∈ mapping, r.length = nt) (f : Nat) (hf : f ∈ mapping.flatten)
    (htwo : mapping.flatten.count f ≤ 2) (k : Nat) (hk : k < nt) :
    (∃ i, ∃ hi : i < mapping.length, (mapping[i]).getD k (f + 1) = f)
      ↔ (k = firstCell nt mapping.flatten f ∨ k = lastCell nt mapping.flatten f) := by
  constructor
  · rintro ⟨i, hi, h⟩
    have hkl : k < (mapping[i]).length := by rw [hrows _ (List.getElem_mem hi)]; exact hk
    have hval : (mapping[i])[k] = f := by
      simpa [List.getD_eq_getElem?_getD, List.getElem?_eq_getElem hkl] using h
    obtain ⟨h1, h2⟩ := flatten_getElem_of_uniform mapping nt hrows i k hi hk
    have hmod := mul_add_mod_of_lt i nt k hk
    rcases pos_first_or_last mapping.flatten f (i * nt + k) h1 (h2.trans hval) htwo with hc | hc
    · left
      rw [firstCell, ← hc, hmod]
    · right
      rw [lastCell, ← hc, hmod]
  · rintro (h | h)
    · obtain ⟨i, hi, hk', hv⟩ := C11_f2t0_contains nt hnt mapping hrows f hf
      refine ⟨i, hi, ?_⟩
      rw [h]
      simp [List.getD_eq_getElem?_getD, List.getElem?_eq_getElem hk', hv]
    · obtain ⟨i, hi, hk', hv⟩ := C11_f2t1_contains nt hnt mapping hrows f hf
      refine ⟨i, hi, ?_⟩
      rw [h]
      simp [List.getD_eq_getElem?_getD, List.getElem?_eq_getElem hk', hv]

/-- `-1` in row 1 marks exactly the facets with a single neighbour: the value is `-1` iff first and
    last naming cell coincide -/
theorem C11_f2t_boundary_iff (nt : Nat) (mapping : List (List Nat)) (f : Nat)
    (hf : f < listMax mapping.flatten + 1) :
    (buildInverse nt mapping).2.getD f 0 = -1
      ↔ firstCell nt mapping.flatten f = lastCell nt mapping.flatten f := by
  rw [buildInverse_snd_getD nt mapping f hf]
  constructor
  · intro h
    by_cases hc : firstCell nt mapping.flatten f = lastCell nt mapping.flatten f
    · exact hc
    · rw [if_neg hc] at h
      omega
  · intro h
    rw [if_pos h]

/-! ### non-vacuity: two triangles sharing an edge -/

example : buildEntities [[0, 1, 2], [1, 2, 3]] [[0, 1], [1, 2], [0, 2]] true
    = ([[0, 1], [0, 2], [1, 2], [1, 3], [2, 3]], [[0, 2], [2, 4], [1, 3]]) := by decide

example : buildInverse 2 [[0, 2], [2, 4], [1, 3]]
    = ([0, 0, 1, 1, 1], [-1, -1, 0, -1, -1]) := by decide

end Skv.C11
