import SkfemVerif.Lemmas.MeshIO
import SkfemVerif.Lemmas.Topology
/-
C17  Saving and loading a mesh round-trips geometry, connectivity and tags.

Model: `Skv.MeshIO` (Model/MeshIO.lean): `encodeBoundary` / `decodeBoundary`
(`Mesh._encode_cell_data` / the repaired `Mesh._decode_cell_data`), `decodeBoundaryOld` (the
pinned decoder, defect F4), `encodeSub` / `decodeSub`, `hexMapping` / `invPerm` / `takeRows`
(skfem/io/meshio.py) and `postInit` (`Mesh.__post_init__`).  Tied to the code by the
correspondence ops `io.encode`, `io.decode`, `io.sub`, `io.subdec`, `io.hexmap`, `io.hexrows`,
`io.postinit`, `io.npz`.

The tag theorems hold for EVERY table pair `(t2f, f2t)` that satisfies the C11 specification
`TableSpec` (any mesh class, any number of cells, any numbering) and every facet set with
legal orientation flags.
-/
namespace Skv.C17

open Skv Skv.MeshIO

/-! ### bit packing -/

/-- **bit test**: `(Σᵢ 2ⁱ mᵢ) & (1 << j) ≠ 0 ⇔ m_j`, for any number of slots -/
theorem C17_bits (m : List Bool) (j : Nat) :
    ((packBits m) &&& (1 <<< j) != 0) = m.getD j false := by
  rw [and_shift_ne_zero, testBit_packBits]

/-- the packed integer fits into `nslots` bits (≤ 6 slots: far inside the `int32` the decoder
    casts to) -/
theorem C17_bits_bound (m : List Bool) : packBits m < 2 ^ m.length := packBits_lt m

/-- every encoded cell value is below `2^nslots` -/
theorem C17_encoded_bound (t2f : List (List Nat)) (nt : Nat) (f2t : List Int × List Int)
    (fs ori : List Nat) : ∀ x ∈ encodeBoundary t2f nt f2t fs ori, x < 2 ^ t2f.length := by
  intro x hx
  obtain ⟨c, _, rfl⟩ := List.mem_map.mp hx
  have := packBits_lt ((List.range t2f.length).map
    (fun r => maskBit t2f (ownerPairs nt f2t fs ori) r c))
  simpa using this

/-! ### the specification of the tables (what C11 establishes about `t2f`, `f2t`) -/

/-- the part of the C11 specification of `(t2f, f2t)` the encoding relies on:
    `f2t[0][f]` is a cell naming `f` in one of its slots; `f2t[1][f]` is `-1` or a *different*
    cell naming `f`; the slots of one cell name distinct facets. -/
structure TableSpec (t2f : List (List Nat)) (nt : Nat) (f2t : List Int × List Int) : Prop where
  first : ∀ f, f < f2t.1.length →
    ∃ c, c < nt ∧ f2t.1.getD f 0 = (c : Int) ∧ ∃ r, r < t2f.length ∧ at2 t2f r c = f
  second : ∀ f, f < f2t.1.length → f2t.2.getD f 0 = -1 ∨
    ∃ c, c < nt ∧ f2t.2.getD f 0 = (c : Int) ∧ (c : Int) ≠ f2t.1.getD f 0
      ∧ ∃ r, r < t2f.length ∧ at2 t2f r c = f
  slots_inj : ∀ c, c < nt → ∀ r, r < t2f.length → ∀ r', r' < t2f.length →
    at2 t2f r c = at2 t2f r' c → r = r'

/-- a named boundary: duplicate-free facet indices, one flag per facet, flag 1 only where a
    second neighbour exists (interior facets) -/
structure LegalTags (f2t : List Int × List Int) (fs ori : List Nat) : Prop where
  len : fs.length = ori.length
  nodup : fs.Nodup
  range : ∀ f ∈ fs, f < f2t.1.length
  flags : ∀ fo ∈ fs.zip ori, (fo.2 = 0 ∨ fo.2 = 1) ∧ (fo.2 = 1 → f2t.2.getD fo.1 0 ≠ -1)

/-- the owner cell chosen by the encoder is a cell that names the facet, and the decoder's flag
    for (facet, owner) is the flag that chose it -/
theorem C17_owner_spec {t2f : List (List Nat)} {nt : Nat} {f2t : List Int × List Int}
    (S : TableSpec t2f nt f2t) {f o : Nat} (hf : f < f2t.1.length) (ho : o = 0 ∨ o = 1)
    (hl : o = 1 → f2t.2.getD f 0 ≠ -1) :
    ownerCell nt f2t o f < nt ∧ (∃ r, r < t2f.length ∧ at2 t2f r (ownerCell nt f2t o f) = f)
      ∧ oriFlag f2t f (ownerCell nt f2t o f) = o := by
  rcases ho with rfl | rfl
  · obtain ⟨c, hc, e, r, hr, hat⟩ := S.first f hf
    have hw : ownerCell nt f2t 0 f = c := by
      unfold ownerCell; rw [if_pos rfl, e, wrapIdx_nat]
    rw [hw]
    refine ⟨hc, ⟨r, hr, hat⟩, ?_⟩
    have h2 : f2t.2.getD f 0 ≠ (c : Int) := by
      rcases S.second f hf with h | ⟨c', _, e', hne, _⟩
      · rw [h]; omega
      · rw [e', ← e]; exact hne
    unfold oriFlag; rw [if_neg h2]; simp
  · obtain h | ⟨c', hc', e', hne, r, hr, hat⟩ := S.second f hf
    · exact absurd h (hl rfl)
    · have hw : ownerCell nt f2t 1 f = c' := by
        unfold ownerCell; rw [if_neg (by decide), e', wrapIdx_nat]
      rw [hw]
      refine ⟨hc', ⟨r, hr, hat⟩, ?_⟩
      unfold oriFlag; rw [if_pos e']; simp

/-- **encode → decode**: for every table pair satisfying the C11 specification and every facet
    set with legal orientation flags, the repaired decoder returns the facets in ascending
    order, each with its own flag: the pairs `(facet, flag)` sorted by facet. -/
theorem C17_encode_decode (t2f : List (List Nat)) (nt : Nat) (f2t : List Int × List Int)
    (S : TableSpec t2f nt f2t) (fs ori : List Nat) (L : LegalTags f2t fs ori) :
    decodeBoundary t2f f2t (encodeBoundary t2f nt f2t fs ori)
      = ((sortByFst (fs.zip ori)).map (·.1), (sortByFst (fs.zip ori)).map (·.2)) := by
  let E := encodeBoundary t2f nt f2t fs ori
  let g : Nat × Nat → Nat × Nat := fun fc => (fc.1, oriFlag f2t fc.1 fc.2)
  -- facts about tagged pairs
  have own : ∀ fo ∈ fs.zip ori,
      ownerCell nt f2t fo.2 fo.1 < nt
      ∧ (∃ r, r < t2f.length ∧ at2 t2f r (ownerCell nt f2t fo.2 fo.1) = fo.1)
      ∧ oriFlag f2t fo.1 (ownerCell nt f2t fo.2 fo.1) = fo.2 := by
    intro fo hfo
    have hmem : fo.1 ∈ fs := (List.of_mem_zip (a := fo.1) (b := fo.2) hfo).1
    exact C17_owner_spec S (L.range _ hmem) (L.flags fo hfo).1 (L.flags fo hfo).2
  -- the raw decoded pairs have pairwise distinct facets
  have hkeys : (rawPairs t2f E).Pairwise (fun a b => a.1 ≠ b.1) := by
    unfold rawPairs
    rw [List.pairwise_map]
    refine (nodup_hits t2f.length E).imp_of_mem ?_
    intro a b ha hb hne e
    apply hne
    obtain ⟨r, c⟩ := a
    obtain ⟨r', c'⟩ := b
    obtain ⟨hr, hc, fo, hfo, h1, h2⟩ := hit_iff.mp ha
    obtain ⟨hr', hc', fo', hfo', h1', h2'⟩ := hit_iff.mp hb
    simp only at e h1 h2 h1' h2'
    have e1 : fo.1 = fo'.1 := by rw [← h2, ← h2', e]
    have e2 : fo.2 = fo'.2 := by
      apply zip_snd_unique L.nodup (f := fo.1) hfo
      rw [e1]; exact hfo'
    have ec : c = c' := by rw [← h1, ← h1', e1, e2]
    subst ec
    have := S.slots_inj c hc r hr r' hr' e
    rw [this]
  have hs1 : ((sortByFst (rawPairs t2f E)).map g).Pairwise (fun a b => a.1 < b.1) := by
    rw [List.pairwise_map]
    exact strict_sortByFst hkeys
  have hs2 : (sortByFst (fs.zip ori)).Pairwise (fun a b => a.1 < b.1) :=
    strict_sortByFst (pairwise_zip_fst_ne L.nodup)
  have hmem : ∀ x, x ∈ (sortByFst (rawPairs t2f E)).map g ↔ x ∈ sortByFst (fs.zip ori) := by
    intro x
    rw [mem_sortByFst, List.mem_map]
    constructor
    · rintro ⟨fc, hfc, rfl⟩
      rw [mem_sortByFst] at hfc
      unfold rawPairs at hfc
      obtain ⟨⟨r, c⟩, hrc, rfl⟩ := List.mem_map.mp hfc
      obtain ⟨hr, hc, fo, hfo, h1, h2⟩ := hit_iff.mp hrc
      have := (own fo hfo).2.2
      rw [h1] at this
      have : g (at2 t2f r c, c) = fo := by
        simp only [g, h2, this]
      rw [this]; exact hfo
    · intro hx
      obtain ⟨hlt, ⟨r, hr, hat⟩, hflag⟩ := own x hx
      refine ⟨(x.1, ownerCell nt f2t x.2 x.1), ?_, ?_⟩
      · rw [mem_sortByFst]
        unfold rawPairs
        refine List.mem_map.mpr ⟨(r, ownerCell nt f2t x.2 x.1), ?_, ?_⟩
        · exact hit_iff.mpr ⟨hr, hlt, x, hx, rfl, hat⟩
        · simp only [hat]
      · show (x.1, oriFlag f2t x.1 (ownerCell nt f2t x.2 x.1)) = x
        rw [hflag]
  have key := eq_of_strict_of_mem_iff _ _ hs1 hs2 hmem
  unfold decodeBoundary
  simp only
  rw [← key]
  simp only [List.map_map]
  constructor


/-- what the right-hand side of `C17_encode_decode` is: a permutation of the tagged pairs
    `(facet, flag)` in strictly ascending facet order (each flag travels with its facet) -/
theorem C17_sorted_pairs_spec (fs ori : List Nat) (hn : fs.Nodup) :
    (sortByFst (fs.zip ori)).Perm (fs.zip ori)
      ∧ (sortByFst (fs.zip ori)).Pairwise (fun a b => a.1 < b.1) :=
  ⟨perm_sortByFst _, strict_sortByFst (pairwise_zip_fst_ne hn)⟩

/-- the decoded facet array is `np.sort` of the tagged facet set -/
theorem C17_decoded_facets (t2f : List (List Nat)) (nt : Nat) (f2t : List Int × List Int)
    (S : TableSpec t2f nt f2t) (fs ori : List Nat) (L : LegalTags f2t fs ori) :
    (decodeBoundary t2f f2t (encodeBoundary t2f nt f2t fs ori)).1 = sortCol fs := by
  rw [C17_encode_decode t2f nt f2t S fs ori L]
  show (sortByFst (fs.zip ori)).map (·.1) = sortCol fs
  have hp : ((sortByFst (fs.zip ori)).map (·.1)).Perm (sortCol fs) := by
    have h1 := (perm_sortByFst (fs.zip ori)).map (·.1)
    have h2 : (fs.zip ori).map (·.1) = fs := List.map_fst_zip (Nat.le_of_eq L.len)
    rw [h2] at h1
    exact h1.trans (perm_sortCol fs).symm
  refine List.Perm.eq_of_pairwise (le := (· ≤ ·)) (fun a b _ _ h1 h2 => Nat.le_antisymm h1 h2)
    ?_ (pairwise_sortCol fs) hp
  rw [List.pairwise_map]
  exact pairwise_sortByFst _

/-- the decoded pairs `(facet, flag)` are exactly the tagged pairs: same facet set, every
    facet with its own orientation flag -/
theorem C17_decoded_pairs (t2f : List (List Nat)) (nt : Nat) (f2t : List Int × List Int)
    (S : TableSpec t2f nt f2t) (fs ori : List Nat) (L : LegalTags f2t fs ori) (f o : Nat) :
    (f, o) ∈ (decodeBoundary t2f f2t (encodeBoundary t2f nt f2t fs ori)).1.zip
              (decodeBoundary t2f f2t (encodeBoundary t2f nt f2t fs ori)).2
      ↔ (f, o) ∈ fs.zip ori := by
  rw [C17_encode_decode t2f nt f2t S fs ori L]
  show (f, o) ∈ ((sortByFst (fs.zip ori)).map (·.1)).zip ((sortByFst (fs.zip ori)).map (·.2)) ↔ _
  have : ((sortByFst (fs.zip ori)).map (·.1)).zip ((sortByFst (fs.zip ori)).map (·.2))
      = sortByFst (fs.zip ori) := (List.zip_of_prod rfl rfl).symm
  rw [this, mem_sortByFst]

/-- an unoriented set (plain index array: all flags 0) comes back as a plain sorted index array:
    all decoded flags are 0, so `ori.any()` is false.  Holds for boundary AND interior facets. -/
theorem C17_unoriented (t2f : List (List Nat)) (nt : Nat) (f2t : List Int × List Int)
    (S : TableSpec t2f nt f2t) (fs : List Nat) (hn : fs.Nodup)
    (hr : ∀ f ∈ fs, f < f2t.1.length) :
    decodeBoundary t2f f2t (encodeBoundary t2f nt f2t fs (List.replicate fs.length 0))
        = (sortCol fs, List.replicate fs.length 0)
      ∧ isOriented (decodeBoundary t2f f2t
          (encodeBoundary t2f nt f2t fs (List.replicate fs.length 0))).2 = false := by
  have hz : ∀ fo ∈ fs.zip (List.replicate fs.length 0), fo.2 = 0 := by
    intro fo hfo
    exact (List.mem_replicate.mp (List.of_mem_zip (a := fo.1) (b := fo.2) hfo).2).2
  have L : LegalTags f2t fs (List.replicate fs.length 0) :=
    ⟨by simp, hn, hr, fun fo hfo => ⟨Or.inl (hz fo hfo), fun h => by rw [hz fo hfo] at h; omega⟩⟩
  have h1 := C17_decoded_facets t2f nt f2t S fs _ L
  have h2 : (decodeBoundary t2f f2t
      (encodeBoundary t2f nt f2t fs (List.replicate fs.length 0))).2
      = List.replicate fs.length 0 := by
    rw [C17_encode_decode t2f nt f2t S fs _ L]
    show (sortByFst _).map (·.2) = _
    apply List.eq_replicate_iff.mpr
    constructor
    · rw [List.length_map, (perm_sortByFst _).length_eq]
      simp
    · intro b hb
      obtain ⟨x, hx, rfl⟩ := List.mem_map.mp hb
      exact hz x (mem_sortByFst.mp hx)
  refine ⟨Prod.ext h1 h2, ?_⟩
  rw [h2]
  simp [isOriented]

/-- the decoder returns an oriented boundary iff the tagged set carried a nonzero flag -/
theorem C17_oriented_iff (t2f : List (List Nat)) (nt : Nat) (f2t : List Int × List Int)
    (S : TableSpec t2f nt f2t) (fs ori : List Nat) (L : LegalTags f2t fs ori) :
    isOriented (decodeBoundary t2f f2t (encodeBoundary t2f nt f2t fs ori)).2 = isOriented ori := by
  rw [C17_encode_decode t2f nt f2t S fs ori L]
  show isOriented ((sortByFst (fs.zip ori)).map (·.2)) = isOriented ori
  have hp : ((sortByFst (fs.zip ori)).map (·.2)).Perm ori := by
    have h1 := (perm_sortByFst (fs.zip ori)).map (·.2)
    have h2 : (fs.zip ori).map (·.2) = ori := List.map_snd_zip (Nat.le_of_eq L.len.symm)
    rw [h2] at h1
    exact h1
  unfold isOriented
  rw [Bool.eq_iff_iff, List.any_eq_true, List.any_eq_true]
  constructor
  · rintro ⟨x, hx, h⟩; exact ⟨x, hp.mem_iff.mp hx, h⟩
  · rintro ⟨x, hx, h⟩; exact ⟨x, hp.mem_iff.mpr hx, h⟩

/-! ### the pinned decoder (defect F4) and non-vacuity

Two triangles `[0,1,2]`, `[1,2,3]`: `t2f`, `f2t` as computed by `build_entities` /
`build_inverse` (C11 example).  Facet 2 is the shared edge. -/

def t2fEx : List (List Nat) := [[0, 2], [2, 4], [1, 3]]
def f2tEx : List Int × List Int := ([0, 0, 1, 1, 1], [-1, -1, 0, -1, -1])

example : buildInverse 2 t2fEx = f2tEx := by decide

/-- the hypotheses of the round-trip theorems are satisfiable -/
theorem C17_tableSpec_example : TableSpec t2fEx 2 f2tEx := ⟨by decide, by decide, by decide⟩

theorem C17_legalTags_example : LegalTags f2tEx [4, 2, 1] [0, 1, 0] :=
  ⟨by decide, by decide, by decide, by decide⟩

example : decodeBoundary t2fEx f2tEx (encodeBoundary t2fEx 2 f2tEx [4, 2, 1] [0, 1, 0])
    = ([1, 2, 4], [0, 1, 0]) := by decide

/-- **F4**: the pinned decoder sorts the facets but leaves the owner cells in row-major order.
    The *unoriented* set {1, 2} (cell data `[4, 1]`) comes back with a spurious orientation
    flag on facet 2; the oriented set {1, 2, 4} with flag 1 on the interior facet 2 comes back
    with the flag lost.  The repaired decoder returns both unchanged. -/
theorem C17_decode_old_counterexample :
    encodeBoundary t2fEx 2 f2tEx [1, 2] [0, 0] = [4, 1]
    ∧ decodeBoundaryOld t2fEx f2tEx [4, 1] = ([1, 2], [0, 1])
    ∧ decodeBoundary t2fEx f2tEx [4, 1] = ([1, 2], [0, 0])
    ∧ encodeBoundary t2fEx 2 f2tEx [1, 2, 4] [0, 1, 0] = [6, 2]
    ∧ decodeBoundaryOld t2fEx f2tEx [6, 2] = ([1, 2, 4], [0, 0, 0])
    ∧ decodeBoundary t2fEx f2tEx [6, 2] = ([1, 2, 4], [0, 1, 0]) := by decide

/-! ### the tables built by `Mesh.build_inverse` satisfy the specification -/

/-- **link to C11**: for every slot table `t2f` with `nt > 0` columns whose facet numbers are
    contiguous (C11: `entityMapping` numbers the entities `0..nf-1`) and whose cells name
    distinct facets in distinct slots (C11_same_entity_iff), the pair
    `(t2f, build_inverse(t2f))` satisfies `TableSpec`. -/
theorem C17_tables_of_buildInverse (nt : Nat) (hnt : 0 < nt) (mapping : List (List Nat))
    (hrows : ∀ r ∈ mapping, r.length = nt)
    (hsurj : ∀ f, f < listMax mapping.flatten + 1 → f ∈ mapping.flatten)
    (hinj : ∀ c, c < nt → ∀ r, r < mapping.length → ∀ r', r' < mapping.length →
      at2 mapping r c = at2 mapping r' c → r = r') :
    TableSpec mapping nt (buildInverse nt mapping) := by
  have hlen1 : (buildInverse nt mapping).1.length = listMax mapping.flatten + 1 := by
    simp [buildInverse]
  have first_val : ∀ f, f < listMax mapping.flatten + 1 →
      (buildInverse nt mapping).1.getD f 0 = (firstCell nt mapping.flatten f : Int) := by
    intro f hf
    simp [buildInverse, List.getD_eq_getElem?_getD, hf]
  have second_val : ∀ f, f < listMax mapping.flatten + 1 →
      (buildInverse nt mapping).2.getD f 0 =
        (if firstCell nt mapping.flatten f = lastCell nt mapping.flatten f then (-1 : Int)
          else (lastCell nt mapping.flatten f : Int)) := by
    intro f hf
    simp [buildInverse, List.getD_eq_getElem?_getD, hf]
  have hfirst : ∀ f, f ∈ mapping.flatten → firstCell nt mapping.flatten f < nt ∧
      ∃ r, r < mapping.length ∧ at2 mapping r (firstCell nt mapping.flatten f) = f := by
    intro f hf
    have hlt : mapping.flatten.idxOf f < mapping.flatten.length := List.idxOf_lt_length_of_mem hf
    obtain ⟨h1, h2⟩ := at2_of_flat_pos nt hnt mapping hrows _ hlt
    refine ⟨Nat.mod_lt _ hnt, _, h1, ?_⟩
    rw [firstCell, h2]
    exact List.getElem_idxOf hlt
  have hlast : ∀ f, f ∈ mapping.flatten → lastCell nt mapping.flatten f < nt ∧
      ∃ r, r < mapping.length ∧ at2 mapping r (lastCell nt mapping.flatten f) = f := by
    intro f hf
    have hj : mapping.flatten.reverse.idxOf f < mapping.flatten.reverse.length :=
      List.idxOf_lt_length_of_mem (List.mem_reverse.mpr hf)
    have hget : mapping.flatten.reverse[mapping.flatten.reverse.idxOf f] = f :=
      List.getElem_idxOf hj
    rw [List.getElem_reverse] at hget
    have hpos : mapping.flatten.length - 1 - mapping.flatten.reverse.idxOf f
        < mapping.flatten.length := by
      rw [List.length_reverse] at hj; omega
    obtain ⟨h1, h2⟩ := at2_of_flat_pos nt hnt mapping hrows _ hpos
    refine ⟨Nat.mod_lt _ hnt, _, h1, ?_⟩
    rw [lastCell, h2]
    exact hget
  refine ⟨?_, ?_, hinj⟩
  · intro f hf
    rw [hlen1] at hf
    obtain ⟨h1, r, hr, h2⟩ := hfirst f (hsurj f hf)
    exact ⟨_, h1, first_val f hf, r, hr, h2⟩
  · intro f hf
    rw [hlen1] at hf
    rw [second_val f hf, first_val f hf]
    by_cases h : firstCell nt mapping.flatten f = lastCell nt mapping.flatten f
    · left; rw [if_pos h]
    · right
      rw [if_neg h]
      obtain ⟨h1, r, hr, h2⟩ := hlast f (hsurj f hf)
      refine ⟨_, h1, rfl, ?_, r, hr, h2⟩
      intro e
      exact h (Int.ofNat_inj.mp e).symm

/-! ### subdomains -/

/-- **subdomain round trip**: the decoded indicator lists, in ascending order and once each,
    exactly the tagged cells -/
theorem C17_subdomain_indicator (nt : Nat) (s : List Nat) (hs : ∀ c ∈ s, c < nt) :
    (decodeSub (encodeSub nt s)).Pairwise (· < ·)
      ∧ ∀ c, c ∈ decodeSub (encodeSub nt s) ↔ c ∈ s := by
  rw [decodeSub_encodeSub]
  refine ⟨List.pairwise_lt_range.filter _, ?_⟩
  intro c
  simp only [List.mem_filter, List.mem_range, List.contains_iff_mem]
  exact ⟨fun h => h.2, fun h => ⟨hs c h, h⟩⟩

/-- for the ascending index arrays the library stores: the identity -/
theorem C17_subdomain_roundtrip (nt : Nat) (s : List Nat) (hs : ∀ c ∈ s, c < nt)
    (hsorted : s.Pairwise (· < ·)) : decodeSub (encodeSub nt s) = s := by
  obtain ⟨h1, h2⟩ := C17_subdomain_indicator nt s hs
  refine List.Perm.eq_of_pairwise (le := (· < ·)) (fun a b _ _ h h' => by omega) h1 hsorted ?_
  exact (List.perm_ext_iff_of_nodup (h1.imp Nat.ne_of_lt) (hsorted.imp Nat.ne_of_lt)).mpr h2

example : decodeSub (encodeSub 5 [3, 1]) = [1, 3] := by decide

/-! ### hexahedron vertex permutation -/

/-- `INV_HEX_MAPPING` as computed by the list comprehension of skfem/io/meshio.py -/
theorem C17_hex_inv_table : invHexMapping =
    [0, 4, 3, 1, 7, 5, 2, 6, 16, 11, 8, 15, 12, 19, 10, 17, 9, 14, 13, 18,
     20, 24, 22, 23, 25, 21, 26] := by decide

/-- `HEX_MAPPING` and `INV_HEX_MAPPING` are mutually inverse permutations of `0..26`, and their
    first 8 entries mutually inverse permutations of `0..7` -/
theorem C17_hex_perm :
    (∀ i, i < 27 → hexMapping.getD (invHexMapping.getD i 0) 0 = i)
    ∧ (∀ i, i < 27 → invHexMapping.getD (hexMapping.getD i 0) 0 = i)
    ∧ (∀ i, i < 8 → hexMapping.getD i 0 < 8 ∧ invHexMapping.getD i 0 < 8)
    ∧ hexMapping.length = 27 ∧ invHexMapping.length = 27 := by decide

/-- export then import of the rows of `t`: `t[HEX_MAPPING][INV_HEX_MAPPING] = t` for every
    27-row array (`MeshHex2`) -/
theorem C17_hex_roundtrip27 {α : Type} [Inhabited α] (t : List α) (ht : t.length = 27) :
    takeRows (takeRows t hexMapping) invHexMapping = t := by
  apply List.ext_getElem
  · simp [takeRows, invHexMapping, invPerm, hexMapping, ht]
  · intro i h1 h2
    have hi : i < 27 := by rw [ht] at h2; exact h2
    have hlen : invHexMapping.length = 27 := C17_hex_perm.2.2.2.2
    have key := C17_hex_perm.1 i hi
    have hj : invHexMapping.getD i 0 < 27 := by
      have : ∀ i, i < 27 → invHexMapping.getD i 0 < 27 := by decide
      exact this i hi
    simp only [takeRows, List.getElem_map]
    have e1 : invHexMapping[i]'(by rw [hlen]; exact hi) = invHexMapping.getD i 0 := by
      simp [List.getD_eq_getElem?_getD, hlen, hi]
    rw [e1]
    have e2 : (List.map (fun i => t.getD i default) hexMapping).getD (invHexMapping.getD i 0) default
        = t.getD (hexMapping.getD (invHexMapping.getD i 0) 0) default := by
      have hl : hexMapping.length = 27 := C17_hex_perm.2.2.2.1
      exact getD_map_of_lt _ hexMapping _ default 0 (by rw [hl]; exact hj)
    rw [e2, key]
    simp [List.getD_eq_getElem?_getD, h2]

/-- the same for the 8 vertex rows (`MeshHex1`): `t[HEX_MAPPING[:8]][INV_HEX_MAPPING[:8]] = t` -/
theorem C17_hex_roundtrip8 {α : Type} [Inhabited α] (t : List α) (ht : t.length = 8) :
    takeRows (takeRows t (hexMapping.take 8)) (invHexMapping.take 8) = t := by
  match t, ht with
  | [a0, a1, a2, a3, a4, a5, a6, a7], _ => rfl


/-! ### high-order meshes: `__post_init__ ∘ to_meshio` is the identity -/

/-- `to_meshio` writes the points in `Dofs` order (`p = doflocs`) and the connectivity
    `tFull = dofs.element_dofs` (the `M` vertex rows followed by the rows of the extra nodes).
    When such a file is read, `__post_init__` re-derives vertex numbers and scatters the extra
    nodes to the positions given by `Dofs` of the new vertex connectivity.  If every vertex
    number `0..nv-1` is used by a cell and every extra node by some row, the result is the
    original `(t, doflocs)`: nothing is renumbered or moved.  `dofs` is ANY deterministic map
    from the vertex connectivity to `element_dofs` (the library's `Dofs`), `hdofs` says the file
    was written from it. -/
theorem C17_high_order_reorder {α : Type} [Inhabited α] (zero : α) (M nt nv : Nat) (p : List α)
    (tFull : List (List Nat)) (dofs : List (List Nat) → List (List Nat))
    (hdofs : dofs (tFull.take M) = tFull)
    (hverts : unique (tFull.take M).flatten = List.range nv)
    (hN : p.length = listMax tFull.flatten + 1)
    (hnv : nv ≤ p.length)
    (hshape : ∀ r ∈ tFull.drop M, r.length = nt)
    (hcover : ∀ j, nv ≤ j → j < p.length → j ∈ (tFull.drop M).flatten) :
    postInit zero M nt p tFull dofs = (tFull.take M, p) := by
  -- the rank map is the identity
  have hT : (tFull.take M).map (fun row => row.map
      (fun v => (unique (tFull.take M).flatten).idxOf v)) = tFull.take M := by
    rw [hverts]
    conv => rhs; rw [← List.map_id (tFull.take M)]
    apply List.map_congr_left
    intro row hrow
    conv => rhs; rw [id, ← List.map_id row]
    apply List.map_congr_left
    intro v hv
    have : v ∈ unique (tFull.take M).flatten :=
      mem_unique.mpr (List.mem_flatten.mpr ⟨row, hrow, hv⟩)
    rw [hverts, List.mem_range] at this
    exact idxOf_range this
  unfold postInit
  simp only [hT, hdofs]
  congr 1
  rw [hverts, List.length_range, ← hN]
  apply List.ext_getElem?
  intro i
  rw [scatter_map_getElem? (fun v => p.getD v default)]
  have hlen : ((List.range nv).map (fun v => p.getD v default)
      ++ List.replicate (p.length - nv) zero).length = p.length := by
    simp; omega
  rw [hlen]
  by_cases hi : i < p.length
  · have hpi : p[i]? = some (p.getD i default) := by
      simp [List.getD_eq_getElem?_getD, hi]
    by_cases hJ : i ∈ flattenF nt (tFull.drop M)
    · rw [if_pos ⟨hJ, hi⟩, hpi]
    · rw [if_neg (fun h => hJ h.1), hpi]
      have hlt : i < nv := by
        apply Classical.byContradiction
        intro hge
        exact hJ (mem_flattenF_of_mem_flatten hshape (hcover i (by omega) hi))
      rw [List.getElem?_append_left (by simpa using hlt)]
      simp [hlt]
  · rw [if_neg (fun h => hi h.2)]
    have : p[i]? = none := by simp; omega
    rw [this]
    simp; omega

/-- non-vacuity: two quadratic triangles (4 vertices, 5 edge nodes) -/
example : postInit (0 : Nat) 3 2 [10, 11, 12, 13, 14, 15, 16, 17, 18]
    [[0, 1], [1, 2], [2, 3], [4, 6], [6, 8], [5, 7]] (fun _ => [[0, 1], [1, 2], [2, 3], [4, 6], [6, 8], [5, 7]])
    = ([[0, 1], [1, 2], [2, 3]], [10, 11, 12, 13, 14, 15, 16, 17, 18]) := by decide

/-- a file in another node order (extra nodes listed before the vertices) IS re-ordered:
    vertices first, extra nodes where `Dofs` puts them -/
example : postInit (0 : Nat) 3 1 [14, 15, 16, 10, 11, 12]
    [[3], [4], [5], [0], [1], [2]] (fun _ => [[0], [1], [2], [3], [4], [5]])
    = ([[0], [1], [2]], [10, 11, 12, 14, 15, 16]) := by decide

example : TableSpec t2fEx 2 (buildInverse 2 t2fEx) :=
  C17_tables_of_buildInverse 2 (by decide) t2fEx (by decide) (by decide) (by decide)


/-! ### NumPy archive: the key scheme separates the tags again -/

/-- **npz round trip of the tag directory**: for all boundary names (any characters, each
    name once) with their oriented/plain kind and all subdomain names, `load_npz` recovers
    exactly the saved names, in order, each boundary with its kind; `doflocs` and `t` are never
    mistaken for tags, and `b_`, `o_`, `s_` keys never for one another. -/
theorem C17_npz_keys_roundtrip (bnd : List (Key × Bool)) (sub : List Key)
    (hn : (bnd.map (·.1)).Nodup) : npzLoad (npzKeys bnd sub) = (bnd, sub) := by
  unfold npzLoad
  apply Prod.ext
  · show List.map _ (List.filter _ (npzKeys bnd sub)) = bnd
    have hf : (npzKeys bnd sub).filter (fun k => k.take 2 == ['b', '_'])
        = bnd.map (fun b => 'b' :: '_' :: b.1) := by
      unfold npzKeys
      rw [List.filter_append, List.filter_append, List.filter_append,
        filter_map_all _ _ _ (by intro x; simp),
        filter_map_none _ _ _ (by intro x; simp),
        filter_map_none _ _ _ (by intro x; simp)]
      simp
    rw [hf, List.map_map]
    conv => rhs; rw [← List.map_id bnd]
    apply List.map_congr_left
    intro b hb
    simp only [Function.comp, List.drop_succ_cons, List.drop_zero, id]
    apply Prod.ext (by rfl)
    show (npzKeys bnd sub).contains ('o' :: '_' :: b.1) = b.2
    rw [Bool.eq_iff_iff, List.contains_iff_mem]
    unfold npzKeys
    simp only [List.mem_append, List.mem_map, List.mem_filter, List.mem_cons, List.not_mem_nil,
      or_false, List.cons.injEq, reduceCtorEq, false_and, and_false, exists_false,
      Char.reduceEq, true_and, false_or]
    constructor
    · rintro ⟨b', ⟨hb', h2⟩, e⟩
      have : b' = b := by
        exact inj_of_nodup_map (·.1) hn hb' hb e
      rw [← this]; exact h2
    · intro h
      exact ⟨b, ⟨hb, h⟩, rfl⟩
  · show List.map _ (List.filter _ (npzKeys bnd sub)) = sub
    have hf : (npzKeys bnd sub).filter (fun k => k.take 2 == ['s', '_'])
        = sub.map (fun s => 's' :: '_' :: s) := by
      unfold npzKeys
      rw [List.filter_append, List.filter_append, List.filter_append,
        filter_map_none _ _ _ (by intro x; simp),
        filter_map_none _ _ _ (by intro x; simp),
        filter_map_all _ _ _ (by intro x; simp)]
      simp
    rw [hf, List.map_map]
    conv => rhs; rw [← List.map_id sub]
    apply List.map_congr_left
    intro s _
    simp

example : npzLoad (npzKeys [("s_x".toList, true), ("t".toList, false)] ["b_".toList, "".toList])
    = ([("s_x".toList, true), ("t".toList, false)], ["b_".toList, "".toList]) := by decide

end Skv.C17
