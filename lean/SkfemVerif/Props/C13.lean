import SkfemVerif.Model.RefineAdaptive
import SkfemVerif.Lemmas.RefineAdaptive
import SkfemVerif.Lemmas.RefineGeom
/-
C13  Adaptive refinement: conforming, domain-preserving for every marked set.

Model: Model/RefineAdaptive.lean.  Tie: driver ops `refine.tri` (sorting, closure, templates, cell
order, `new_t`, new points, compared EXACTLY with `MeshTri1._adaptive` and its three stages),
`refine.line`, `refine.tet.step`, `refine.check` (certificates rebuilt from the implementation's
output on every run).

What is proved, for ALL meshes / marked sets:
* triangles (full at the level of the index algebra and of the reference cell): the marking loop
  reaches the least fixpoint within `nfacets + 1` passes; at the fixpoint every cell is in exactly
  one of the five masks (no cell is dropped); marked cells are red; the decision to split a facet
  and the vertex created on it depend on the FACET only (both neighbours agree); each template
  tiles the reference triangle and meets each side in the whole side or its two halves;
  the `new_t` arithmetic is a bijection between (old cell, child number) and new cell indices;
  new points are the midpoints of the marked facets, old points keep their index.
* segments (full): cells, points and index map of `MeshLine1._adaptive` (+ counterexample for the
  pinned index map, finding F6).
* tetrahedra (partial): one bisection step halves the signed volume and covers the cell; the
  certificate checker `checkRefinement` is sound for: old vertices keep index and position, the
  new cells are exactly the leaves of bisection trees of the old cells (each new cell in exactly
  one old cell), every point of an old cell lies in one of its new cells and vice versa, leaf
  volumes are `2^-depth` of the old cell's (no degenerate or inverted cell), marked cells are
  bisected, no new cell contains both ends of a bisected edge (the exit condition of the worklist).
  NOT proved: termination of the worklist of `MeshTet1._adaptive`, and the step from the exit
  condition to geometric conformity (checked exactly by the search layer instead).
-/
set_option linter.unusedSectionVars false
set_option linter.unusedSimpArgs false
namespace Skv.C13
open Skv Skv.RA

/-! ## Triangles -/

/-- `_adaptive_sort_mesh` permutes the three vertices of every cell -/
theorem C13_sort_is_permutation {α : Type} [LT α] [DecidableLT α] (q01 q12 q02 : α) (c : Tri) :
    [(sortTri q01 q12 q02 c).1, (sortTri q01 q12 q02 c).2.1, (sortTri q01 q12 q02 c).2.2].Perm
      [c.1, c.2.1, c.2.2] :=
  sortTri_perm q01 q12 q02 c

/-- after sorting, the edge in slot 2 (local vertices 0, 2) is a longest edge — except for the
    tie `|01| = |12| > |02|`, which the strict comparisons of the code leave unsorted (this affects
    the shape of the children only, none of the statements below depends on it) -/
theorem C13_sort_longest {α : Type} [LinearOrder α] (len : Nat → Nat → α) (hsym : ∀ x y, len x y = len y x)
    (c : Tri) (htie : ¬ (len c.1 c.2.1 = len c.2.1 c.2.2 ∧ len c.1 c.2.2 < len c.1 c.2.1)) :
    len (sortTri (len c.1 c.2.1) (len c.2.1 c.2.2) (len c.1 c.2.2) c).1
        (sortTri (len c.1 c.2.1) (len c.2.1 c.2.2) (len c.1 c.2.2) c).2.1
      ≤ len (sortTri (len c.1 c.2.1) (len c.2.1 c.2.2) (len c.1 c.2.2) c).1
        (sortTri (len c.1 c.2.1) (len c.2.1 c.2.2) (len c.1 c.2.2) c).2.2
    ∧ len (sortTri (len c.1 c.2.1) (len c.2.1 c.2.2) (len c.1 c.2.2) c).2.1
        (sortTri (len c.1 c.2.1) (len c.2.1 c.2.2) (len c.1 c.2.2) c).2.2
      ≤ len (sortTri (len c.1 c.2.1) (len c.2.1 c.2.2) (len c.1 c.2.2) c).1
        (sortTri (len c.1 c.2.1) (len c.2.1 c.2.2) (len c.1 c.2.2) c).2.2 := by
  unfold sortTri
  split
  · rename_i h
    simp only
    rw [hsym c.2.2 c.2.1]
    exact ⟨le_of_lt h.1, le_of_lt h.2⟩
  · split
    · rename_i h1 h
      simp only
      rw [hsym c.2.1 c.1]
      exact ⟨le_of_lt h.1, le_of_lt h.2⟩
    · rename_i h1 h2
      simp only [not_and, not_lt] at h1 h2 htie
      -- a = |01|, b = |12|, c = |02|;  h1 : c < a → a ≤ b,  h2 : a < b → b ≤ c,  htie : a = b → a ≤ c
      constructor
      · by_contra hc
        rw [not_le] at hc
        rcases lt_or_eq_of_le (h1 hc) with h4 | h4
        · exact lt_irrefl _ (lt_of_lt_of_le (lt_trans hc h4) (h2 h4))
        · exact lt_irrefl _ (lt_of_lt_of_le hc (htie h4))
      · by_contra hc
        rw [not_le] at hc
        rcases lt_trichotomy (len c.1 c.2.1) (len c.2.1 c.2.2) with h5 | h5 | h5
        · exact lt_irrefl _ (lt_of_lt_of_le hc (h2 h5))
        · exact lt_irrefl _ (lt_of_lt_of_le hc (h5 ▸ htie h5))
        · exact lt_irrefl _ (lt_of_lt_of_le h5 (h1 (lt_trans hc h5)))

/-- the excluded tie really is left with a non-longest edge in slot 2 (squared lengths 4, 4, 1) -/
example : sortTri (4 : Nat) 4 1 (7, 8, 9) = (7, 8, 9) := by decide

/-- **the marking loop terminates in a fixpoint**: with `nfacets + 1` passes of fuel (the loop
    needs at most that many, since every non-final pass marks a new facet) the result `r` satisfies
    `step r = r`; it has one entry per facet -/
theorem C13_rgb_closure_terminates (t2f : List Tri) (nf : Nat) (marked : List Nat) :
    step t2f (findFacets t2f nf marked) = findFacets t2f nf marked
      ∧ (findFacets t2f nf marked).length = nf := by
  have hlen : (initMarks t2f nf marked).length = nf := by simp [initMarks]
  refine ⟨closure_fix t2f (nf + 1) _ (by rw [hlen]; omega), ?_⟩
  unfold findFacets
  rw [closure_length, hlen]

/-- more fuel changes nothing: the loop has really stopped -/
theorem C13_rgb_closure_stable (t2f : List Tri) (nf : Nat) (marked : List Nat) (extra : Nat) :
    closure extra t2f (findFacets t2f nf marked) = findFacets t2f nf marked := by
  have hfix := (C13_rgb_closure_terminates t2f nf marked).1
  induction extra with
  | zero => rfl
  | succ n _ =>
    unfold closure
    rw [hfix]
    simp

/-- **the result is the LEAST closed set containing the facets of the marked cells**: it contains
    them, and it is contained in every set `S` that contains them and is closed under the rule
    "slot 0 or slot 1 marked ⇒ slot 2 marked" (no facet is split without need) -/
theorem C13_rgb_closure_least (t2f : List Tri) (nf : Nat) (marked : List Nat) :
    (∀ f, get (initMarks t2f nf marked) f = true → get (findFacets t2f nf marked) f = true)
    ∧ ∀ S : Nat → Prop, Closed t2f S → (∀ f, get (initMarks t2f nf marked) f = true → S f) →
        ∀ f, get (findFacets t2f nf marked) f = true → S f :=
  ⟨fun f h => closure_extends t2f _ _ f h, fun S hS hinit f hf => closure_sub t2f S hS _ _ hinit f hf⟩

/-- **admissible patterns**: at the fixpoint every cell (with facet numbers `< nf`) has one of the
    five patterns none / {2} / {1,2} / {0,2} / {0,1,2}, i.e. it is in exactly one of the masks
    `rest, green, blue1, blue2, red` and never in none of them (`bad`: the cell would vanish) -/
theorem C13_rgb_patterns (t2f : List Tri) (nf : Nat) (marked : List Nat) (c : Tri) (hc : c ∈ t2f)
    (hlt : c.2.2 < nf) :
    clsOf (findFacets t2f nf marked) c ≠ .bad
    ∧ (clsOf (findFacets t2f nf marked) c = .rest ∨ clsOf (findFacets t2f nf marked) c = .green
        ∨ clsOf (findFacets t2f nf marked) c = .blue1 ∨ clsOf (findFacets t2f nf marked) c = .blue2
        ∨ clsOf (findFacets t2f nf marked) c = .red) := by
  obtain ⟨hfix, hlen⟩ := C13_rgb_closure_terminates t2f nf marked
  have hne : clsOf (findFacets t2f nf marked) c ≠ .bad := by
    unfold clsOf
    apply classify_ne_bad
    intro h
    exact fix_closed t2f _ hfix c hc (by rw [hlen]; exact hlt) h
  refine ⟨hne, ?_⟩
  cases h : clsOf (findFacets t2f nf marked) c <;> simp_all

/-- the pinned loop without the closure (marks of the marked cells only) does produce cells that
    are in none of the masks: two cells sharing facet 0, which is slot 0 of the unmarked one -/
theorem C13_rgb_patterns_need_closure :
    clsOf (initMarks [(0, 1, 2), (0, 3, 4)] 5 [0]) (0, 3, 4) = .bad
      ∧ clsOf (findFacets [(0, 1, 2), (0, 3, 4)] 5 [0]) (0, 3, 4) = .blue2 := by
  decide

/-- **every marked cell is refined red** (facet numbers `< nf`) -/
theorem C13_marked_refined (t2f : List Tri) (nf : Nat) (marked : List Nat) (k : Nat) (hk : k ∈ marked)
    (c : Tri) (hc : t2f[k]? = some c) (h0 : c.1 < nf) (h1 : c.2.1 < nf) (h2 : c.2.2 < nf) :
    clsOf (findFacets t2f nf marked) c = .red := by
  unfold clsOf
  rw [classify_red]
  have hi := (C13_rgb_closure_least t2f nf marked).1
  refine ⟨hi _ ?_, hi _ ?_, hi _ ?_⟩
  · exact (get_initMarks t2f nf marked _).2 ⟨h0, k, hk, c, hc, Or.inl rfl⟩
  · exact (get_initMarks t2f nf marked _).2 ⟨h1, k, hk, c, hc, Or.inr (Or.inl rfl)⟩
  · exact (get_initMarks t2f nf marked _).2 ⟨h2, k, hk, c, hc, Or.inr (Or.inr rfl)⟩

/-- **conformity across a facet**: two cells `(c, f)`, `(c', f')` (vertices, facet numbers) that
    see the same facet in their slots `s`, `s'` take the same decision — both templates split that
    side or neither does — and, when they split it, both use the same new vertex `midIdx … facet`.
    (The decision is a function of the FACET number alone.) -/
theorem C13_rgb_conforming (nv : Nat) (m : List Bool) (c f c' f' : Tri) (s s' : Nat) (hs : s < 3) (hs' : s' < 3)
    (hshare : slot f s = slot f' s') (hcl : clsOf m f ≠ .bad) (hcl' : clsOf m f' ≠ .bad) :
    sideMarked (clsOf m f) s = sideMarked (clsOf m f') s'
    ∧ sideMarked (clsOf m f) s = get m (slot f s)
    ∧ resolve nv m c f (sideRV s).2.1 = resolve nv m c' f' (sideRV s').2.1 := by
  refine ⟨?_, sideMarked_clsOf m f s hs hcl, ?_⟩
  · rw [sideMarked_clsOf m f s hs hcl, sideMarked_clsOf m f' s' hs' hcl', hshare]
  · rw [resolve_mid, resolve_mid, hshare]

/-- **trace of the templates on the sides of the parent**: for each of the five classes and each
    side, the child edges lying on that side are exactly the whole side `(a,b)` when its facet is not
    marked, and exactly the two halves `(a,m)`, `(m,b)` when it is (`traceOK`, evaluated on the
    template tables that also drive the executable model).  With `C13_rgb_conforming` and
    `C13_rgb_template_partition` this is conformity: the two triangulations induced on a shared
    facet coincide. -/
theorem C13_rgb_side_trace : ∀ cl ∈ [Cls.rest, .red, .blue1, .blue2, .green], ∀ s ∈ [0, 1, 2],
    traceOK cl s = true :=
  traceOK_all

/-- new vertices created for different marked facets are different and lie beyond the old ones;
    a child vertex is either a parent vertex or such a new vertex -/
theorem C13_rgb_new_vertices (nv : Nat) (m : List Bool) (f g : Nat) (hf : f < m.length) (hg : g < m.length)
    (hmf : get m f = true) (hmg : get m g = true) :
    nv ≤ midIdx nv m f ∧ (midIdx nv m f = midIdx nv m g → f = g) :=
  ⟨midIdx_ge nv m f, midIdx_inj nv m f g hf hg hmf hmg⟩

section Geo
variable {K : Type} [Field K] [LinearOrder K] [IsStrictOrderedRing K]

/-- **every template is an exact partition of the parent** (reference triangle `(0,0),(1,0),(0,1)`
    over any ordered field; affine maps carry it to every non-degenerate cell): the children cover
    the parent, lie inside it, have pairwise disjoint interiors and are not degenerate -/
theorem C13_rgb_template_partition (cl : Cls) (hcl : cl ≠ .bad) :
    (∀ u v : K, inParent u v → ∃ T ∈ template cl, inClosed T u v)
    ∧ (∀ T ∈ template cl, ∀ u v : K, inClosed T u v → inParent u v)
    ∧ (template cl).Pairwise (fun T T' => ∀ u v : K, ¬ (inOpen T u v ∧ inOpen T' u v))
    ∧ (∀ T ∈ template cl, orient (K := K) T.1 T.2.1 (rvx T.2.2) (rvy T.2.2) ≠ 0) :=
  ⟨fun u v h => template_cover cl hcl u v h, fun T hT u v h => template_inside cl T hT u v h,
    template_disjoint cl, fun T hT => template_nondegenerate cl T hT⟩

end Geo

/-- **`new_t` lists exactly the children**: child `j` of old cell `k` (template of the cell's class,
    resolved with the cell's vertices and the new vertices of its facets) is the new cell number
    `childIdx k j` = `new_t[j, k]` -/
theorem C13_rgb_children (x : TriInput) (k j : Nat) (hk : k < x.cls.length)
    (hcl : x.cls.getD k .bad ≠ .bad) (hj : j < (template (x.cls.getD k .bad)).length) :
    x.newCells[x.childIdx k j]? = some (x.child (x.cls.getD k .bad) j k) :=
  newCells_childIdx x k j hk hcl hj

/-- … and every new cell is such a child: the parent map is onto -/
theorem C13_rgb_parent (x : TriInput) (i : Nat) (hi : i < x.newCells.length) :
    ∃ k j, k < x.cls.length ∧ x.cls.getD k .bad ≠ .bad ∧ j < (template (x.cls.getD k .bad)).length
      ∧ x.childIdx k j = i :=
  newCells_parent x i hi

/-- **named subdomains**: the new index array of a subdomain lists exactly the children of its
    cells, ascending without repetition -/
theorem C13_rgb_subdomains (x : TriInput) (ixs : List Nat) :
    (∀ i, i ∈ x.subdomain ixs ↔ ∃ k ∈ ixs, ∃ j, j < (template (x.cls.getD k .bad)).length ∧ i = x.childIdx k j)
    ∧ (x.subdomain ixs).Pairwise (· < ·) := by
  refine ⟨fun i => ?_, pairwise_unique _⟩
  unfold TriInput.subdomain TriInput.childIdxs
  rw [mem_unique]
  simp only [List.mem_flatMap, List.mem_map, List.mem_range]
  constructor
  · rintro ⟨k, hk, j, hj, rfl⟩
    exact ⟨k, hk, j, hj, rfl⟩
  · rintro ⟨k, hk, j, hj, rfl⟩
    exact ⟨k, hk, j, hj, rfl⟩

/-- **points**: old points keep their index; the vertex `midIdx` of a marked facet is the midpoint
    of its end points; the number of points grows by the number of marked facets -/
theorem C13_rgb_points {P : Type} (midp : P → P → P) (d : P) (p : List P) (facets : List (Nat × Nat))
    (m : List Bool) :
    (∀ i, i < p.length → (newPoints midp d p facets m)[i]? = p[i]?)
    ∧ (∀ f, f < m.length → get m f = true →
        (newPoints midp d p facets m)[midIdx p.length m f]? =
          some (midp (p.getD (facets.getD f (0, 0)).1 d) (p.getD (facets.getD f (0, 0)).2 d)))
    ∧ (newPoints midp d p facets m).length = p.length + countTrue m :=
  ⟨fun i hi => newPoints_old midp d p facets m i hi, fun f hf hm => newPoints_mid midp d p facets m f hf hm,
    length_newPoints midp d p facets m⟩

/-! ## Segments -/

/-- **cells of `MeshLine1._adaptive`** (`marked` without repetition): an unmarked cell is copied to
    its rank among the unmarked cells; the `i`-th marked cell `(a,b)` becomes `(a, mid0+i)` and
    `(mid0+i, b)` at the two positions listed by `lineChildIdxs`; there are `nt + #marked` cells -/
theorem C13_line_children (mid0 : Nat) (t : List Seg) (marked : List Nat) (hnd : marked.Nodup) :
    (∀ k, k < t.length → k ∉ marked →
      (lineChildIdxs t.length marked k).map (fun i => (lineCells mid0 t marked)[i]?) = [some (t.getD k (0, 0))])
    ∧ (∀ i (hi : i < marked.length),
      (lineChildIdxs t.length marked marked[i]).map (fun i => (lineCells mid0 t marked)[i]?)
        = [some ((t.getD marked[i] (0, 0)).1, mid0 + i), some (mid0 + i, (t.getD marked[i] (0, 0)).2)])
    ∧ (lineCells mid0 t marked).length = (nonmarked t.length marked).length + 2 * marked.length := by
  refine ⟨fun k hk hm => ?_, fun i hi => ?_, length_lineCells mid0 t marked⟩
  · rw [lineChildIdxs_unmarked _ _ k hm]
    simp only [List.map_cons, List.map_nil]
    rw [lineCells_unmarked mid0 t marked k hk hm]
  · rw [lineChildIdxs_marked _ _ hnd i hi]
    obtain ⟨h1, h2⟩ := lineCells_marked mid0 t marked i hi
    simp only [List.map_cons, List.map_nil]
    rw [h1, h2]

/-- **points**: old points keep their index, the new point `p.length + i` is the midpoint of the
    `i`-th marked cell (the code numbers it `max(t) + 1 + i`: the same for a mesh without unused points) -/
theorem C13_line_points (p : List Rat) (t : List Seg) (marked : List Nat) :
    (∀ i, i < p.length → (linePoints p t marked)[i]? = p[i]?)
    ∧ ∀ i (hi : i < marked.length), (linePoints p t marked)[p.length + i]?
        = some ((p.getD (t.getD marked[i] (0, 0)).1 0 + p.getD (t.getD marked[i] (0, 0)).2 0) / 2) :=
  ⟨fun i hi => linePoints_old p t marked i hi, fun i hi => linePoints_mid p t marked i hi⟩

/-- **named subdomains (repaired code)**: the new index array lists exactly the children -/
theorem C13_line_subdomains (nt : Nat) (marked ixs : List Nat) :
    (∀ i, i ∈ lineSubdomain nt marked ixs ↔ ∃ k ∈ ixs, i ∈ lineChildIdxs nt marked k)
    ∧ (lineSubdomain nt marked ixs).Pairwise (· < ·) := by
  refine ⟨fun i => ?_, pairwise_unique _⟩
  unfold lineSubdomain
  rw [mem_unique]
  simp [List.mem_flatMap]

/-- finding F6: the pinned code kept the OLD index array although the cells are reordered.
    Two cells, cell 0 marked, subdomain `{0}`: its region becomes new cells 1, 2 (the two halves),
    the kept array `[0]` names the copy of old cell 1 instead -/
theorem C13_line_old_counterexample :
    lineSubdomainOld 2 [0] [0] = [0] ∧ lineSubdomain 2 [0] [0] = [1, 2]
      ∧ lineParent 2 [0] 0 = 1 ∧ lineParent 2 [0] 1 = 0 ∧ lineParent 2 [0] 2 = 0 := by
  decide

/-! ## Tetrahedra -/

section Tet
variable {K : Type} [Field K] [LinearOrder K] [IsStrictOrderedRing K]

/-- `_adaptive_sort_mesh` (tetrahedra) permutes the vertices of the cell -/
theorem C13_tet_sort_is_permutation {α : Type} [LT α] [DecidableLT α] (l01 l12 l02 l03 l13 l23 : α) (c : Tet) :
    let s := sortTet l01 l12 l02 l03 l13 l23 c
    [s.1, s.2.1, s.2.2.1, s.2.2.2].Perm [c.1, c.2.1, c.2.2.1, c.2.2.2] := by
  obtain ⟨a, b, cc, d⟩ := c
  simp only [sortTet]
  repeat' split
  all_goals
    rw [List.perm_iff_count]
    intro x
    simp only [List.count_cons, List.count_nil]
    try omega

/-- **one bisection step**: with `m` the midpoint of `(t0,t1)` both children `(t3,t0,t2,m)`,
    `(t2,t1,t3,m)` have exactly half of the signed volume of `(t0,t1,t2,t3)` (same orientation,
    never degenerate unless the parent is), for arbitrary vertex positions -/
theorem C13_tet_bisect_volume (pos : Nat → K × K × K) (t0 t1 t2 t3 m : Nat)
    (hm : pos m = mid3 (pos t0) (pos t1)) :
    2 * vol3 pos [(bisect (t0, t1, t2, t3) m).1.1, (bisect (t0, t1, t2, t3) m).1.2.1,
        (bisect (t0, t1, t2, t3) m).1.2.2.1, (bisect (t0, t1, t2, t3) m).1.2.2.2] = vol3 pos [t0, t1, t2, t3]
    ∧ 2 * vol3 pos [(bisect (t0, t1, t2, t3) m).2.1, (bisect (t0, t1, t2, t3) m).2.2.1,
        (bisect (t0, t1, t2, t3) m).2.2.2.1, (bisect (t0, t1, t2, t3) m).2.2.2.2] = vol3 pos [t0, t1, t2, t3] := by
  simp only [bisect, vol3]
  rw [hm]
  simp only [mid3, det3, sub3]
  constructor <;> ring

/-- … and together they cover it: a point with weights `w ≥ 0` lies in the first child when
    `w1 ≤ w0` and in the second one when `w0 ≤ w1`, with non-negative weights of the same sum
    (for every affine function `c`, e.g. each coordinate) -/
theorem C13_tet_bisect_cover (c : Nat → K) (t0 t1 t2 t3 m : Nat) (hm : 2 * c m = c t0 + c t1)
    (w0 w1 w2 w3 : K) :
    (comb c [t3, t0, t2, m] [w3, w0 - w1, w2, 2 * w1] = comb c [t0, t1, t2, t3] [w0, w1, w2, w3]
      ∧ w3 + (w0 - w1) + w2 + 2 * w1 = w0 + w1 + w2 + w3)
    ∧ (comb c [t2, t1, t3, m] [w2, w1 - w0, w3, 2 * w0] = comb c [t0, t1, t2, t3] [w0, w1, w2, w3]
      ∧ w2 + (w1 - w0) + w3 + 2 * w0 = w0 + w1 + w2 + w3) := by
  simp only [comb]
  refine ⟨⟨?_, by ring⟩, ⟨?_, by ring⟩⟩
  · linear_combination w1 * hm
  · linear_combination w0 * hm

end Tet

/-! ## The certificate checker -/

/-- **soundness of the seven clauses** -/
theorem C13_checker_sound (dim : Nat) (old new : SMesh) (forest : List BTree) (marked : List Nat)
    (h : checkRefinement dim old new forest marked = true) : Accepted dim old new forest marked :=
  accepted_of_check dim old new forest marked h

/-- old vertices keep index and position -/
theorem C13_checker_old_vertices (dim : Nat) (old new : SMesh) (forest : List BTree) (marked : List Nat)
    (h : checkRefinement dim old new forest marked = true) (i : Nat) (hi : i < old.p.length) :
    new.p[i]? = old.p[i]? :=
  (accepted_of_check dim old new forest marked h).oldVerts i hi

/-- every new cell is a leaf of exactly one tree, exactly once: the leaves, read tree by tree, are a
    permutation of `0 … nt'-1` (hence without repetition) -/
theorem C13_checker_leaves (dim : Nat) (old new : SMesh) (forest : List BTree) (marked : List Nat)
    (h : checkRefinement dim old new forest marked = true) :
    (forest.flatMap BTree.leaves).Perm (List.range new.t.length) ∧ (forest.flatMap BTree.leaves).Nodup := by
  have hp := (accepted_of_check dim old new forest marked h).leaves
  exact ⟨hp, hp.nodup_iff.2 List.nodup_range⟩

/-- every marked cell is bisected (its tree has at least two leaves) -/
theorem C13_checker_marked (dim : Nat) (old new : SMesh) (forest : List BTree) (marked : List Nat)
    (h : checkRefinement dim old new forest marked = true) (k : Nat) (hk : k ∈ marked) :
    2 ≤ (forest.getD k (.leaf 0)).leaves.length := by
  have := (accepted_of_check dim old new forest marked h).marked k hk
  cases hf : forest.getD k (.leaf 0) with
  | leaf c => rw [hf] at this; simp [BTree.isNode] at this
  | node i j m l r =>
    simp only [BTree.leaves, List.length_append]
    have hl : ∀ t : BTree, 1 ≤ t.leaves.length := by
      intro t
      induction t with
      | leaf c => simp [BTree.leaves]
      | node i j m l r ihl _ => simp only [BTree.leaves, List.length_append]; omega
    have := hl l
    have := hl r
    omega

/-- **exit condition of the worklist**: no new cell contains both end points of an edge that was
    bisected anywhere in the forest (such a cell would have the edge's midpoint as a hanging node);
    and the midpoint vertex is a function of the edge, different edges having different midpoints -/
theorem C13_checker_exit (dim : Nat) (old new : SMesh) (forest : List BTree) (marked : List Nat)
    (h : checkRefinement dim old new forest marked = true) :
    (∀ L ∈ new.t, ∀ e ∈ forestEdges old.t forest, ¬ (e.1 ∈ L ∧ e.2.1 ∈ L))
    ∧ ∀ e ∈ forestEdges old.t forest, ∀ e' ∈ forestEdges old.t forest,
        ((e.1 = e'.1 ∧ e.2.1 = e'.2.1) ∨ (e.1 = e'.2.1 ∧ e.2.1 = e'.1)) ↔ e.2.2 = e'.2.2 :=
  ⟨(accepted_of_check dim old new forest marked h).exit, (accepted_of_check dim old new forest marked h).mids⟩

/-- **same domain, covering direction**: every point of old cell `k` (weights `w ≥ 0` on its
    vertices) lies in a new cell `q.2` that is a leaf of tree `k`; `q.1` lists the vertices of that
    new cell (`sortCol` equal) in the order in which the weights `w'` apply; all coordinates agree -/
theorem C13_checker_cover (dim : Nat) (old new : SMesh) (forest : List BTree) (marked : List Nat)
    (h : checkRefinement dim old new forest marked = true) (k : Nat) (hk : k < old.t.length)
    (w : List Rat) (hw : w.length = dim + 1) (hnn : ∀ x ∈ w, 0 ≤ x) :
    ∃ q ∈ leafPairs (old.t.getD k []) (forest.getD k (.leaf 0)),
      q.2 < new.t.length ∧ sortCol q.1 = sortCol (new.t.getD q.2 []) ∧
      ∃ w' : List Rat, w'.length = w.length ∧ (∀ x ∈ w', 0 ≤ x) ∧ w'.sum = w.sum ∧
        ∀ d, comb (coordFn new.p d) q.1 w' = comb (coordFn new.p d) (old.t.getD k []) w := by
  have acc := accepted_of_check dim old new forest marked h
  obtain ⟨hwf, hmid, hleaf⟩ := checkTree_sound new.p new.t _ _ (acc.trees k hk)
  have hS : (old.t.getD k []).length = w.length := by
    rw [hw]
    apply (acc.oldShape _ _).1
    simp [List.getD_eq_getElem?_getD, hk]
  obtain ⟨L, d, hmem, w', hlen, hnn', hsum, hc⟩ := tree_cover (forest.getD k (.leaf 0)) _ 0 hwf w hS hnn
  have hL : L ∈ (leafPairs (old.t.getD k []) (forest.getD k (.leaf 0))).map (·.1) := by
    rw [leafPairs_fst _ _ 0]
    exact List.mem_map.2 ⟨(L, d), hmem, rfl⟩
  obtain ⟨q, hq, rfl⟩ := List.mem_map.1 hL
  refine ⟨q, hq, ?_, hleaf q hq, w', hlen, hnn', hsum, fun d => hc _ (hmid d)⟩
  have hk' : k < forest.length := by rw [acc.len]; exact hk
  have : q.2 ∈ forest.flatMap BTree.leaves := by
    rw [List.mem_flatMap]
    refine ⟨forest.getD k (.leaf 0), ?_, ?_⟩
    · simp [List.getD_eq_getElem?_getD, hk']
    · rw [← leafPairs_snd _ (old.t.getD k [])]
      exact List.mem_map.2 ⟨q, hq, rfl⟩
  have := (acc.leaves.mem_iff).1 this
  simpa using this

/-- **nesting**: every new cell `c` is a leaf of the tree of some old cell `k`, and every point of
    it (weights `w' ≥ 0` on the vertex list `q.1`, a reordering of the cell's vertices) is a point of
    old cell `k` -/
theorem C13_checker_nested (dim : Nat) (old new : SMesh) (forest : List BTree) (marked : List Nat)
    (h : checkRefinement dim old new forest marked = true) (c : Nat) (hc : c < new.t.length) :
    ∃ k, k < old.t.length ∧ ∃ q ∈ leafPairs (old.t.getD k []) (forest.getD k (.leaf 0)),
      q.2 = c ∧ sortCol q.1 = sortCol (new.t.getD c []) ∧ q.1.length = dim + 1 ∧
      ∀ w' : List Rat, w'.length = dim + 1 → (∀ x ∈ w', 0 ≤ x) →
        ∃ w : List Rat, w.length = dim + 1 ∧ (∀ x ∈ w, 0 ≤ x) ∧ w.sum = w'.sum ∧
          ∀ d, comb (coordFn new.p d) (old.t.getD k []) w = comb (coordFn new.p d) q.1 w' := by
  have acc := accepted_of_check dim old new forest marked h
  have hmem : c ∈ forest.flatMap BTree.leaves := (acc.leaves.mem_iff).2 (List.mem_range.2 hc)
  rw [List.mem_flatMap] at hmem
  obtain ⟨tr, htr, hctr⟩ := hmem
  obtain ⟨k, hk, rfl⟩ := List.getElem_of_mem htr
  have hk' : k < old.t.length := by rw [← acc.len]; exact hk
  have hget : forest.getD k (.leaf 0) = forest[k] := by simp [List.getD_eq_getElem?_getD, hk]
  obtain ⟨hwf, hmid, hleaf⟩ := checkTree_sound new.p new.t _ _ (acc.trees k hk')
  rw [hget] at hwf hmid hleaf
  rw [← leafPairs_snd _ (old.t.getD k [])] at hctr
  obtain ⟨q, hq, rfl⟩ := List.mem_map.1 hctr
  have hS : (old.t.getD k []).length = dim + 1 := by
    apply (acc.oldShape _ _).1
    simp [List.getD_eq_getElem?_getD, hk']
  have hL : q.1 ∈ (forest[k].leafSimplices (old.t.getD k []) 0).map (·.1) := by
    rw [← leafPairs_fst]
    exact List.mem_map.2 ⟨q, hq, rfl⟩
  obtain ⟨⟨L, d⟩, hLd, hLq⟩ := List.mem_map.1 hL
  have hLq' : L = q.1 := hLq
  subst hLq'
  obtain ⟨hlen, hn⟩ := tree_nested (K := Rat) forest[k] _ 0 hwf _ d hLd
  refine ⟨k, hk', q, by rw [hget]; exact hq, rfl, hleaf q hq, by rw [hlen, hS], ?_⟩
  intro w' hw' hnn
  obtain ⟨w, hl, hnn2, hsum, hcomb⟩ := hn w' (by rw [hlen, hS, hw']) hnn
  exact ⟨w, by rw [hl, hw'], hnn2, hsum, fun d => hcomb _ (hmid d)⟩

/-- **volumes (tetrahedra)**: the leaf simplex at depth `d` of tree `k` has `2^-d` of the signed
    volume of old cell `k` — no new cell is degenerate or inverted unless its old cell is — and the
    signed volumes of the leaves add up to that of the old cell.  With `C13_checker_cover` this makes
    the new cells of an old cell a partition of it. -/
theorem C13_checker_volume (old new : SMesh) (forest : List BTree) (marked : List Nat)
    (h : checkRefinement 3 old new forest marked = true) (k : Nat) (hk : k < old.t.length) :
    let pos := pos3 (coordFn new.p 0) (coordFn new.p 1) (coordFn new.p 2)
    (∀ L d, (L, d) ∈ (forest.getD k (.leaf 0)).leafSimplices (old.t.getD k []) 0 →
        2 ^ d * vol3 pos L = vol3 pos (old.t.getD k []))
    ∧ (((forest.getD k (.leaf 0)).leafSimplices (old.t.getD k []) 0).map (fun q => vol3 pos q.1)).sum
        = vol3 pos (old.t.getD k []) := by
  have acc := accepted_of_check 3 old new forest marked h
  obtain ⟨hwf, hmid, _⟩ := checkTree_sound new.p new.t _ _ (acc.trees k hk)
  have hS : (old.t.getD k []).length = 4 := by
    apply (acc.oldShape _ _).1
    simp [List.getD_eq_getElem?_getD, hk]
  refine ⟨fun L d hLd => ?_, tree_volume_sum _ _ _ _ _ 0 hS hwf (hmid 0) (hmid 1) (hmid 2)⟩
  have := (tree_volume _ _ _ _ _ 0 hS hwf (hmid 0) (hmid 1) (hmid 2) L d hLd).2
  simpa using this

/-- non-vacuity: the checker accepts the bisection of one tetrahedron into two and rejects the same
    data when the midpoint is misplaced or a leaf is missing -/
example : checkRefinement 3
    { p := [[0, 0, 0], [2, 0, 0], [0, 1, 0], [0, 0, 1]], t := [[0, 1, 2, 3]] }
    { p := [[0, 0, 0], [2, 0, 0], [0, 1, 0], [0, 0, 1], [1, 0, 0]], t := [[3, 0, 2, 4], [2, 1, 3, 4]] }
    [.node 0 1 4 (.leaf 0) (.leaf 1)] [0] = true := by decide +kernel
example : checkRefinement 3
    { p := [[0, 0, 0], [2, 0, 0], [0, 1, 0], [0, 0, 1]], t := [[0, 1, 2, 3]] }
    { p := [[0, 0, 0], [2, 0, 0], [0, 1, 0], [0, 0, 1], [1, 1, 0]], t := [[3, 0, 2, 4], [2, 1, 3, 4]] }
    [.node 0 1 4 (.leaf 0) (.leaf 1)] [0] = false := by decide +kernel
example : checkRefinement 3
    { p := [[0, 0, 0], [2, 0, 0], [0, 1, 0], [0, 0, 1]], t := [[0, 1, 2, 3]] }
    { p := [[0, 0, 0], [2, 0, 0], [0, 1, 0], [0, 0, 1], [1, 0, 0]], t := [[3, 0, 2, 4], [2, 1, 3, 4]] }
    [.node 0 1 4 (.leaf 0) (.leaf 0)] [0] = false := by decide +kernel

/-- non-vacuity of the triangle theorems: two triangles sharing facet 0, cell 0 marked -/
example : findFacets [(0, 1, 2), (0, 3, 4)] 5 [0] = [true, true, true, false, true] := by decide
example : (TriInput.mk 4 [(0, 1, 2), (0, 1, 3)] [(0, 1, 2), (0, 3, 4)] [true, true, true, false, true]).cls
    = [.red, .blue2] := by decide
example : (TriInput.mk 4 [(0, 1, 2), (0, 1, 3)] [(0, 1, 2), (0, 3, 4)] [true, true, true, false, true]).newCells
    = [(0, 4, 6), (1, 4, 5), (2, 5, 6), (5, 6, 4), (0, 4, 7), (7, 4, 1), (3, 7, 1)] := by decide


/-! ## Refinement relation and histories -/

/-- coordinate `d` of the point of cell `k` of mesh `m` with barycentric weights `w` -/
def cellPoint (m : SMesh) (k : Nat) (w : List Rat) (d : Nat) : Rat :=
  comb (coordFn m.p d) (m.t.getD k []) w

/-- admissible barycentric weights of a `dim`-simplex (their sum is 1 for a point of the cell; the
    statements below preserve the sum, whatever it is) -/
def Weights (dim : Nat) (w : List Rat) : Prop := w.length = dim + 1 ∧ ∀ x ∈ w, 0 ≤ x

/-- `new` is a domain-preserving nested refinement of `old`: old vertices keep index and position,
    every point of every old cell lies in a new cell, every point of every new cell lies in an old cell -/
structure Refines (dim : Nat) (old new : SMesh) : Prop where
  verts : ∀ i, i < old.p.length → new.p[i]? = old.p[i]?
  cover : ∀ k, k < old.t.length → ∀ w, Weights dim w →
    ∃ c, c < new.t.length ∧ ∃ w', Weights dim w' ∧ w'.sum = w.sum ∧
      ∀ d, cellPoint new c w' d = cellPoint old k w d
  nested : ∀ c, c < new.t.length → ∃ k, k < old.t.length ∧ ∀ w', Weights dim w' →
    ∃ w, Weights dim w ∧ w.sum = w'.sum ∧ ∀ d, cellPoint old k w d = cellPoint new c w' d

theorem coordFn_old (old new : SMesh) (h : ∀ i, i < old.p.length → new.p[i]? = old.p[i]?) (d v : Nat)
    (hv : v < old.p.length) : coordFn new.p d v = coordFn old.p d v := by
  unfold coordFn
  rw [List.getD_eq_getElem?_getD (l := new.p), List.getD_eq_getElem?_getD (l := old.p), h v hv]

theorem weights_perm (dim : Nat) (w w' : List Rat) (hp : w'.Perm w) (hw : Weights dim w) :
    Weights dim w' ∧ w'.sum = w.sum :=
  ⟨⟨by rw [hp.length_eq]; exact hw.1, fun x hx => hw.2 x (hp.mem_iff.1 hx)⟩, hp.sum_eq⟩

/-- **an accepted certificate proves a domain-preserving nested refinement** -/
theorem C13_checker_refines (dim : Nat) (old new : SMesh) (forest : List BTree) (marked : List Nat)
    (h : checkRefinement dim old new forest marked = true) : Refines dim old new := by
  have acc := accepted_of_check dim old new forest marked h
  refine ⟨acc.oldVerts, ?_, ?_⟩
  · intro k hk w hw
    obtain ⟨q, _, hq2, hsort, w', hlen, hnn, hsum, hc⟩ := C13_checker_cover dim old new forest marked h k hk w hw.1 hw.2
    have hmemc : new.t.getD q.2 [] ∈ new.t := by simp [List.getD_eq_getElem?_getD, hq2]
    have hlq : w'.length = q.1.length := by
      rw [hlen, hw.1, ← length_sortCol q.1, hsort, length_sortCol, (acc.newShape _ hmemc).1]
    obtain ⟨w'', hp, hcomb⟩ := comb_perm (perm_of_sortCol_eq hsort) w' hlq
    obtain ⟨hW, hs⟩ := weights_perm dim w' w'' hp ⟨by rw [hlen, hw.1], hnn⟩
    refine ⟨q.2, hq2, w'', hW, by rw [hs, hsum], fun d => ?_⟩
    unfold cellPoint
    rw [hcomb, hc d]
    apply comb_congr
    intro v hv
    have hmemk : old.t.getD k [] ∈ old.t := by simp [List.getD_eq_getElem?_getD, hk]
    exact coordFn_old old new acc.oldVerts d v ((acc.oldShape _ hmemk).2 v hv)
  · intro c hc
    obtain ⟨k, hk, q, _, _, hsort, hql, hn⟩ := C13_checker_nested dim old new forest marked h c hc
    refine ⟨k, hk, fun w' hw' => ?_⟩
    -- bring the weights from the cell's own vertex order to the order of the leaf simplex
    have hlen : w'.length = (new.t.getD c []).length := by
      rw [hw'.1, ← length_sortCol (new.t.getD c []), ← hsort, length_sortCol, hql]
    obtain ⟨w1, hp, hcomb⟩ := comb_perm (perm_of_sortCol_eq hsort).symm w' hlen
    obtain ⟨hW1, hs1⟩ := weights_perm dim w' w1 hp hw'
    obtain ⟨w, hwl, hwn, hws, hwc⟩ := hn w1 hW1.1 hW1.2
    refine ⟨w, ⟨hwl, hwn⟩, by rw [hws, hs1], fun d => ?_⟩
    unfold cellPoint
    rw [← hcomb, ← hwc d]
    apply comb_congr
    intro v hv
    have hmemk : old.t.getD k [] ∈ old.t := by simp [List.getD_eq_getElem?_getD, hk]
    exact (coordFn_old old new acc.oldVerts d v ((acc.oldShape _ hmemk).2 v hv)).symm

theorem Refines.refl (dim : Nat) (m : SMesh) : Refines dim m m :=
  ⟨fun _ _ => rfl, fun k hk w hw => ⟨k, hk, w, hw, rfl, fun _ => rfl⟩,
    fun c hc => ⟨c, hc, fun w' hw' => ⟨w', hw', rfl, fun _ => rfl⟩⟩⟩

/-- refinements compose -/
theorem C13_refines_trans (dim : Nat) (a b c : SMesh) (h1 : Refines dim a b) (h2 : Refines dim b c) :
    Refines dim a c := by
  refine ⟨fun i hi => ?_, fun k hk w hw => ?_, fun cc hcc => ?_⟩
  · have hb : i < b.p.length := by
      have := h1.verts i hi
      rw [List.getElem?_eq_getElem hi] at this
      exact (List.getElem?_eq_some_iff.1 this).1
    rw [h2.verts i hb, h1.verts i hi]
  · obtain ⟨c1, hc1, w1, hW1, hs1, hp1⟩ := h1.cover k hk w hw
    obtain ⟨c2, hc2, w2, hW2, hs2, hp2⟩ := h2.cover c1 hc1 w1 hW1
    exact ⟨c2, hc2, w2, hW2, by rw [hs2, hs1], fun d => by rw [hp2 d, hp1 d]⟩
  · obtain ⟨k1, hk1, hn1⟩ := h2.nested cc hcc
    obtain ⟨k0, hk0, hn0⟩ := h1.nested k1 hk1
    refine ⟨k0, hk0, fun w' hw' => ?_⟩
    obtain ⟨w1, hW1, hs1, hp1⟩ := hn1 w' hw'
    obtain ⟨w0, hW0, hs0, hp0⟩ := hn0 w1 hW1
    exact ⟨w0, hW0, by rw [hs0, hs1], fun d => by rw [hp0 d, hp1 d]⟩

/-- a history: any finite sequence of refinement steps, each of which is a `Refines` step (for
    instance: accepted by the checker, `C13_checker_refines`) -/
inductive History (dim : Nat) : SMesh → SMesh → Prop
  | start (m : SMesh) : History dim m m
  | step {a b c : SMesh} : History dim a b → Refines dim b c → History dim a c

/-- **the properties persist under arbitrarily long sequences of refinements**: after any history
    the last mesh is a domain-preserving nested refinement of the first one, and the vertices of
    the first mesh still have their indices and positions -/
theorem C13_histories (dim : Nat) (a b : SMesh) (h : History dim a b) : Refines dim a b := by
  induction h with
  | start => exact Refines.refl dim _
  | step _ hr ih => exact C13_refines_trans dim _ _ _ ih hr

/-- non-vacuity: a one-step history certified by the checker -/
example : History 3
    { p := [[0, 0, 0], [2, 0, 0], [0, 1, 0], [0, 0, 1]], t := [[0, 1, 2, 3]] }
    { p := [[0, 0, 0], [2, 0, 0], [0, 1, 0], [0, 0, 1], [1, 0, 0]], t := [[3, 0, 2, 4], [2, 1, 3, 4]] } :=
  History.step (History.start _)
    (C13_checker_refines 3 _ _ [.node 0 1 4 (.leaf 0) (.leaf 1)] [0] (by decide +kernel))

end Skv.C13
