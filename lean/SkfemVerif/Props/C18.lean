import SkfemVerif.Lemmas.Surgery
import Mathlib.Algebra.Field.Basic
import Mathlib.Tactic.Ring
import Mathlib.Tactic.FieldSimp
/-
C18  Mesh surgery keeps geometry valid and carries tags to the same entities.

Model: Model/Surgery.lean (`reix*`, `restrict*`, `usedFacets/newFacet`, `dedup*`, `joinCells`,
`matmulCells`, `splitCells/splitSub/scanLookup`, `extrude*`), tied to skfem/mesh/*.py by the
correspondence ops `surgery.*` (exact integer arrays on every run).

Every theorem holds for ALL cell lists / index sets / point lists (no size bound).
-/
set_option linter.unusedSectionVars false
set_option linter.unusedSimpArgs false

namespace Skv.C18

open Skv

/-! ## A. `_reix`: renumbering the used vertices by rank -/

theorem used_sorted (cells : List (List Nat)) : (reixUsed cells).Pairwise (· < ·) :=
  pairwise_unique _

theorem mem_used {cells : List (List Nat)} {v : Nat} : v ∈ reixUsed cells ↔ v ∈ cells.flatten :=
  mem_unique

/-- **order preserving**: on the used vertices the new numbering is strictly monotone (and
    reflects the order) -/
theorem C18_reix_monotone (cells : List (List Nat)) (a b : Nat)
    (ha : a ∈ cells.flatten) (hb : b ∈ cells.flatten) :
    reixMap cells a < reixMap cells b ↔ a < b :=
  idxOf_lt_iff (used_sorted cells) (mem_used.mpr ha) (mem_used.mpr hb)

/-- **injective** on the used vertices: no two vertices are merged -/
theorem C18_reix_injective (cells : List (List Nat)) (a b : Nat)
    (ha : a ∈ cells.flatten) (hb : b ∈ cells.flatten)
    (h : reixMap cells a = reixMap cells b) : a = b :=
  idxOf_inj_of_mem (mem_used.mpr ha) (mem_used.mpr hb) h

/-- **image = 0..n-1**: every new number is below the number of used vertices and every number
    below it is taken (no unused vertex in the result) -/
theorem C18_reix_range (cells : List (List Nat)) :
    (∀ v ∈ cells.flatten, reixMap cells v < (reixUsed cells).length) ∧
    (∀ j, j < (reixUsed cells).length → ∃ v ∈ cells.flatten, reixMap cells v = j) := by
  constructor
  · intro v hv
    exact List.idxOf_lt_length_of_mem (mem_used.mpr hv)
  · intro j hj
    refine ⟨(reixUsed cells)[j], mem_used.mp (List.getElem_mem hj), ?_⟩
    exact (nodup_unique _).idxOf_getElem j hj

/-- **returned index map** (`return_mapping=True`, `ixuniq`): new vertex `reixMap v` is old
    vertex `v`, and new vertex `j` is renumbered to `j` -/
theorem C18_reix_vertex_map (cells : List (List Nat)) :
    (∀ v, ∀ hv : v ∈ cells.flatten,
      (reixUsed cells)[reixMap cells v]'(List.idxOf_lt_length_of_mem (mem_used.mpr hv)) = v) ∧
    (∀ j, ∀ hj : j < (reixUsed cells).length, reixMap cells ((reixUsed cells)[j]) = j) :=
  ⟨fun _ hv => List.getElem_idxOf (List.idxOf_lt_length_of_mem (mem_used.mpr hv)),
   fun j hj => (nodup_unique _).idxOf_getElem j hj⟩

/-- coordinates are carried along: the point stored for the new number of `v` is the old point
    of `v` (`p_new[:, t_new] == p_old[:, t_old]`) -/
theorem reixPoints_getD {α : Type} [Inhabited α] (pts : List α) (cells : List (List Nat)) (v : Nat)
    (hv : v ∈ cells.flatten) :
    (reixPoints pts cells).getD (reixMap cells v) default = pts.getD v default := by
  have hlt : reixMap cells v < (reixUsed cells).length :=
    List.idxOf_lt_length_of_mem (mem_used.mpr hv)
  have e : (reixUsed cells)[reixMap cells v] = v := List.getElem_idxOf hlt
  simp [reixPoints, List.getD_eq_getElem?_getD, hlt, e]

/-- **cells occupy the same point sets**: every cell of the renumbered mesh has, vertex by
    vertex in local order, the coordinates it had before -/
theorem C18_reix_cells_geometric {α : Type} [Inhabited α] (pts : List α) (cells : List (List Nat))
    (k : Nat) (hk : k < cells.length) :
    cellCoords (reixPoints pts cells) ((reixCells cells).getD k []) = cellCoords pts cells[k] := by
  have hk' : k < (reixCells cells).length := by simpa [reixCells] using hk
  simp only [List.getD_eq_getElem?_getD, List.getElem?_eq_getElem hk', Option.getD_some]
  simp only [reixCells, List.getElem_map, cellCoords, List.map_map]
  apply List.map_congr_left
  intro v hv
  have hmem : v ∈ cells.flatten := List.mem_flatten.mpr ⟨cells[k], List.getElem_mem hk, hv⟩
  simpa [List.getD_eq_getElem?_getD] using reixPoints_getD pts cells v hmem

/-- **restrict / return_mapping**: cell `j` of the restricted mesh is cell `elements[j]` of the
    old mesh, with the same coordinates in the same local order -/
theorem C18_restrict_cells_geometric {α : Type} [Inhabited α] (pts : List α)
    (cells : List (List Nat)) (elements : List Nat) (j : Nat) (hj : j < elements.length) :
    cellCoords (reixPoints pts (selectCells cells elements))
        ((restrictCells cells elements).getD j [])
      = cellCoords pts (cells.getD elements[j] []) := by
  have hj' : j < (selectCells cells elements).length := by simpa [selectCells] using hj
  have := C18_reix_cells_geometric pts (selectCells cells elements) j hj'
  simpa [restrictCells, selectCells] using this

/-- **validity is preserved**: if the old points of the used vertices are pairwise distinct, the
    new point array has no duplicate, every new vertex is used and every index is in range -/
theorem C18_reix_valid {α : Type} [Inhabited α] (pts : List α) (cells : List (List Nat))
    (hinj : ∀ a ∈ cells.flatten, ∀ b ∈ cells.flatten,
      pts.getD a default = pts.getD b default → a = b) :
    (reixPoints pts cells).Nodup ∧
    (∀ c ∈ reixCells cells, ∀ w ∈ c, w < (reixPoints pts cells).length) ∧
    (∀ j, j < (reixPoints pts cells).length → ∃ c ∈ reixCells cells, j ∈ c) := by
  have hlen : (reixPoints pts cells).length = (reixUsed cells).length := by simp [reixPoints]
  refine ⟨?_, ?_, ?_⟩
  · unfold reixPoints
    exact nodup_map_of_injOn _ _ (nodup_unique _)
      (fun a ha b hb hab => hinj a (mem_used.mp ha) b (mem_used.mp hb) hab)
  · intro c hc w hw
    simp only [reixCells, List.mem_map] at hc
    obtain ⟨c0, hc0, rfl⟩ := hc
    obtain ⟨v, hv, rfl⟩ := List.mem_map.mp hw
    rw [hlen]
    exact (C18_reix_range cells).1 v (List.mem_flatten.mpr ⟨c0, hc0, hv⟩)
  · intro j hj
    rw [hlen] at hj
    obtain ⟨v, hv, e⟩ := (C18_reix_range cells).2 j hj
    obtain ⟨c0, hc0, hvc⟩ := List.mem_flatten.mp hv
    exact ⟨c0.map (reixMap cells), List.mem_map.mpr ⟨c0, hc0, rfl⟩,
      List.mem_map.mpr ⟨v, hvc, e⟩⟩

/-- **shared-vertex structure**: two cells share a vertex after the renumbering iff they did -/
theorem C18_reix_shared_vertices (cells : List (List Nat)) (c d : List Nat)
    (hc : c ∈ cells) (hd : d ∈ cells) :
    (∃ w, w ∈ c.map (reixMap cells) ∧ w ∈ d.map (reixMap cells)) ↔ (∃ v, v ∈ c ∧ v ∈ d) := by
  constructor
  · rintro ⟨w, h1, h2⟩
    obtain ⟨a, ha, rfl⟩ := List.mem_map.mp h1
    obtain ⟨b, hb, hab⟩ := List.mem_map.mp h2
    have : b = a := C18_reix_injective cells b a
      (List.mem_flatten.mpr ⟨d, hd, hb⟩) (List.mem_flatten.mpr ⟨c, hc, ha⟩) hab
    subst this
    exact ⟨b, ha, hb⟩
  · rintro ⟨v, h1, h2⟩
    exact ⟨reixMap cells v, List.mem_map.mpr ⟨v, h1, rfl⟩, List.mem_map.mpr ⟨v, h2, rfl⟩⟩

example : reixCells [[5, 2, 9], [9, 2, 7]] = [[1, 0, 3], [3, 0, 2]] := by decide
example : reixUsed [[5, 2, 9], [9, 2, 7]] = [2, 5, 7, 9] := by decide

/-! ## B. `restrict`: the facet renumbering shortcut agrees with rebuilding the facets -/

theorem reixMap_monoOn (cells : List (List Nat)) : MonoOn (reixMap cells) (· ∈ cells.flatten) :=
  fun a b ha hb hab => (C18_reix_monotone cells a b ha hb).mpr hab

theorem mem_selectCells {cells : List (List Nat)} {elements : List Nat}
    (hel : ∀ k ∈ elements, k < cells.length) {c : List Nat}
    (hc : c ∈ selectCells cells elements) : c ∈ cells := by
  simp only [selectCells, List.mem_map] at hc
  obtain ⟨k, hk, rfl⟩ := hc
  have := hel k hk
  simp [List.getD_eq_getElem?_getD, this]

theorem wellFormed_select {cells ref : List (List Nat)} {elements : List Nat}
    (hwf : WellFormed cells ref) (hel : ∀ k ∈ elements, k < cells.length) :
    WellFormed (selectCells cells elements) ref :=
  fun c hc => hwf c (mem_selectCells hel hc)

/-- entry `(i, k)` of `t2f` is the position, in the sorted facet table, of the sorted vertex
    tuple of local facet `i` of cell `k` (C11 slot specification, read as an index) -/
theorem t2f_entry (cells ref : List (List Nat)) (i k : Nat)
    (hi : i < ref.length) (hk : k < cells.length) :
    ((entityMapping cells ref).getD i []).getD k 0
      = (entitiesSorted cells ref).idxOf (sortCol (slotCol cells[k] ref[i])) := by
  obtain ⟨h1, h2, h3, e⟩ := ent_slot_spec cells ref i k hi hk
  simp only [List.getD_eq_getElem?_getD, List.getElem?_eq_getElem h1, Option.getD_some,
    List.getElem?_eq_getElem h2]
  rw [← e]
  exact ((ent_nodup cells ref).idxOf_getElem _ h3).symm

/-- the old numbers of the facets of the kept cells are the positions (in the old facet table)
    of the facets of the sub-mesh, in the order of the sub-mesh's own facet table:
    `np.unique(t2f[:, elements]) = [F.idxOf e | e ∈ F']` -/
theorem usedFacets_eq (cells ref : List (List Nat)) (elements : List Nat)
    (hel : ∀ k ∈ elements, k < cells.length) :
    usedFacets (entityMapping cells ref) elements
      = (entitiesSorted (selectCells cells elements) ref).map (entitiesSorted cells ref).idxOf := by
  have hsub : ∀ e ∈ sortedIndexing (selectCells cells elements) ref, e ∈ entitiesSorted cells ref := by
    intro e he
    obtain ⟨s, hs, c, hc, rfl⟩ := mem_sortedIndexing.mp he
    exact ent_cover cells ref s c hs (mem_selectCells hel hc)
  have step1 : usedFacets (entityMapping cells ref) elements
      = unique ((sortedIndexing (selectCells cells elements) ref).map
          (entitiesSorted cells ref).idxOf) := by
    unfold usedFacets
    apply unique_congr
    intro x
    simp only [List.mem_flatMap, List.mem_map]
    constructor
    · rintro ⟨row, hrow, k, hk, rfl⟩
      obtain ⟨i, hi, rfl⟩ := List.getElem_of_mem hrow
      have hi' : i < ref.length := by rwa [length_entityMapping] at hi
      have hkc := hel k hk
      refine ⟨sortCol (slotCol cells[k] ref[i]), ?_, ?_⟩
      · apply mem_sortedIndexing.mpr
        refine ⟨ref[i], List.getElem_mem hi', cells[k], ?_, rfl⟩
        simp only [selectCells, List.mem_map]
        exact ⟨k, hk, by simp [List.getD_eq_getElem?_getD, hkc]⟩
      · have := t2f_entry cells ref i k hi' hkc
        simp only [List.getD_eq_getElem?_getD, List.getElem?_eq_getElem hi, Option.getD_some] at this
        simpa [List.getD_eq_getElem?_getD] using this.symm
    · rintro ⟨e, he, rfl⟩
      obtain ⟨s, hs, c, hc, rfl⟩ := mem_sortedIndexing.mp he
      simp only [selectCells, List.mem_map] at hc
      obtain ⟨k, hk, rfl⟩ := hc
      obtain ⟨i, hi, rfl⟩ := List.getElem_of_mem hs
      have hkc := hel k hk
      have hi' : i < (entityMapping cells ref).length := by rwa [length_entityMapping]
      refine ⟨(entityMapping cells ref)[i], List.getElem_mem hi', k, hk, ?_⟩
      have := t2f_entry cells ref i k hi hkc
      simp only [List.getD_eq_getElem?_getD, List.getElem?_eq_getElem hi', Option.getD_some] at this
      simpa [List.getD_eq_getElem?_getD, hkc] using this
  rw [step1]
  unfold entitiesSorted
  apply unique_map
  intro a ha b hb hab
  exact idxOf_lt_of_lt (ent_sorted cells ref) (hsub a ha) (hsub b hb) hab

/-- **C18_restrict_facets** — the `newf` shortcut of `Mesh.restrict` is correct.
    Let `e` be a facet of a kept cell (as sorted tuple of OLD vertex numbers) and `f` its old
    facet number.  Then `newf[f] = g ≥ 0`, and in the facet table REBUILT from the cells of the
    restricted mesh (what `out.facets` is) entry `g` is the same facet with its vertices
    renumbered.  Hence every boundary index carried over designates the same facet. -/
theorem C18_restrict_facets (cells ref : List (List Nat)) (elements : List Nat)
    (hwf : WellFormed cells ref) (hel : ∀ k ∈ elements, k < cells.length)
    (e : List Nat) (he : e ∈ entitiesSorted (selectCells cells elements) ref) :
    ∃ g, newFacet (entityMapping cells ref) elements ((entitiesSorted cells ref).idxOf e) = some g ∧
      (entitiesSorted (restrictCells cells elements) ref)[g]?
        = some (e.map (reixMap (selectCells cells elements))) := by
  let S := selectCells cells elements
  have hU := usedFacets_eq cells ref elements hel
  have heF : e ∈ entitiesSorted cells ref := by
    obtain ⟨s, hs, c, hc, rfl⟩ := ent_complete S ref e he
    exact ent_cover cells ref s c hs (mem_selectCells hel hc)
  have hinj : ∀ x ∈ entitiesSorted S ref,
      (entitiesSorted cells ref).idxOf x = (entitiesSorted cells ref).idxOf e → x = e := by
    intro x hx hxe
    have hxF : x ∈ entitiesSorted cells ref := by
      obtain ⟨s, hs, c, hc, rfl⟩ := ent_complete S ref x hx
      exact ent_cover cells ref s c hs (mem_selectCells hel hc)
    exact idxOf_inj_of_mem hxF heF hxe
  have hidx : (usedFacets (entityMapping cells ref) elements).idxOf
      ((entitiesSorted cells ref).idxOf e) = (entitiesSorted S ref).idxOf e := by
    rw [hU]; exact idxOf_map_of_injOn _ _ e he hinj
  have hmem : (entitiesSorted cells ref).idxOf e ∈ usedFacets (entityMapping cells ref) elements := by
    rw [hU]; exact List.mem_map.mpr ⟨e, he, rfl⟩
  refine ⟨(entitiesSorted S ref).idxOf e, ?_, ?_⟩
  · simp only [newFacet, List.contains_iff_mem, hmem, if_true, hidx]
  · have hnew : entitiesSorted (restrictCells cells elements) ref
        = (entitiesSorted S ref).map (fun col => col.map (reixMap S)) :=
      entitiesSorted_map (reixMap S) S ref (wellFormed_select hwf hel) (reixMap_monoOn S)
    have hlt : (entitiesSorted S ref).idxOf e < (entitiesSorted S ref).length :=
      List.idxOf_lt_length_of_mem he
    rw [hnew, List.getElem?_map, List.getElem?_eq_getElem hlt, List.getElem_idxOf hlt]
    rfl

/-- **tags of removed facets disappear**: an old facet gets a new number iff it is a facet of
    some kept cell; otherwise `newf = -1` and `restrict` filters it out -/
theorem C18_restrict_facets_removed (cells ref : List (List Nat)) (elements : List Nat)
    (hel : ∀ k ∈ elements, k < cells.length) (f : Nat) (hf : f < (entitiesSorted cells ref).length) :
    newFacet (entityMapping cells ref) elements f = none ↔
      (entitiesSorted cells ref)[f] ∉ entitiesSorted (selectCells cells elements) ref := by
  have hU := usedFacets_eq cells ref elements hel
  simp only [newFacet, List.contains_iff_mem]
  constructor
  · intro h he
    have : f ∈ usedFacets (entityMapping cells ref) elements := by
      rw [hU]
      exact List.mem_map.mpr ⟨_, he, (ent_nodup cells ref).idxOf_getElem f hf⟩
    simp [this] at h
  · intro h
    have : f ∉ usedFacets (entityMapping cells ref) elements := by
      rw [hU]
      intro hm
      obtain ⟨e, he, hef⟩ := List.mem_map.mp hm
      have heF : e ∈ entitiesSorted cells ref := by
        obtain ⟨s, hs, c, hc, rfl⟩ := ent_complete _ ref e he
        exact ent_cover cells ref s c hs (mem_selectCells hel hc)
      have hlt : (entitiesSorted cells ref).idxOf e < (entitiesSorted cells ref).length :=
        List.idxOf_lt_length_of_mem heF
      have : (entitiesSorted cells ref)[f] = e := by
        have := List.getElem_idxOf hlt
        simp only [hef] at this
        exact this
      exact h (this ▸ he)
    simp [this]

/-- consequence for a named boundary: every index kept by `restrictBoundary` is the new number
    of a listed facet that survives -/
theorem C18_restrict_boundary_mem (t2f : List (List Nat)) (elements bnd : List Nat) (g : Nat) :
    g ∈ restrictBoundary t2f elements bnd ↔ ∃ f ∈ bnd, newFacet t2f elements f = some g := by
  simp [restrictBoundary, List.mem_filterMap]

-- two triangles sharing an edge, keep the second: old facets [[0,1],[0,2],[1,2],[1,3],[2,3]]
example : usedFacets (entityMapping [[0, 1, 2], [1, 2, 3]] [[0, 1], [1, 2], [0, 2]]) [1] = [2, 3, 4] := by
  decide
example : entitiesSorted (restrictCells [[0, 1, 2], [1, 2, 3]] [1]) [[0, 1], [1, 2], [0, 2]]
    = [[0, 1], [0, 2], [1, 2]] := by decide
example : restrictBoundary (entityMapping [[0, 1, 2], [1, 2, 3]] [[0, 1], [1, 2], [0, 2]]) [1] [0, 2, 4]
    = [0, 2] := by decide

/-! ## C. subdomain maps of `restrict` / `remove_elements` -/

/-- **C18_restrict_subdomains**: for a selection without repetitions, new cell `j` (which is
    old cell `elements[j]`, see `C18_restrict_cells_geometric`) belongs to the carried
    subdomain iff old cell `elements[j]` belonged to it — for ANY order of `elements` and any
    order / repetitions inside the tag.  In particular cells that were removed designate
    nothing (their tags disappear) and nothing is invented. -/
theorem C18_restrict_subdomains (elements sub : List Nat) (hnd : elements.Nodup)
    (j : Nat) (hj : j < elements.length) :
    j ∈ restrictSub elements sub ↔ elements[j] ∈ sub := by
  simp only [restrictSub, List.mem_map, List.mem_filter, mem_unique, List.contains_iff_mem]
  constructor
  · rintro ⟨k, ⟨hk, hke⟩, hidx⟩
    have hlt : elements.idxOf k < elements.length := List.idxOf_lt_length_of_mem hke
    have := List.getElem_idxOf hlt
    simp only [hidx] at this
    rw [this]; exact hk
  · intro h
    exact ⟨elements[j], ⟨h, List.getElem_mem hj⟩, hnd.idxOf_getElem j hj⟩

/-- every carried index is a cell of the new mesh -/
theorem C18_restrict_subdomains_range (elements sub : List Nat) (j : Nat)
    (h : j ∈ restrictSub elements sub) : j < elements.length := by
  simp only [restrictSub, List.mem_map, List.mem_filter, List.contains_iff_mem] at h
  obtain ⟨k, ⟨_, hke⟩, rfl⟩ := h
  exact List.idxOf_lt_length_of_mem hke

/-- **C18_remove_complement**: `remove_elements` keeps exactly the cells that are not listed,
    each once, in ascending order (so it is `restrict` to a valid selection) -/
theorem C18_remove_complement (nt : Nat) (D : List Nat) :
    (∀ k, k ∈ removeKeep nt D ↔ k < nt ∧ k ∉ D) ∧ (removeKeep nt D).Nodup ∧
    (removeKeep nt D).Pairwise (· < ·) := by
  have hp : (removeKeep nt D).Pairwise (· < ·) := by
    unfold removeKeep complementRange
    exact List.Pairwise.filter _ List.pairwise_lt_range
  refine ⟨?_, ?_, hp⟩
  · intro k
    simp [removeKeep, complementRange, List.mem_filter]
  · exact hp.imp (fun h => Nat.ne_of_lt h)

/-- `remove_elements`, subdomains: new cell `j` is in the carried tag iff its old cell was, and
    its old cell is never one of the removed ones -/
theorem C18_remove_subdomains (nt : Nat) (D sub : List Nat) (j : Nat)
    (hj : j < (removeKeep nt D).length) :
    (j ∈ restrictSub (removeKeep nt D) sub ↔ (removeKeep nt D)[j] ∈ sub) ∧
    (removeKeep nt D)[j] ∉ D ∧ (removeKeep nt D)[j] < nt := by
  obtain ⟨hmem, hnd, _⟩ := C18_remove_complement nt D
  have := (hmem _).mp (List.getElem_mem hj)
  exact ⟨C18_restrict_subdomains _ sub hnd j hj, this.2, this.1⟩

example : restrictSub [5, 2, 7] [7, 3, 5] = [0, 2] := by decide
example : removeKeep 6 [4, 1] = [0, 2, 3, 5] := by decide

/-! ## D. duplicate vertices: `_remove_duplicate_nodes`, `+`, `@` -/

section Dedup
variable {α : Type} [LT α] [DecidableLT α] [DecidableEq α] [Inhabited α] [StrictTotal α]

theorem getD_mem {pts : List α} {v : Nat} (hv : v < pts.length) : pts.getD v default ∈ pts := by
  simp [List.getD_eq_getElem?_getD, hv]

/-- **C18_join_dedup (merged iff equal coordinates)**: two old vertices get the same new
    number iff their coordinates are equal -/
theorem C18_dedup_merge_iff (pts : List α) (v w : Nat) (hv : v < pts.length) (hw : w < pts.length) :
    dedupMap pts v = dedupMap pts w ↔ pts[v] = pts[w] := by
  have e1 : pts.getD v default = pts[v] := by simp [List.getD_eq_getElem?_getD, hv]
  have e2 : pts.getD w default = pts[w] := by simp [List.getD_eq_getElem?_getD, hw]
  simp only [dedupMap, e1, e2]
  constructor
  · intro h
    exact idxOf_inj_of_mem (mem_unique.mpr (List.getElem_mem hv))
      (mem_unique.mpr (List.getElem_mem hw)) h
  · intro h; rw [h]

/-- **coordinates are kept**: the point stored under the new number of `v` is the point of `v` -/
theorem C18_dedup_coords (pts : List α) (v : Nat) (hv : v < pts.length) :
    (dedupPoints pts).getD (dedupMap pts v) default = pts[v] := by
  have e1 : pts.getD v default = pts[v] := by simp [List.getD_eq_getElem?_getD, hv]
  have hm : pts[v] ∈ unique pts := mem_unique.mpr (List.getElem_mem hv)
  have hlt : (unique pts).idxOf pts[v] < (unique pts).length := List.idxOf_lt_length_of_mem hm
  simp only [dedupPoints, dedupMap, e1, List.getD_eq_getElem?_getD,
    List.getElem?_eq_getElem hlt, Option.getD_some]
  exact List.getElem_idxOf hlt

/-- connectivity remapped through the inverse: every cell keeps its coordinates, vertex by vertex -/
theorem C18_dedup_cells_geometric (pts : List α) (c : List Nat) (hc : ∀ v ∈ c, v < pts.length) :
    cellCoords (dedupPoints pts) (c.map (dedupMap pts)) = cellCoords pts c := by
  simp only [cellCoords, List.map_map]
  apply List.map_congr_left
  intro v hv
  have h := hc v hv
  simp only [Function.comp]
  rw [C18_dedup_coords pts v h]
  simp [List.getD_eq_getElem?_getD, h]

/-- **validity**: the result has no duplicate vertex, every new index is in range and every new
    vertex is the image of an old one (so it is used if every old vertex was) -/
theorem C18_dedup_valid (pts : List α) :
    (dedupPoints pts).Nodup ∧
    (∀ v, v < pts.length → dedupMap pts v < (dedupPoints pts).length) ∧
    (∀ j, j < (dedupPoints pts).length → ∃ v, v < pts.length ∧ dedupMap pts v = j) := by
  refine ⟨nodup_unique _, ?_, ?_⟩
  · intro v hv
    exact List.idxOf_lt_length_of_mem (mem_unique.mpr (getD_mem hv))
  · intro j hj
    have hm : (unique pts)[j] ∈ pts := mem_unique.mp (List.getElem_mem hj)
    obtain ⟨v, hv, e⟩ := List.getElem_of_mem hm
    refine ⟨v, hv, ?_⟩
    have e1 : pts.getD v default = pts[v] := by simp [List.getD_eq_getElem?_getD, hv]
    simp only [dedupMap, e1, e]
    exact (nodup_unique pts).idxOf_getElem j hj

/-- **C18_join (`+`)**: in the joined mesh the cells of the left mesh keep their coordinates
    w.r.t. the left points and the cells of the right mesh theirs w.r.t. the right points -/
theorem C18_join_cells_geometric (p1 p2 : List α) (c : List Nat) :
    ((∀ v ∈ c, v < p1.length) →
      cellCoords (dedupPoints (p1 ++ p2)) (c.map (dedupMap (p1 ++ p2))) = cellCoords p1 c) ∧
    ((∀ v ∈ c, v < p2.length) →
      cellCoords (dedupPoints (p1 ++ p2)) ((c.map (· + p1.length)).map (dedupMap (p1 ++ p2)))
        = cellCoords p2 c) := by
  constructor
  · intro hc
    rw [C18_dedup_cells_geometric (p1 ++ p2) c (fun v hv => by
      have := hc v hv; simp; omega)]
    simp only [cellCoords]
    apply List.map_congr_left
    intro v hv
    have := hc v hv
    simp [List.getD_eq_getElem?_getD, List.getElem?_append_left this]
  · intro hc
    rw [C18_dedup_cells_geometric (p1 ++ p2) _ (fun w hw => by
      obtain ⟨v, hv, rfl⟩ := List.mem_map.mp hw
      have := hc v hv; simp; omega)]
    simp only [cellCoords, List.map_map]
    apply List.map_congr_left
    intro v hv
    simp only [Function.comp, List.getD_eq_getElem?_getD]
    rw [List.getElem?_append_right (by omega)]
    simp

end Dedup

/-- point `v` of mesh `i` sits at position `prefixSum sizes i + v` of the stacked array -/
theorem flatten_getD_prefix {α : Type} [Inhabited α] :
    ∀ (ps : List (List α)) (i v : Nat), i < ps.length → v < (ps.getD i []).length →
      ps.flatten.getD (prefixSum (ps.map List.length) i + v) default = (ps.getD i []).getD v default
  | [], i, _, hi, _ => by simp at hi
  | q :: qs, 0, v, _, hv => by
    have hv' : v < q.length := by simpa using hv
    simp [prefixSum, List.getD_eq_getElem?_getD, List.getElem?_append_left hv']
  | q :: qs, i + 1, v, hi, hv => by
    have hi' : i < qs.length := by simpa using hi
    have hv' : v < (qs.getD i []).length := by simpa using hv
    have ih := flatten_getD_prefix qs i v hi' hv'
    simp only [List.map_cons, prefixSum, List.flatten_cons, List.getD_eq_getElem?_getD] at ih ⊢
    rw [List.getElem?_append_right (by omega)]
    have : q.length + prefixSum (List.map List.length qs) i + v - q.length
        = prefixSum (List.map List.length qs) i + v := by omega
    rw [this, ih]
    simp

section Matmul
variable {α : Type} [LT α] [DecidableLT α] [DecidableEq α] [Inhabited α] [StrictTotal α]

theorem prefixSum_add_lt (ps : List (List α)) :
    ∀ (i v : Nat), i < ps.length → v < (ps.getD i []).length →
      prefixSum (ps.map List.length) i + v < ps.flatten.length := by
  induction ps with
  | nil => intro i v hi; simp at hi
  | cons q qs ih =>
    intro i v hi hv
    cases i with
    | zero =>
      have : v < q.length := by simpa using hv
      simp [prefixSum]; omega
    | succ i =>
      have hi' : i < qs.length := by simpa using hi
      have hv' : v < (qs.getD i []).length := by simpa using hv
      have := ih i v hi' hv'
      simp only [List.map_cons, prefixSum, List.flatten_cons, List.length_append]
      omega

/-- **C18_matmul (`@`, repaired)**: for ANY number of meshes, a cell of mesh `i` keeps, in the
    common deduplicated point array, the coordinates it has in mesh `i` -/
theorem C18_matmul_cells_geometric (ps : List (List α)) (i : Nat) (hi : i < ps.length)
    (c : List Nat) (hc : ∀ v ∈ c, v < (ps.getD i []).length) :
    cellCoords (dedupPoints ps.flatten)
        ((c.map (· + (stackOffsets (ps.map List.length)).getD i 0)).map (dedupMap ps.flatten))
      = cellCoords (ps.getD i []) c := by
  have hoff : (stackOffsets (ps.map List.length)).getD i 0 = prefixSum (ps.map List.length) i := by
    simp [stackOffsets, List.getD_eq_getElem?_getD, hi]
  rw [hoff, C18_dedup_cells_geometric ps.flatten _ (fun w hw => by
    obtain ⟨v, hv, rfl⟩ := List.mem_map.mp hw
    have := prefixSum_add_lt ps i v hi (hc v hv); omega)]
  simp only [cellCoords, List.map_map]
  apply List.map_congr_left
  intro v hv
  simp only [Function.comp]
  rw [Nat.add_comm v]
  exact flatten_getD_prefix ps i v hi (hc v hv)

end Matmul

instance : StrictTotal Int where
  irrefl := Int.lt_irrefl
  trans := fun _ _ _ => Int.lt_trans
  tri := fun a b => by omega

/-- the pinned code shifted every mesh of the list by the size of the first mesh only:
    `m1 @ [m2, m3]` with three disjoint one-cell line meshes gives mesh 3 the cell of mesh 2 -/
theorem C18_matmul_old_counterexample :
    let ps : List (List Int) := [[0, 1], [2, 3], [4, 5]]
    let ts : List (List (List Nat)) := [[[0, 1]], [[0, 1]], [[0, 1]]]
    matmulCellsOld ps ts = [[[0, 1]], [[2, 3]], [[2, 3]]] ∧
    matmulCells ps ts = [[[0, 1]], [[2, 3]], [[4, 5]]] := by
  decide

example : joinCells ([0, 1] : List Int) [1, 2] [[0, 1]] [[0, 1]] = [[0, 1], [1, 2]] := by decide
example : dedupPoints ([3, 1, 3, 2] : List Int) = [1, 2, 3] := by decide

/-! ## E. splitting into simplices: `to_meshtri`, `to_meshtet` -/

/-- **C18_split_maps (children)**: child number `i * nt + k` is template `i` applied to parent
    cell `k`, and all its vertices are vertices of that parent -/
theorem C18_split_child (templ cells : List (List Nat)) (i k : Nat)
    (hi : i < templ.length) (hk : k < cells.length) (hwf : ∀ v ∈ templ[i], v < cells[k].length) :
    ∃ h : i * cells.length + k < (splitCells templ cells).length,
      (splitCells templ cells)[i * cells.length + k] = slotCol cells[k] templ[i] ∧
      ∀ w ∈ (splitCells templ cells)[i * cells.length + k], w ∈ cells[k] := by
  obtain ⟨h1, h2⟩ := indexing_getElem cells templ i k hi hk
  refine ⟨h1, h2, ?_⟩
  intro w hw
  have hw' : w ∈ slotCol cells[k] templ[i] := by
    have e : (splitCells templ cells)[i * cells.length + k] = slotCol cells[k] templ[i] := h2
    rw [e] at hw; exact hw
  exact mem_slotCol hwf hw'

/-- **`j % nt` is the parent**: every child index `j < nblocks * nt` decomposes as block
    `j / nt` and parent `j % nt` -/
theorem C18_split_parent_mod (templ cells : List (List Nat)) (j : Nat)
    (hj : j < templ.length * cells.length)
    (hwf : ∀ tpl ∈ templ, ∀ c ∈ cells, ∀ v ∈ tpl, v < c.length) :
    ∃ (hk : j % cells.length < cells.length) (h : j < (splitCells templ cells).length),
      ∀ w ∈ (splitCells templ cells)[j], w ∈ cells[j % cells.length] := by
  have hnt : 0 < cells.length := by
    rcases Nat.eq_zero_or_pos cells.length with h | h
    · rw [h] at hj; simp at hj
    · exact h
  have hk : j % cells.length < cells.length := Nat.mod_lt _ hnt
  have hi : j / cells.length < templ.length := by
    apply Nat.div_lt_of_lt_mul; rw [Nat.mul_comm]; exact hj
  obtain ⟨h1, _, h3⟩ := C18_split_child templ cells (j / cells.length) (j % cells.length) hi hk
    (hwf _ (List.getElem_mem hi) _ (List.getElem_mem hk))
  have e : j / cells.length * cells.length + j % cells.length = j := by
    rw [Nat.mul_comm]; exact Nat.div_add_mod j cells.length
  refine ⟨hk, by rw [← e]; exact h1, ?_⟩
  intro w hw
  apply h3 w
  simpa only [e] using hw

/-- **C18_split_maps (subdomains)**: `concatenate((v, v + nt, …))` contains child `j` iff it
    contains the parent `j % nt` -/
theorem C18_split_subdomains (nt nblocks : Nat) (sub : List Nat) (hsub : ∀ s ∈ sub, s < nt)
    (j : Nat) (hj : j < nblocks * nt) :
    j ∈ splitSub nt nblocks sub ↔ j % nt ∈ sub := by
  have hnt : 0 < nt := by
    rcases Nat.eq_zero_or_pos nt with h | h
    · rw [h] at hj; simp at hj
    · exact h
  simp only [splitSub, List.mem_flatMap, List.mem_range, List.mem_map]
  constructor
  · rintro ⟨i, _, s, hs, rfl⟩
    have := hsub s hs
    rw [Nat.add_mul_mod_self_right, Nat.mod_eq_of_lt this]; exact hs
  · intro h
    refine ⟨j / nt, ?_, j % nt, h, ?_⟩
    · apply Nat.div_lt_of_lt_mul; rw [Nat.mul_comm]; exact hj
    · rw [Nat.add_comm, Nat.mul_comm]; exact Nat.div_add_mod j nt

/-- reading a slot of a child = reading the composed slot of the parent -/
theorem slotCol_slotCol (c tpl slot : List Nat) (h : ∀ v ∈ slot, v < tpl.length) :
    slotCol (slotCol c tpl) slot = slotCol c (slotCol tpl slot) := by
  simp only [slotCol, List.map_map]
  apply List.map_congr_left
  intro v hv
  have := h v hv
  simp [List.getD_eq_getElem?_getD, this]

def triRef : List (List Nat) := [[0, 1], [1, 2], [0, 2]]
def quadRef : List (List Nat) := [[0, 1], [1, 2], [2, 3], [0, 3]]

/-- **every edge of a quadrilateral is an edge of one of its two triangles**, hence a facet of
    the split mesh: the lookup of `to_meshtri` always finds the facet with the same vertex pair -/
theorem C18_to_meshtri_facets_present (cells : List (List Nat)) (e : List Nat)
    (he : e ∈ entitiesSorted cells quadRef) :
    e ∈ entitiesSorted (splitCells quadToTri cells) triRef := by
  obtain ⟨slot, hslot, c, hc, rfl⟩ := ent_complete cells quadRef e he
  -- (template, triangle slot) realising each quadrilateral edge
  have key : ∃ tpl ∈ quadToTri, ∃ ts ∈ triRef, slotCol tpl ts = slot := by
    simp only [quadRef, List.mem_cons, List.not_mem_nil, or_false] at hslot
    rcases hslot with rfl | rfl | rfl | rfl
    · exact ⟨[0, 1, 3], by simp [quadToTri], [0, 1], by simp [triRef], by decide⟩
    · exact ⟨[1, 2, 3], by simp [quadToTri], [0, 1], by simp [triRef], by decide⟩
    · exact ⟨[1, 2, 3], by simp [quadToTri], [1, 2], by simp [triRef], by decide⟩
    · exact ⟨[0, 1, 3], by simp [quadToTri], [0, 2], by simp [triRef], by decide⟩
  obtain ⟨tpl, htpl, ts, hts, rfl⟩ := key
  have hlen : ∀ v ∈ ts, v < tpl.length := by
    simp only [quadToTri, List.mem_cons, List.not_mem_nil, or_false] at htpl
    simp only [triRef, List.mem_cons, List.not_mem_nil, or_false] at hts
    rcases htpl with rfl | rfl <;> rcases hts with rfl | rfl | rfl <;> decide
  rw [← slotCol_slotCol c tpl ts hlen]
  apply ent_cover _ _ ts (slotCol c tpl) hts
  exact mem_indexing.mpr ⟨tpl, htpl, c, hc, rfl⟩

/-- the same for the crisscross style (local vertex 4 = centroid) -/
theorem C18_to_meshtri_x_facets_present (cells : List (List Nat)) (e : List Nat)
    (he : e ∈ entitiesSorted cells quadRef) :
    e ∈ entitiesSorted (splitCells quadToTriX cells) triRef := by
  obtain ⟨slot, hslot, c, hc, rfl⟩ := ent_complete cells quadRef e he
  have key : ∃ tpl ∈ quadToTriX, slotCol tpl [0, 1] = slot := by
    simp only [quadRef, List.mem_cons, List.not_mem_nil, or_false] at hslot
    rcases hslot with rfl | rfl | rfl | rfl
    · exact ⟨[0, 1, 4], by simp [quadToTriX], by decide⟩
    · exact ⟨[1, 2, 4], by simp [quadToTriX], by decide⟩
    · exact ⟨[2, 3, 4], by simp [quadToTriX], by decide⟩
    · exact ⟨[0, 3, 4], by simp [quadToTriX], by decide⟩
  obtain ⟨tpl, htpl, rfl⟩ := key
  have hlen : ∀ v ∈ [0, 1], v < tpl.length := by
    simp only [quadToTriX, List.mem_cons, List.not_mem_nil, or_false] at htpl
    rcases htpl with rfl | rfl | rfl | rfl <;> decide
  rw [← slotCol_slotCol c tpl [0, 1] hlen]
  apply ent_cover _ _ [0, 1] (slotCol c tpl) (by simp [triRef])
  exact mem_indexing.mpr ⟨tpl, htpl, c, hc, rfl⟩

/-! the shared-iterator lookup -/

theorem enumFromN_cons {β : Type} (n : Nat) (x : β) (xs : List β) :
    enumFromN n (x :: xs) = (n, x) :: enumFromN (n + 1) xs := rfl

/-- **C18_to_meshtri_facet_scan**: `to_meshtri` walks ONE iterator over the new facets for all
    old facets of a tag.  This finds every facet — and returns its position in the new facet
    table — provided the tag's facets are visited in ascending order without repetition (they
    are: `np.sort(boundaries[k])` of lexicographically numbered facets) and each is present
    (`C18_to_meshtri_facets_present`). -/
theorem C18_to_meshtri_facet_scan :
    ∀ (L : List (List Nat)) (n : Nat) (fs : List (List Nat)),
      L.Pairwise (· < ·) → fs.Pairwise (· < ·) → (∀ f ∈ fs, f ∈ L) →
      scanLookup (enumFromN n L) fs = some (fs.map (fun f => n + L.idxOf f))
  | _, _, [], _, _, _ => by simp [scanLookup]
  | [], _, f :: _, _, _, hm => by have := hm f (by simp); simp at this
  | x :: xs, n, f :: fs, hL, hfs, hm => by
    rw [List.pairwise_cons] at hL hfs
    by_cases hxf : x = f
    · subst hxf
      have hrest : ∀ g ∈ fs, g ∈ xs := by
        intro g hg
        rcases List.mem_cons.mp (hm g (by simp [hg])) with e | e
        · subst e; exact absurd (hfs.1 g hg) (List.lt_irrefl _)
        · exact e
      have ih := C18_to_meshtri_facet_scan xs (n + 1) fs hL.2 hfs.2 hrest
      have hne : ∀ g ∈ fs, ¬ x = g := fun g hg e => by
        subst e; exact absurd (hfs.1 _ hg) (List.lt_irrefl _)
      simp only [enumFromN_cons, scanLookup, List.dropWhile_cons, beq_self_eq_true,
        Bool.not_true, Bool.false_eq_true, if_false, ih, Option.map_some, List.map_cons,
        idxOf_cons_self', Nat.add_zero, Option.some.injEq, List.cons.injEq, true_and]
      apply List.map_congr_left
      intro g hg
      rw [idxOf_cons_ne (hne g hg)]; omega
    · have hall : ∀ g ∈ f :: fs, g ∈ xs ∧ ¬ x = g := by
        intro g hg
        have hfx : f ∈ xs := by
          rcases List.mem_cons.mp (hm f (by simp)) with e | e
          · exact absurd e.symm hxf
          · exact e
        have hxltf : x < f := hL.1 f hfx
        have hxg : x < g := by
          rcases List.mem_cons.mp hg with e | e
          · subst e; exact hxltf
          · exact List.lt_trans hxltf (hfs.1 g e)
        have hne : ¬ x = g := fun e => by subst e; exact absurd hxg (List.lt_irrefl _)
        rcases List.mem_cons.mp (hm g hg) with e | e
        · exact absurd e.symm hne
        · exact ⟨e, hne⟩
      have ih := C18_to_meshtri_facet_scan xs (n + 1) (f :: fs) hL.2
        (List.pairwise_cons.mpr hfs) (fun g hg => (hall g hg).1)
      have hb : (x == f) = false := by simpa using hxf
      have step : scanLookup (enumFromN n (x :: xs)) (f :: fs)
          = scanLookup (enumFromN (n + 1) xs) (f :: fs) := by
        simp [enumFromN_cons, scanLookup, List.dropWhile_cons, hb, hxf]
      rw [step, ih]
      congr 1
      apply List.map_congr_left
      intro g hg
      rw [idxOf_cons_ne (hall g hg).2]; omega

/-- the iterator is NOT rewound: visiting the facets out of order loses one (StopIteration);
    this is why the hypothesis "ascending" above is needed and what `np.sort` provides -/
theorem C18_to_meshtri_facet_scan_needs_sorted :
    triFacetLookup [[0, 1], [0, 2], [1, 2]] [[1, 2], [0, 1]] = none ∧
    triFacetLookup [[0, 1], [0, 2], [1, 2]] [[0, 1], [1, 2]] = some [0, 2] := by decide

example : splitCells quadToTri [[0, 1, 2, 3], [1, 4, 5, 2]]
    = [[0, 1, 3], [1, 4, 2], [1, 2, 3], [4, 5, 2]] := by decide
example : splitSub 3 2 [0, 2] = [0, 2, 3, 5] := by decide

/-! ## H. histories: a sequence of restrictions is one restriction -/

theorem mem_flatten_map {σ : Nat → Nat} {cs : List (List Nat)} {w : Nat}
    (h : w ∈ (cs.map (fun c => c.map σ)).flatten) : ∃ v ∈ cs.flatten, w = σ v := by
  obtain ⟨c', hc', hw⟩ := List.mem_flatten.mp h
  obtain ⟨c, hc, rfl⟩ := List.mem_map.mp hc'
  obtain ⟨v, hv, rfl⟩ := List.mem_map.mp hw
  exact ⟨v, List.mem_flatten.mpr ⟨c, hc, hv⟩, rfl⟩

/-- the rank numbering does not see an order preserving renumbering of the input -/
theorem reixCells_map (σ : Nat → Nat) (cs : List (List Nat)) (hσ : MonoOn σ (· ∈ cs.flatten)) :
    reixCells (cs.map (fun c => c.map σ)) = reixCells cs := by
  have hflat : (cs.map (fun c => c.map σ)).flatten = cs.flatten.map σ := by
    induction cs with
    | nil => rfl
    | cons c cs ih => simp [List.flatten_cons, List.map_append]
  have hU : reixUsed (cs.map (fun c => c.map σ)) = (reixUsed cs).map σ := by
    unfold reixUsed
    rw [hflat]
    exact unique_map σ cs.flatten (fun a ha b hb hab => hσ a b ha hb hab)
  simp only [reixCells, List.map_map]
  apply List.map_congr_left
  intro c hc
  simp only [Function.comp, List.map_map]
  apply List.map_congr_left
  intro v hv
  have hvm : v ∈ cs.flatten := List.mem_flatten.mpr ⟨c, hc, hv⟩
  simp only [Function.comp, reixMap, hU]
  apply idxOf_map_of_injOn σ (reixUsed cs) v (mem_used.mpr hvm)
  intro x hx hxe
  have hxm := mem_used.mp hx
  rcases Nat.lt_trichotomy x v with h | h | h
  · have := hσ x v hxm hvm h; omega
  · exact h
  · have := hσ v x hvm hxm h; omega

/-- **C18_compose**: restricting to `e1` and then (in the new numbering) to `e2` is restricting
    the original mesh to the composed selection `e1[e2]` — same cells, same numbering.  By
    induction every history of restrictions / removals is a single restriction, to which
    `C18_restrict_cells_geometric`, `C18_restrict_facets`, `C18_restrict_subdomains` apply. -/
theorem C18_compose (cells : List (List Nat)) (e1 e2 : List Nat) (h2 : ∀ j ∈ e2, j < e1.length) :
    restrictCells (restrictCells cells e1) e2
      = restrictCells cells (e2.map (fun j => e1.getD j 0)) := by
  let S1 := selectCells cells e1
  have hsel : selectCells (reixCells S1) e2
      = (selectCells S1 e2).map (fun c => c.map (reixMap S1)) := by
    simp only [selectCells, List.map_map]
    apply List.map_congr_left
    intro j hj
    have hj1 : j < e1.length := h2 j hj
    have hjS : j < S1.length := by simpa [S1, selectCells] using hj1
    simp [reixCells, List.getD_eq_getElem?_getD, List.getElem?_eq_getElem hjS]
  have hsel2 : selectCells S1 e2 = selectCells cells (e2.map (fun j => e1.getD j 0)) := by
    simp only [S1, selectCells, List.map_map]
    apply List.map_congr_left
    intro j hj
    have hj1 : j < e1.length := h2 j hj
    simp [List.getD_eq_getElem?_getD, hj1]
  have hmono : MonoOn (reixMap S1) (· ∈ (selectCells S1 e2).flatten) := by
    intro a b ha hb hab
    have sub : ∀ v, v ∈ (selectCells S1 e2).flatten → v ∈ S1.flatten := by
      intro v hv
      obtain ⟨c, hc, hvc⟩ := List.mem_flatten.mp hv
      simp only [selectCells, List.mem_map] at hc
      obtain ⟨j, hj, rfl⟩ := hc
      have hj1 : j < (List.map (fun k => cells.getD k []) e1).length := by
        simpa using h2 j hj
      refine List.mem_flatten.mpr ⟨_, List.getElem_mem hj1, ?_⟩
      simpa [S1, selectCells, List.getD_eq_getElem?_getD, h2 j hj] using hvc
    exact reixMap_monoOn S1 a b (sub a ha) (sub b hb) hab
  show reixCells (selectCells (reixCells S1) e2) = _
  rw [hsel, reixCells_map _ _ hmono, hsel2]
  rfl

example : restrictCells (restrictCells [[0, 1, 2], [1, 2, 3], [2, 3, 4]] [2, 0]) [1]
    = restrictCells [[0, 1, 2], [1, 2, 3], [2, 3, 4]] [0] := by decide

/-! ## F. extrusion `MeshTri1 * MeshLine1` -/

theorem extrudeCells_eq_flatten (nv : Nat) (cells : List (List Nat)) (nlayers : Nat) :
    extrudeCells nv cells nlayers = ((List.range nlayers).map (fun i =>
      cells.map (fun c => c.map (· + i * nv) ++ c.map (· + (i + 1) * nv)))).flatten := by
  simp [extrudeCells, List.flatMap]

/-- **C18_extrude (connectivity)**: wedge number `i * nt + k` (layer `i`, base cell `k`) is the
    base cell at level `i` stacked under the base cell at level `i + 1` -/
theorem C18_extrude_cells (nv : Nat) (cells : List (List Nat)) (nlayers i k : Nat)
    (hi : i < nlayers) (hk : k < cells.length) :
    ∃ h : i * cells.length + k < (extrudeCells nv cells nlayers).length,
      (extrudeCells nv cells nlayers)[i * cells.length + k]
        = cells[k].map (· + i * nv) ++ cells[k].map (· + (i + 1) * nv) := by
  have hrows : ∀ r ∈ (List.range nlayers).map (fun i =>
      cells.map (fun c => c.map (· + i * nv) ++ c.map (· + (i + 1) * nv))),
      r.length = cells.length := by
    intro r hr
    obtain ⟨_, _, rfl⟩ := List.mem_map.mp hr
    simp
  obtain ⟨h1, h2⟩ := flatten_getElem_of_uniform _ cells.length hrows i k (by simpa using hi) hk
  refine ⟨by rw [extrudeCells_eq_flatten]; exact h1, ?_⟩
  simp only [extrudeCells_eq_flatten]
  rw [h2]
  simp

/-- **C18_extrude (points)**: vertex `v + i * nv` of the extruded mesh is base vertex `v` with
    the extra coordinate `zs[i]` -/
theorem C18_extrude_points {γ : Type} (pts : List (List γ)) (zs : List γ) (i v : Nat)
    (hi : i < zs.length) (hv : v < pts.length) :
    ∃ h : i * pts.length + v < (extrudePoints pts zs).length,
      (extrudePoints pts zs)[i * pts.length + v] = pts[v] ++ [zs[i]] := by
  have e : extrudePoints pts zs = (zs.map (fun z => pts.map (· ++ [z]))).flatten := by
    simp [extrudePoints, List.flatMap]
  have hrows : ∀ r ∈ zs.map (fun z => pts.map (· ++ [z])), r.length = pts.length := by
    intro r hr
    obtain ⟨_, _, rfl⟩ := List.mem_map.mp hr
    simp
  obtain ⟨h1, h2⟩ := flatten_getElem_of_uniform _ pts.length hrows i v (by simpa using hi) hv
  refine ⟨by rw [e]; exact h1, ?_⟩
  simp only [e]
  rw [h2]
  simp

example : extrudeCells 4 [[0, 1, 2], [1, 3, 2]] 2
    = [[0, 1, 2, 4, 5, 6], [1, 3, 2, 5, 7, 6], [4, 5, 6, 8, 9, 10], [5, 7, 6, 9, 11, 10]] := by decide

/-! ## G. affine coordinate maps: `scaled`, `translated`, `mirrored` (any field, e.g. ℚ) -/

section Affine
variable {K : Type} [Field K]

def det2 (a0 a1 b0 b1 : K) : K := a0 * b1 - a1 * b0
def det3 (a0 a1 a2 b0 b1 b2 c0 c1 c2 : K) : K :=
  a0 * (b1 * c2 - b2 * c1) - a1 * (b0 * c2 - b2 * c0) + a2 * (b0 * c1 - b1 * c0)

/-- **C18_transforms (scaling, 2-D)**: the signed area spanned by two edge vectors is multiplied
    by the product of the factors (so measures scale by `|fx * fy|`) -/
theorem C18_scaled_det2 (fx fy a0 a1 b0 b1 : K) :
    det2 (fx * a0) (fy * a1) (fx * b0) (fy * b1) = (fx * fy) * det2 a0 a1 b0 b1 := by
  simp only [det2]; ring

/-- scaling, 3-D: volumes are multiplied by `fx * fy * fz` -/
theorem C18_scaled_det3 (fx fy fz a0 a1 a2 b0 b1 b2 c0 c1 c2 : K) :
    det3 (fx * a0) (fy * a1) (fz * a2) (fx * b0) (fy * b1) (fz * b2) (fx * c0) (fy * c1) (fz * c2)
      = (fx * fy * fz) * det3 a0 a1 a2 b0 b1 b2 c0 c1 c2 := by
  simp only [det3]; ring

/-- translation leaves every edge vector, hence every measure, unchanged -/
theorem C18_translated_edge (p q d : K) : (p + d) - (q + d) = p - q := by ring

/-- reflection `x ↦ x - 2 (n·(x - p0)) / (n·n) n`, 2-D, component `j` -/
def mir2 (n0 n1 a0 a1 x0 x1 : K) : K × K :=
  let s := 2 * (n0 * (x0 - a0) + n1 * (x1 - a1)) / (n0 * n0 + n1 * n1)
  (x0 - s * n0, x1 - s * n1)

def mir3 (n0 n1 n2 a0 a1 a2 x0 x1 x2 : K) : K × K × K :=
  let s := 2 * (n0 * (x0 - a0) + n1 * (x1 - a1) + n2 * (x2 - a2)) / (n0 * n0 + n1 * n1 + n2 * n2)
  (x0 - s * n0, x1 - s * n1, x2 - s * n2)

/-- **mirror is an involution** (2-D), for every normal with `n·n ≠ 0` and every point -/
theorem C18_mirror_involution2 (n0 n1 a0 a1 x0 x1 : K) (hn : n0 * n0 + n1 * n1 ≠ 0) :
    mir2 n0 n1 a0 a1 (mir2 n0 n1 a0 a1 x0 x1).1 (mir2 n0 n1 a0 a1 x0 x1).2 = (x0, x1) := by
  have hn' : n0 ^ 2 + n1 ^ 2 ≠ 0 := by rwa [pow_two, pow_two]
  simp only [mir2, Prod.mk.injEq]
  constructor <;> (field_simp; ring)

/-- mirror is an involution (3-D) -/
theorem C18_mirror_involution3 (n0 n1 n2 a0 a1 a2 x0 x1 x2 : K)
    (hn : n0 * n0 + n1 * n1 + n2 * n2 ≠ 0) :
    mir3 n0 n1 n2 a0 a1 a2 (mir3 n0 n1 n2 a0 a1 a2 x0 x1 x2).1
      (mir3 n0 n1 n2 a0 a1 a2 x0 x1 x2).2.1 (mir3 n0 n1 n2 a0 a1 a2 x0 x1 x2).2.2
      = (x0, x1, x2) := by
  have hn' : n0 ^ 2 + n1 ^ 2 + n2 ^ 2 ≠ 0 := by rwa [pow_two, pow_two, pow_two]
  simp only [mir3, Prod.mk.injEq]
  refine ⟨?_, ?_, ?_⟩ <;> (field_simp; ring)

/-- **mirror preserves measures**: the signed area spanned by two mirrored edge vectors is the
    negative of the original one (same absolute value, orientation flipped) -/
theorem C18_mirror_det2 (n0 n1 u0 u1 v0 v1 : K) (hn : n0 * n0 + n1 * n1 ≠ 0) :
    det2 (mir2 n0 n1 0 0 u0 u1).1 (mir2 n0 n1 0 0 u0 u1).2
         (mir2 n0 n1 0 0 v0 v1).1 (mir2 n0 n1 0 0 v0 v1).2 = - det2 u0 u1 v0 v1 := by
  have hn' : n0 ^ 2 + n1 ^ 2 ≠ 0 := by rwa [pow_two, pow_two]
  simp only [det2, mir2]
  field_simp
  ring

end Affine

end Skv.C18
