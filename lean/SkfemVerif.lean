-- Root of the `SkfemVerif` library: models, lemmas, property theorems, audits.
import SkfemVerif.Model.Np
import SkfemVerif.Model.Topology
