-- Root of the `SkfemVerif` library: models, lemmas, property theorems.
import SkfemVerif.Model.Np
import SkfemVerif.Model.Topology
import SkfemVerif.Model.Dofs
import SkfemVerif.Model.Assembly
import SkfemVerif.Lemmas.Np
import SkfemVerif.Lemmas.Topology
import SkfemVerif.Lemmas.Threads
import SkfemVerif.Lemmas.Dofs
import SkfemVerif.Lemmas.Assembly
import SkfemVerif.Props.C01
import SkfemVerif.Props.C04
import SkfemVerif.Props.C11
import SkfemVerif.Props.C16
import SkfemVerif.Model.BC
import SkfemVerif.Model.Quadrature
import SkfemVerif.Lemmas.BC
import SkfemVerif.Props.C05
