import Lean.Data.Json
import SkfemVerif.Drv.Base
import SkfemVerif.Model.Topology
import SkfemVerif.Model.Dofs
import SkfemVerif.Model.Assembly
import SkfemVerif.Drv.All
/-
Line-protocol driver: one JSON object per input line, one JSON value per output line.
Imports only the (Mathlib-free) models, so it can be linked as an executable.
-/
open Lean Skv

namespace Drv

def opTopoEntities (j : Json) : Option Json := do
  let cells ← (field? j "cells") >>= getNatMat?
  let ref ← (field? j "ref") >>= getNatMat?
  let sort ← match field? j "sort" with
    | some (Json.bool b) => some b
    | _ => none
  let (ents, mapping) := buildEntities cells ref sort
  pure <| Json.mkObj [("entities", natMat ents), ("mapping", natMat mapping)]

def opTopoInverse (j : Json) : Option Json := do
  let nt ← (field? j "nt") >>= getNat?
  let mapping ← (field? j "mapping") >>= getNatMat?
  let (r0, r1) := buildInverse nt mapping
  pure <| Json.mkObj [("f2t0", intList r0), ("f2t1", intList r1),
                      ("boundary", natList (boundaryFacets r1)),
                      ("interior", natList (interiorFacets r1))]

def opSplit (j : Json) : Option Json := do
  let len ← (field? j "len") >>= getNat?
  let n ← (field? j "n") >>= getNat?
  pure <| natMat (arraySplit (List.range len) n)


def getTopo? (j : Json) : Option Topo := do
  let dim ← (field? j "dim") >>= getNat?
  let nverts ← (field? j "nverts") >>= getNat?
  let nedges ← (field? j "nedges") >>= getNat?
  let nfacets ← (field? j "nfacets") >>= getNat?
  let nt ← (field? j "nt") >>= getNat?
  let t ← (field? j "t") >>= getNatMat?
  let t2e ← (field? j "t2e") >>= getNatMat?
  let t2f ← (field? j "t2f") >>= getNatMat?
  pure { dim := dim, nverts := nverts, nedges := nedges, nfacets := nfacets, nt := nt, t := t, t2e := t2e, t2f := t2f }

def getCounts? (j : Json) : Option DofCounts := do
  let l ← (field? j "counts") >>= getNatList?
  match l with
  | [a, b, c, d] => pure { nodal := a, edge := b, facet := c, interior := d }
  | _ => none

def opDofsInit (j : Json) : Option Json := do
  let tp ← getTopo? j
  let c ← getCounts? j
  pure <| Json.mkObj [("nodal", natMat (nodalDofs c tp)), ("edge", natMat (edgeDofs c tp)),
    ("facet", natMat (facetDofs c tp)), ("interior", natMat (interiorDofs c tp)),
    ("element_dofs", natMat (elementDofs c tp)), ("N", Json.num (JsonNumber.fromNat (dofsN c tp))),
    ("total", Json.num (JsonNumber.fromNat (dofsTotal c tp)))]

/-- dofs.view : flatten of a view given index sets and name filter -/
def opDofsView (j : Json) : Option Json := do
  let tp ← getTopo? j
  let c ← getCounts? j
  let nodalIx ← (field? j "nodal_ix") >>= getNatList?
  let facetIx ← (field? j "facet_ix") >>= getNatList?
  let edgeIx ← (field? j "edge_ix") >>= getNatList?
  let interiorIx ← (field? j "interior_ix") >>= getNatList?
  let dofnames ← (field? j "dofnames") >>= getStrList?
  let names ← (field? j "names") >>= getStrList?
  let skip ← (field? j "skip") >>= getBool?
  let nN := (nodalDofs c tp).length
  let nF := (facetDofs c tp).length
  let nE := (edgeDofs c tp).length
  let nI := (interiorDofs c tp).length
  let v : View := View.mk nodalIx facetIx edgeIx interiorIx
    (rowsByName dofnames names skip nN 0)
    (rowsByName dofnames names skip nF nN)
    (rowsByName dofnames names skip nE (nN + nF))
    (rowsByName dofnames names skip nI (nN + nF + nE))
  pure <| Json.mkObj [("flat", natList (v.flatten c tp)), ("nodal_rows", natList v.nodalRows),
    ("facet_rows", natList v.facetRows), ("edge_rows", natList v.edgeRows),
    ("interior_rows", natList v.interiorRows)]

def opExpandFacets (j : Json) : Option Json := do
  let facets ← (field? j "facets") >>= getNatMat?
  let f2e ← (field? j "f2e") >>= getNatMat?
  let ix ← (field? j "ix") >>= getNatList?
  let we ← (field? j "with_edges") >>= getBool?
  let (v, e) := expandFacets facets f2e ix we
  pure <| Json.mkObj [("vertices", natList v), ("edges", natList e)]

def opThreadChunks (j : Json) : Option Json := do
  let nu ← (field? j "Nu") >>= getNat?
  let nv ← (field? j "Nv") >>= getNat?
  let n ← (field? j "n") >>= getNat?
  pure <| Json.arr ((threadChunks nu nv n).map (fun ch =>
    Json.arr (ch.map (fun p => natList [p.1, p.2])).toArray)).toArray

def extraOps : List (String × (Json → Option Json)) := allOps

def dispatch (j : Json) : Json :=
  match field? j "op" with
  | some (Json.str "topo.entities") => (opTopoEntities j).getD (err "bad-args")
  | some (Json.str "topo.inverse") => (opTopoInverse j).getD (err "bad-args")
  | some (Json.str "np.array_split") => (opSplit j).getD (err "bad-args")
  | some (Json.str "dofs.init") => (opDofsInit j).getD (err "bad-args")
  | some (Json.str "dofs.view") => (opDofsView j).getD (err "bad-args")
  | some (Json.str "topo.expand_facets") => (opExpandFacets j).getD (err "bad-args")
  | some (Json.str "threads.chunks") => (opThreadChunks j).getD (err "bad-args")
  | some (Json.str "ping") => Json.str "pong"
  | some (Json.str op) =>
    match extraOps.find? (fun p => p.1 == op) with
    | some (_, f) => (f j).getD (err "bad-args")
    | none => err "bad-op"
  | _ => err "bad-op"

partial def loop (hin : IO.FS.Stream) (hout : IO.FS.Stream) : IO Unit := do
  let line ← hin.getLine
  if line.isEmpty then return ()
  let out := match Json.parse line with
    | .ok j => dispatch j
    | .error e => err s!"parse: {e}"
  hout.putStrLn out.compress
  loop hin hout

end Drv

def main : IO Unit := do
  let hin ← IO.getStdin
  let hout ← IO.getStdout
  Drv.loop hin hout
  hout.flush
