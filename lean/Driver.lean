import Lean.Data.Json
import SkfemVerif.Model.Np
import SkfemVerif.Model.Topology
/-
Line-protocol driver: one JSON object per input line, one JSON value per output line.
Imports only the (Mathlib-free) models, so it can be linked as an executable.
-/
open Lean Skv

namespace Drv

def err (msg : String) : Json := Json.mkObj [("error", Json.str msg)]

def getNat? (j : Json) : Option Nat :=
  match j.getInt? with
  | .ok i => if i ≥ 0 then some i.toNat else none
  | _ => none

def getInt? (j : Json) : Option Int :=
  match j.getInt? with
  | .ok i => some i
  | _ => none

def getNatList? (j : Json) : Option (List Nat) :=
  match j.getArr? with
  | .ok a => a.toList.mapM getNat?
  | _ => none

def getIntList? (j : Json) : Option (List Int) :=
  match j.getArr? with
  | .ok a => a.toList.mapM getInt?
  | _ => none

def getNatMat? (j : Json) : Option (List (List Nat)) :=
  match j.getArr? with
  | .ok a => a.toList.mapM getNatList?
  | _ => none

def field? (j : Json) (k : String) : Option Json :=
  match j.getObjVal? k with
  | .ok v => some v
  | _ => none

def natList (l : List Nat) : Json := Json.arr (l.map (fun n => Json.num (JsonNumber.fromNat n))).toArray
def intList (l : List Int) : Json := Json.arr (l.map (fun n => Json.num (JsonNumber.fromInt n))).toArray
def natMat (m : List (List Nat)) : Json := Json.arr (m.map natList).toArray

def opTopoEntities (j : Json) : Option Json := do
  let cells ← (field? j "cells") >>= getNatMat?
  let ref ← (field? j "ref") >>= getNatMat?
  let sort ← match field? j "sort" with
    | some (Json.bool b) => some b
    | _ => none
  let (ents, mapping) := buildEntities cells ref sort
  pure <| Json.mkObj [("entities", natMat ents), ("mapping", natMat mapping)]

def opTopoInverse (j : Json) : Option Json := do
  let nt ← (field? j "nt") >>= getNat?
  let mapping ← (field? j "mapping") >>= getNatMat?
  let (r0, r1) := buildInverse nt mapping
  pure <| Json.mkObj [("f2t0", intList r0), ("f2t1", intList r1),
                      ("boundary", natList (boundaryFacets r1)),
                      ("interior", natList (interiorFacets r1))]

def opSplit (j : Json) : Option Json := do
  let len ← (field? j "len") >>= getNat?
  let n ← (field? j "n") >>= getNat?
  pure <| natMat (arraySplit (List.range len) n)

def dispatch (j : Json) : Json :=
  match field? j "op" with
  | some (Json.str "topo.entities") => (opTopoEntities j).getD (err "bad-args")
  | some (Json.str "topo.inverse") => (opTopoInverse j).getD (err "bad-args")
  | some (Json.str "np.array_split") => (opSplit j).getD (err "bad-args")
  | some (Json.str "ping") => Json.str "pong"
  | _ => err "bad-op"

partial def loop (hin : IO.FS.Stream) (hout : IO.FS.Stream) : IO Unit := do
  let line ← hin.getLine
  if line.isEmpty then return ()
  let out := match Json.parse line with
    | .ok j => dispatch j
    | .error e => err s!"parse: {e}"
  hout.putStrLn out.compress
  loop hin hout

end Drv

def main : IO Unit := do
  let hin ← IO.getStdin
  let hout ← IO.getStdout
  Drv.loop hin hout
  hout.flush
