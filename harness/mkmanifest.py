#!/usr/bin/env python3
"""Regenerates /verif/MANIFEST.json from the table below (keeps it schema-valid)."""
import json
import os
from pathlib import Path

VERIF = Path(__file__).resolve().parents[1]

COMMON_NOTE = ("Trusted: Lean 4.33 kernel with axioms propext/Classical.choice/Quot.sound only (audited by "
               "#print axioms on every run, no sorry/native_decide/bv_decide/user axioms); the hand-written Lean "
               "model is tied to /repo by the correspondence ops named in the evidence file (model and "
               "implementation run on the same generated inputs, exact comparison) and generated Lean files are "
               "re-extracted from the live modules on every run; NumPy/SciPy primitives enter as contracts "
               "validated by that correspondence; floating-point rounding is outside the model.")

# id -> (technique, level text, extra note)
CHECKS = {
    "C11": ("Lean 4 proof over an executable model of build_entities/build_inverse + exact correspondence",
            "Theorems for every cell list and reference table: entities distinct and lexicographically sorted, "
            "slot specification of t2f/t2e, completeness, sharing iff same vertex tuple, renumbering invariance, "
            "boundary/interior partition, f2t first neighbour contains the facet. The model is run against "
            "Mesh.build_entities/build_inverse on random meshes of all ten classes (exact array equality) and the "
            "relational invariants are evaluated on the implementation as failing-input search.",
            "f2t 'exactly the one or two cells' is proved for the first neighbour only; the two-neighbour "
            "characterisation and the incidence matrices are covered by correspondence and search (partial)."),
}

CHECKS["C04"] = (
    "Lean 4 proof over an executable model of Dofs.__init__ + exact correspondence",
    "Theorems for arbitrary DOF counts, dimension and connectivity tables: closed form and injectivity of the "
    "table entries, consecutive blocks without gap or overlap, per-cell table = per-entity table gathered through "
    "t/t2e/t2f, two cells share a number iff same local dof of the same entity, interior numbers in one cell only, "
    "boundedness and gap-freeness (every number below the total occurs when every entity occurs in a cell). The "
    "model is compared exactly with Dofs(mesh, element) (four tables, element_dofs, N) for random meshes x every "
    "exported element and Vector/DG/Composite wrappers; the iff-statement, layout, sparsity pattern and DOF "
    "location table are evaluated on the implementation as failing-input search.",
    "DOF-location single-valuedness is search only, and only for elements with at most one DOF per edge/facet; "
    "sparsity of assembled matrices is proved in C01_sparsity.")
CHECKS["C16"] = (
    "Lean 4 proof over all interleavings (inductive Interleaving) + observed worker sequences",
    "Theorems for all local sizes, all thread counts n > 0 (also n > Nu*Nv) and ALL interleavings of the workers' "
    "kernel invocations: array_split is a partition into n chunks, every pair is computed exactly once, the final "
    "output equals the serial output slot by slot, the flat slot map is injective (disjoint writes). The model's "
    "chunks are compared with the per-thread invocation sequences logged inside the integrand of the real "
    "BilinearForm(nthreads=n); schedules admissible for the model are imposed on the real threads at kernel "
    "granularity and the result compared bitwise with serial assembly; shared inputs are checksummed.",
    "Purity of the user kernel and atomicity of disjoint NumPy slice writes are hypotheses (runtime); races inside "
    "a single kernel invocation are not modelled (partial).")

CHECKS["C01"] = (
    "Lean 4 proof (Mathlib BigOperators) over an executable model of _assemble + exact correspondence on the "
    "implementation's own basis data",
    "Theorems for any commutative ring, any sizes, DOF tables, basis data, parameters, weights and coefficient "
    "vectors, and any integrand additive and homogeneous in trial and test argument: v^T A u = a(u_h, v_h), "
    "b^T v = l(v_h), s = J with the basis' quadrature; the flat position, row (= test DOF) and column (= trial DOF) "
    "of every triplet; the three form types are mutually consistent (functional of the interpolated fields); dense "
    "entries, harmlessness of dropped zeros, sparsity; the grammar integrands are bilinear. The executable model is "
    "run on the implementation's element_dofs / basis / dx / normalised parameters (exact rationals of the doubles) "
    "for random bases of all four kinds and compared with the raw output of BilinearForm/LinearForm/Functional."
    "_assemble and with basis.interpolate; the three-forms identity is evaluated on the implementation as search.",
    "That basis.basis/dx hold the right numbers is C09/C10/C02. Complex dtype and threaded kernels are covered by "
    "the search (and C16) only; TrilinearForm is not modelled (partial).")
CHECKS["C05"] = (
    "Lean 4 proof (Mathlib) over dense semantics + CSR index arithmetic lifted from the live source + exact "
    "correspondence",
    "Theorems for any commutative ring/field, any size, any kept/constrained split given as either set in any "
    "order with repetitions: _init_bc (complement, error cases), expansion, condense+solve+expand satisfies x on D "
    "and the ORIGINAL equations on the kept rows, enforce rows are diag*e_i / rhs x_i / others untouched and has the "
    "same solutions, penalize differs only in diagonal and rhs with error = -eps * coupling, the repaired CSR "
    "row-zeroing arithmetic equals the stored ranges of the rows (rows without stored entries included) and zeroes "
    "exactly those rows of the dense matrix; counterexample theorems for the arithmetic of the pinned tree. The "
    "model is compared exactly with _init_bc/condense/enforce/penalize on random sparse systems, the idx statements "
    "of enforce are lifted from the live source and compared with the model; residuals, row structure, matrix "
    "right-hand sides, DOF-collection types, mpc and operand checksums are evaluated on the implementation.",
    "spsolve and SciPy setdiag/diagonal/slicing are trusted contracts; mpc has no theorem yet (search only); real "
    "aliasing (overwrite=False) is runtime and covered by checksums (partial).")
CHECKS["C08"] = (
    "Lean 4 reflection (decide +kernel on tables regenerated from the source) lifted to all polynomials and orders",
    "Every triangle, tetrahedron and Gauss-Legendre (up to 20 points) table is re-extracted from the live module on "
    "every run as exact dyadic integers and kernel-checked: all monomials up to the advertised degree within 2^-40, "
    "nodes in the closed cell, weights sum to the measure. Theorems lift this to EVERY polynomial of the degree "
    "(error <= 2^-40 * l1 norm), to every requested order through the clamping/lookup model (error iff key absent), "
    "and through the tensor constructions to quadrilateral, hexahedron and prism (3eps/7eps). Lookup, clamping, "
    "error behaviour and the meshgrid/flatten tensor constructions are compared with get_quadrature for all cells "
    "and orders -3..45; every returned rule is also evaluated in exact rational arithmetic on every monomial.",
    "Exactness of leggauss beyond 20 points (orders > 39) is search only; rounding of tensor weight products is not "
    "modelled; the Dirichlet formula for monomial integrals is part of the statement (cross-checked). Finite "
    "domain explored exhaustively.")

CHECKS["C09"] = (
    "Lean 4 reflection (decide +kernel) on shape functions traced symbolically from the live lbasis, with "
    "soundness theorems against Mathlib's MvPolynomial.pderiv",
    "For every traceable exported element (50 of them) the (value, declared derivative) polynomials of every local "
    "basis function are re-extracted on every run by executing the real lbasis on exact symbolic polynomials, and "
    "the kernel checks: declared gradient / divergence / curl = formal derivative of the declared value, nodal "
    "duality, partition of unity, flux/circulation duality of lowest-order H(div)/H(curl) elements. Theorems give "
    "the checks their meaning: the model's formal derivative IS MvPolynomial.pderiv, coefficient-wise closeness "
    "bounds the pointwise difference on the reference cell, for every traced element/function/point; the power "
    "basis of globally defined elements delivers the dx-th derivative of x^i for ALL i, dx; Vandermonde duality "
    "for any linear functionals. Mapped derivatives (pull-back, Piola) of EVERY exported element are compared with "
    "4th-order finite differences in global coordinates on random affine/multilinear cells.",
    "Mapped derivatives are search only (no chain-rule theorem yet); ElementLinePp/QuadP, skeleton elements and the "
    "mesh-dependent functionals of global elements are not traced (numerical search only); which duality/PoU facts "
    "an element claims is frozen in gens/shape_expect.json (partial).")

CHECKS["C17"] = (
    "Lean 4 proof over an executable model of the tag encoding / node re-ordering + exact correspondence + real file round trips",
    "Theorems for EVERY table pair (t2f, f2t) satisfying the C11 specification (shown to hold for build_inverse of any "
    "slot table) and every duplicate-free facet set with legal orientation flags: bit test of the packed per-cell "
    "integers, decode(encode(B)) = the (facet, flag) pairs of B sorted by facet (flags travel with their facets; "
    "unoriented sets come back unoriented), subdomain indicator round trip, HEX_MAPPING / INV_HEX_MAPPING mutually "
    "inverse (27 and first 8 rows), __post_init__ o to_meshio = identity on (t, doflocs) for meshes in Dofs order, "
    "npz key scheme separates doflocs/t/boundaries/orientations/subdomains for arbitrary names; Lean counterexample for "
    "the pinned decoder (F4). Model compared exactly with _encode_cell_data/_decode_cell_data/HEX tables/__post_init__/"
    "real npz archives on every run. Search: real round trips through gmsh 4.1/2.2, vtk (binary/ascii), vtu "
    "(zlib/raw/ascii), in-memory meshio object, JSON file, dict, npz in a scratch directory for all eight mesh classes "
    "(incl. curved second order, larger refined meshes), random boundary/interior/oriented/unsorted/empty/full tag "
    "sets, names with ':' / non-ASCII, user point and cell data, checksums of the exported mesh.",
    "partial: meshio's writers/readers, numpy.savez and json are exercised, not modelled; the dict form has no Lean "
    "model (plain field copies); gmsh ASCII variants excluded (meshio 5.3 cannot re-read its own ASCII .msh under "
    "NumPy 2.x, independent of scikit-fem)",
)

CHECKS["C02"] = (
    "Lean 4 proof composing C08 (rule exactness for all polynomials), C01 (assembly sums) and C09 (degrees) + exact "
    "rational oracle on the implementation",
    "Theorems: dx = |det| W bookkeeping; |det| is independent of the local vertex order, of translations and of "
    "coordinate reflections/permutations (2-D, 3-D); discrete integrals add over cell lists and do not depend on "
    "the cell order; the functional computed by assembly is the discrete integral; on an affine cell of either "
    "orientation a rule accepted for degree n integrates EVERY pulled-back polynomial of degree <= n within "
    "D * l1 / 2^40 (simplices and boxes); every tabulated triangle rule gives the cell measure; affine substitution "
    "does not raise the total degree (MvPolynomial); products of traced shape functions have degree <= 2*maxdeg = "
    "the default order; the mass matrix of a partition-of-unity basis sums to the measure. Search: Functional of "
    "random integer polynomials over random rational meshes of all six cell types (whole mesh, cell subsets, facet "
    "sets; general convex quadrilaterals), Lagrange P0-P4 mass/stiffness/load against exactly computed rational "
    "matrices, mass sums, invariance under renumbering / cell permutation / rigid motion / refinement, all against "
    "an independent Fraction integrator.",
    "Exactness on general (non-affine) quadrilaterals/hexahedra and on facets is search only; the change of "
    "variables and the reference monomial integrals are part of the statement; rounding not modelled (partial).")
CHECKS["C03"] = (
    "Lean 4 proof of the sharing/sign logic and of trace-table continuity + kernel-checked reference moment/trace facts regenerated from the live shape functions + one-sided trace search",
    "Theorems for all vertex numbers / cells: the H(curl) sign rule turns a uniform reference circulation into a "
    "circulation along the global direction low->high independent of the local edge and direction (two cells agree), "
    "the H(div) rule gives opposite signs on the two neighbours so the flux against one normal agrees, the odd-mode "
    "orientation of ElementQuadP cancels the parity under reversal, shared entities carry shared DOF numbers (from "
    "C04), traces with equal (dof, psi) lists agree for every coefficient vector and point; counterexample theorems "
    "for the pinned ElementQuadN1 / ElementQuadP. The uniform flux/circulation of every lowest-order H(div)/H(curl) "
    "reference element is kernel-checked on the shape functions traced from the live source (C09 facts). The "
    "implementation's orient()/gbasis signs are compared with the model on random meshes; the two one-sided traces "
    "(value / normal / tangential / gradient / defining functionals) of random coefficient vectors are compared on "
    "random renumbered, permuted, locally re-ordered and curved meshes for every element with a continuity claim.",
    "H1 trace tables: for every traced H1 element the polynomials, reference facet parametrisations and key tables "
    "are regenerated from the live lbasis and checkTraceTable/checkKeys/checkTraceReversal are evaluated by the kernel; "
    "theorems C03_substAffine_sound, C03_unattached_vanish, C03_equal_keys_equal_traces, C03_h1_continuous (one-sided "
    "traces agree for every coefficient vector at every facet point when equal keys carry the same global DOF), "
    "C03_generated_traces. Curved facets, globally defined elements, ElementQuadP/LinePp and ElementTetCCR traces "
    "and the key<->global-DOF matching on real meshes are search only (partial).")

CHECKS["C06"] = (
    "Lean 4 proof composing C01 (assembly) and C05 (condense/expand) + sharp 1e-10 patch tests and projection identity",
    "Theorems for any commutative ring, basis, quadrature and mesh (curved ones included): the load vector assembled "
    "from the interpolation of a coefficient vector x* IS M x* (tested against every v, and entrywise), hence the L2 "
    "projection returns x* whenever the mass matrix is injective; patch test: if the discrete equations hold for x* "
    "on the kept rows (explicit hypothesis hGalerkin), the prescribed data agree with x* on the constrained DOFs and "
    "the condensed system has at most one solution, then solve(*condense(A, b, x, D)) IS x*. Search: Poisson / "
    "reaction-diffusion / linear elasticity with polynomial exact solutions of the element's degree on random "
    "irregular renumbered meshes (segments, triangles, tetrahedra, parallelogram/box cells; degree one on general "
    "convex quadrilaterals), random Dirichlet/Neumann splits along facet sets with Dirichlet data from "
    "FacetBasis.project on get_dofs(facets), compared at 1e-10 with the nodal values; L2 projection identity on whole "
    "mesh / subdomain / boundary part for every element family incl. curved meshes.",
    "The derivation of hGalerkin from the strong form (Green's identity) is not formalised; spsolve is a trusted "
    "contract; rounding not modelled (partial).")

CHECKS["C18"] = (
    "Lean 4 proof over an executable model of _reix/restrict/join/split/extrusion index algebra "
    "+ exact correspondence + exact-rational failing-input search on operation compositions",
    "Theorems for all cell lists, selections, tag sets and point lists: renumbering by rank is order "
    "preserving, injective, onto 0..n-1, carries coordinates (cells keep their point sets, validity and "
    "shared-vertex structure preserved); the facet table commutes with order preserving renumberings, "
    "hence restrict's newf shortcut designates, in the REBUILT facet table of the restricted mesh, the "
    "same facet (and -1 exactly for facets of no kept cell); subdomain maps of restrict/remove_elements "
    "(any order of the selection); a history of restrictions is one restriction; deduplication merges "
    "iff coordinates are equal and keeps every cell's coordinates (+, @ for any number of meshes, with a "
    "counterexample theorem for the pinned @); split maps (child i*nt+k, parent j % nt, subdomain "
    "blocks), every quadrilateral edge is a facet of the split mesh and the shared-iterator lookup of "
    "to_meshtri returns its position when the tag is visited in ascending order; extrusion "
    "connectivity and points; scaling multiplies 2x2/3x3 determinants by the product of the factors, "
    "mirror is an involution (2-D, 3-D) and negates the 2-D determinant.  Ten model functions are "
    "compared exactly with the implementation on every run; the full statement (validity, same cells as "
    "exact coordinate tuples, exact measures, shared-vertex structure, tag designation, returned maps, "
    "tiling by children) is evaluated on single operations and random compositions of 2-4 operations.",
    "Search only (no theorem): tiling of hexahedra/prisms by the tet templates, morphed, trace, oriented, "
    "the repaired boundary map of remove_duplicate_nodes, mirror determinant in 3-D; orientation flags of "
    "tags are outside the statement (F13).  Known finding FC18d (second-order surgery) is listed in known_findings.json (partial).")

CHECKS["C07"] = (
    "Lean 4 proof over an executable model of get_dofs / DofsView / normalize_* / wrapper dofnames + exact "
    "correspondence + zero-out search",
    "Theorems for arbitrary DOF counts, arbitrary connectivity tables and arbitrary (unsorted, repeated) index "
    "lists: membership characterisation through dofNumber of the facet, cell and vertex queries (vertex DOFs of the "
    "vertices of the selected facets, edge DOFs of their edges, facet DOFs of the facets, nothing else; every entry of "
    "the selected columns of element_dofs; vertex DOFs), result strictly ascending and below N, the result depends on "
    "the selected SET only, soundness of the selector normalisation (index array / int / truth table of a predicate / "
    "tag / nested collections / None = boundary facets / True) against a denotational specification, hence equal "
    "results for equivalent selectors, complement = ascending set complement, union, keep/drop/all/skip = filter by "
    "the name of the DOF number (dofName, shown to be the name _dofnames_to_rows reads for the row), by-name views, "
    "name lists of ElementComposite / ElementVector / ElementDG commute with the row lookup (repaired order; the pinned "
    "order is refuted by C07_name_filter_old_counterexample), per-cell closure iff and trace control relative to the "
    "locality of the element.  The model is compared with basis.get_dofs(...) internals, Mesh.normalize_*, "
    "_expand_facets, complement_dofs, Element.dofnames on random meshes of all six first-order classes x all exported "
    "elements and wrappers; the statement (selector agreement, exactness against an oracle built from element_dofs, t "
    "and the reference cell only, zero-out test of the trace through FacetBasis on both sides of interior facets, "
    "boundary default, complement, name filters against a structural name oracle) is evaluated on the implementation.",
    "Trace control is proved relative to the hypothesis that a local basis function has a non-zero trace only on "
    "facets whose closure contains its entity (C03); on the implementation the zero-out test covers the conforming "
    "H1 / H(div) / H(curl) elements (not CR, Morley, P0, DG, skeleton, HHJ; not wedges, where FacetBasis is not "
    "implemented).  Callables enter the model through their truth table.  Second-order meshes are outside the "
    "statement's generator (nodes_satisfying would return mid-side nodes).")

CHECKS["C12"] = (
    "Lean 4 proof over an executable model of Mesh.refined(k)/_uniform + exact correspondence + exact geometric search",
    "Theorems for every mesh (any point list, cell list, tags), every cell type and every number of passes: 2^(d k) "
    "cells, old points are a prefix, every new vertex sits at the mean of the parent's entity it is named after "
    "(numbering sz+t2f, sz+t2e, ... through the C11 slot specification), the tetrahedral diagonal masks are a "
    "partition, exact template geometry for ARBITRARY rational parent coordinates (signed child measures = +-1/2^d "
    "of the parent for line/tri/tet incl. all three tet splittings, |measures| add up, quad/hex children are the "
    "parent's bi/trilinear map restricted to the dyadic sub-boxes, children of a convex quad are convex with the "
    "same orientation, children lie in every half-space containing the parent's vertices), conformity (two cells "
    "sharing a facet produce the same refined facets on it, decided on the templates for all slot pairs and local "
    "correspondences and transported to every mesh by the C11 sharing property; interior child facets pair up), "
    "subdomain index maps name exactly the children of the named cells for all five classes (generic k+i*nt code, "
    "2k/2k+1 for segments, diagonal-grouped blocks for tetrahedra) and after k passes (ancestors), the new_facets "
    "maps of triangles (sort_t False and True via the lexicographic facet order) and quadrilaterals name the two "
    "halves of every old facet (last-write-wins scatter), dropped tags are None. The model is compared exactly with "
    "m.refined(k) (t, p, subdomain and boundary arrays; all nine refinable classes) and its parent map with the "
    "geometric parents; an independent exact integer oracle checks every clause of the statement on the "
    "implementation (all ten classes, tags incl. interior/oriented facets, k=1..3, histories with restrict/"
    "remove_elements).",
    "Partial: the step from (inside, measures add, facets pair) to 'the children tile the parent' is the standard "
    "degree argument and not formalised; hexahedral conformity assumes the two neighbours traverse the common face "
    "in the same cyclic order (dihedral correspondence); that MeshLine1 keeps facet numbers (boundaries kept as they "
    "are) and the orientation flags of oriented boundaries are covered by the search only (tri/quad drop the "
    "orientation silently, see F13).")

CHECKS["C20"] = (
    "Lean 4 proof (Mathlib: Matrix.det/inverse/crossProduct/trace, HasDerivAt) over helper formulas translated from the "
    "live source on every run and over an executable model of NonlinearForm._assemble + exact correspondence + "
    "finite-difference / hand-linearisation search",
    "PART 1: the bodies of det, inv, cross, curl, div, sym_grad, trace, transpose, eye, dot, ddot, dddot, prod (2 and 3 "
    "arguments), mul (matrix-vector and matrix-matrix) of skfem.helpers AND skfem.autodiff.helpers are re-read from the "
    "live source on every run by a restricted-AST symbolic executor (61 terms, sizes 2 and 3) and proved equal, over "
    "an arbitrary commutative ring / field, to the Mathlib definition (Matrix.det, left+right inverse = A^-1 under det "
    "!= 0, crossProduct, trace, transpose, mulVec, matrix product, dotProduct, explicit double/triple contractions, "
    "vecMulVec, diagonal, (G+G^T)/2, curl = sum_j e_j x d_j), and NumPy variant = JAX variant; counterexample theorem "
    "for the pinned JAX 3x3 determinant (F3). The generated terms are evaluated by the Lean driver on rational inputs "
    "and compared EXACTLY with the live Python functions (translator under test). PART 2: for every differentiable "
    "integrand, every mesh / DOF table / basis / quadrature / linearisation point, over R or C: the assembled vector "
    "is minus the residual and, under the explicit JAX contract (linearize returns the true directional derivative, "
    "linear in the direction), the assembled matrix is the derivative of the residual w.r.t. the coefficient vector "
    "(HasDerivAt along every direction and entrywise), equals the C01 assembly of the linearised form, reduces to the "
    "C01 matrix and to -(Ax+b) for integrands affine in the unknown; hessian mode: vector = -gradient of the energy. "
    "The contract is PROVED for the polynomial integrand grammar (formal Leibniz derivative), whose model is run on the "
    "implementation's own basis arrays against NonlinearForm._assemble. Search: both helper variants vs numpy.linalg "
    "and pointwise loops on random tensors of all trailing shapes; NonlinearForm on generated line/tri/quad/tet(/hex) "
    "meshes x scalar/vector/composite/DG/H(div) elements x 13 integrand templates + a random smooth grammar x random "
    "points: vector = -LinearForm, matrix = symbolically hand-linearised BilinearForm (1e-9) = central differences of "
    "the assembled vector (random + unit directions, all entries), affine integrands = ordinary assembly (1e-12), "
    "shape/dtype, hessian mode, FacetBasis, x=None, elemental().",
    "Partial: exact-arithmetic theorems (floating point not modelled); NumPy/JAX broadcasting over trailing axes and "
    "einsum ellipsis semantics are trusted (exercised on shapes (d,d), (d,d,n), (d,d,nt,nq), strided/Fortran views); "
    "that JAX meets the derivative contract for non-polynomial smooth integrands (exp, sin, cos, sqrt, division) is "
    "validated by search only; skfem.autodiff.helpers offers no inv/cross/curl/identity/inner (NumPy variant only).")

CHECKS["C10"] = (
        "Lean 4 proof over closed forms lifted from the live source by a restricted AST translator + "
        "correspondence (1e-12 vs exact rationals) + identity search against an independent nodal-polynomial oracle",
        "Theorems over any field (ordered field for signs), all cells / points / matrices, d = 1..3: transcribed "
        "det = Matrix.det and inverse two-sided for both classes; F∘invF = invF∘F = id; DF = A; P1 isoparametric "
        "map = affine map (and same det/inverse formulas); Jacobian = derivative with explicit Taylor remainder for "
        "Quad1, Hex1, Wedge1, LineP2, TriP2, TetP2; facet map G(s) = F_K(reference facet point) for tri, tet "
        "(any vertex order, either neighbour), quad, hex (all 6x8 local facet / cyclic order cases), curved TriP2 "
        "edges; invF_K∘G_f = reference facet point (FacetBasis); surface-factor radicand = Gram determinant "
        "(Lagrange); normals: transport (DF^-T N)·(DF u) = N·u, orthogonal to the facet and outward for EVERY "
        "reference cell (table fact by decide on refdom data) independently of the sign of det; unit length "
        "(partial: sqrt trusted); Nanson detB^2 = det^2 |raw normal|^2 and the divergence identity "
        "sum_f |f| x_f·n_f = d|K| on simplices with the delivered quantities; output sizing X.shape[-1] fits both "
        "point layouts and the cache key (shape, dtype, bytes) is injective, with counterexample theorems for the "
        "pinned code (F16, F11). The formulas are re-extracted from mapping_affine.py, mapping_isoparametric.py, "
        "generic_utils.py, the lbasis of nine mapping elements and refdom.py on every run; the model is compared "
        "with MappingAffine / MappingIsoparametric on rational meshes; every clause of the statement is evaluated "
        "on the implementation for all ten mesh classes (incl. curved second order and library constructors), "
        "default and explicit mappings, shared and per-cell point arrays, None / subset / permuted-with-repetition / "
        "empty index sets, both adjacent cells, FacetBasis (boundary, interior side 0/1, oriented), call histories "
        "with colliding cache bytes.",
        "Partial: square roots (unit length, surface factor) enter as witnesses; Newton convergence of the "
        "isoparametric inverse and NumPy broadcasting are covered by correspondence/search only; Quad2/Hex2 shape "
        "functions (outside the translator's subset) and the mesh-level pairing of interior facets in the "
        "divergence identity are search only; wedges have no facet map in the library (cell maps and normals "
        "only).")


CHECKS["C14"] = (
    "Lean 4 proof over executable models of the finders and of probes + correspondence on the "
    "implementation's own candidate lists / inside matrices + exact-arithmetic search",
    "Theorems for ANY candidate list (KD-tree abstracted), any inside predicate, any number / order / "
    "repetition of query points: the two-stage search returns only cells passing the inside test, raises iff "
    "some point passes it for no cell, equal points get equal cells; the inside test on MappingAffine.invF's "
    "cofactor formulas is membership in the eps-inflated simplex (1-D, 2-D, 3-D, all rational vertices); end to "
    "end for triangular meshes and, with the proved tiling of a strictly convex quadrilateral by the two "
    "triangles of to_meshtri and the `% nt` index theorem, for quadrilateral meshes; the 1-D argsort/digitize "
    "finder returns a containing cell and raises iff none exists for every 1-D mesh (gaps, any numbering); the "
    "tile/flatten/COO arithmetic of probes gives (probes(x)@y)[c*P+p] = sum_k y[dofs[k][cell_p]] phi_k^c(x_p) for "
    "scalar, vector and tensor bases, interpolator reshape, point_source, probes at quadrature points = "
    "interpolate. Tie: finder.decide feeds the implementation's candidate lists and inside matrices (inside "
    "statement lifted from the live source) to the model; finder.bary, finder.line, finder.split, "
    "probes.assemble. Search: integer-arithmetic containment oracle on graded / anisotropic / sheared meshes of "
    "all six first-order classes with holes and notches, vertices / facet / interior / outside points singly and "
    "in batches, the whole element pool against the located cell's local expansion, affine reproduction, "
    "cell-number function, interpolate() at the quadrature points.",
    "Not proved (searched only): hexahedron / prism split tiles the cell, Newton iteration of the isoparametric "
    "invF, KD-tree; floating-point effects within the slack are outside the model. Two known findings (absolute "
    "eps slack FC14d, absolute Newton tolerance FC14e) are matched by signature. ElementGlobal elements are "
    "probed on well-shaped meshes only, skeleton elements and ElementComposite (NotImplementedError) not at all "
    "(partial).")

CHECKS["C15"] = (
    "Lean 4 proof about an executable memo/closure machine instantiated by a table of cache guards lifted from the live "
    "source (AST) + exact correspondence + pool-vs-fresh history exploration on the implementation",
    "Theorems for ALL finite call histories, all pure cached computations, all valid NumPy arrays: a memo machine "
    "(association store, hit returns the stored value, eviction that only drops entries and keeps the newest) returns "
    "f(arg) for every call of every history IFF the key separates f (both directions; also from any warm state); the "
    "decision table guard x view is sound AND complete (equal keys force equal views exactly for the entries marked "
    "sound; concrete valid witnesses otherwise), hence a cache site is transparent for every cached computation that "
    "reads only its view IFF the table says so; (shape, dtype, little-endian bytes) determines the array for all valid "
    "arrays while bytes alone do not (int64 [1] / int32 [1,0], and a whole family); dataclasses.replace drops the lazily "
    "attached attributes (and a copy that kept them is refuted); repaired solver closures hand the backend exactly what "
    "a fresh closure would after ANY history and leave the captured dict unchanged, old closures are refuted by 2-call "
    "histories. The table (29 cache sites, 6 closures, frame scan) is regenerated from the guard expressions of the live "
    "source on every run, so a weakened guard changes the generated file and breaks C15_generated_sites_sound. "
    "Correspondence (exact): tobytes, hash_args key equality, hit/miss of the Legendre elements, which earlier call "
    "serves each call of a history (object identity) for MappingIsoparametric.J / lbasis / ElementGlobal.V / 24 set-once "
    "attributes, keyword dicts handed to spy backends and the closure cells of all six solver factories. Search: random "
    "histories (<=40 ops quick, <=200 thorough) over a shared pool of meshes of every class, reused element objects, "
    "mappings, Cell/Facet/InteriorFacet/Composite bases, shared forms, six solver closures; each op replayed on freshly "
    "built equal objects (ints bitwise, floats 1e-12, exception kind), operand checksums before/after, a sample re-run in "
    "a new interpreter.",
    "partial: purity of the cached computations w.r.t. the lifted view and absence of OTHER hidden state in 18 kLoC are "
    "explored (histories, checksums, frame scan), not proved; hash() treated as injective; signed zeros/NaN in the "
    "numeric point comparison not modelled")

CHECKS["C19"] = (
    "Lean 4 proof (Mathlib BigOperators) over executable models of the wrapper index algebra and of COOData + exact "
    "correspondence + component-vs-whole search on the implementation",
    "Theorems for arbitrary (different) nodal/edge/facet/interior counts of the components, arbitrary connectivity "
    "tables, numbers of components/cells/quadrature points, arbitrary integrands, basis data and coefficient vectors "
    "over any commutative ring: the per-cell table of ElementVector is the scalar table with every row expanded to "
    "d -> dim*d+n (so gbasis' i -> (i % dim, i / dim) matches the layout) and split_indices()[n] = [dim*d+n]; "
    "split_indices()[k] of ElementComposite read at the component's own number of a DOF (kind, a, entity) is the "
    "wrapper's number of (kind, o_k+a, entity), it is as long as the component's DOF count, jointly injective and the "
    "lengths add up to N (partition of 0..N-1); closed form of _deduce_bfun and: row i of the wrapper's element_dofs is "
    "row ind of component n's own element_dofs renamed by split_indices()[n], (n, ind) = _deduce_bfun(i); "
    "_deduce_bfun / the vector decoding / CompositeBasis stacking enumerate (component, function) exactly once; hence "
    "interpolate(whole) = sum of the component interpolations of x[split_indices] (component-wise equal in every "
    "field slot), v^T A u on the wrapper = sum over blocks of the separately assembled component forms on the split "
    "vectors, and the dense matrix at (sigma_v(m, r), sigma_u(n, c)) is entry (r, c) of block (n, m) (instances for "
    "composite and vector wrappers with the injectivity discharged); asm over lists = sum of tensors, assembly over any "
    "partition of the cells = assembly over the mesh; COOData +, dot = dense mat-vec (also with D), fromlocal o tolocal "
    "= id both ways, tolocal()[k][i][j] = kernel(trial j, test i, cell k) scattered to (vdofs[i][k], udofs[j][k]) for "
    "any Nu, Nv, linear forms, inverse() = scatter of the inverse blocks and, for cell-wise decoupled numberings, the "
    "inverse matrix; tolocal(basis=facets) keeps the global tensor; bmat offsets = cumulative widths. "
    "*_old_counterexample theorems for the five repaired index defects.",
    "The hypotheses `Wraps` (wrapper function j = component function dec(j) placed in its slot) are tied to gbasis by "
    "correspondence (field arrays compared), not proved from the element code; integrand evaluation, quadrature and "
    "mappings are C01/C08/C10's; COOData.dot only for square tensors; Form.block only comparable for like components "
    "(known finding FC19f).")


CHECKS["C13"] = (
    "Lean 4 proof over an executable model of the red-green-blue / segment refinement + verified certificate "
    "checker for the tetrahedral bisection + exact correspondence + exhaustive marked-subset search with an exact "
    "integer geometry oracle",
    "Theorems for ALL meshes, connectivity tables and marked sets. Triangles: the facet-marking loop reaches a "
    "fixpoint within nfacets+1 passes and that fixpoint is the LEAST set closed under the rule that contains the "
    "facets of the marked cells; at the fixpoint every cell is in exactly one of the five masks (none is dropped), "
    "marked cells are red, the decision to split a facet and the vertex created on it are functions of the facet "
    "alone (both neighbours agree), each template meets each side of the parent in the whole side or its two halves "
    "and is an exact partition of the reference triangle over any ordered field (cover, inside, disjoint interiors, "
    "non-degenerate), new_t is a bijection between (old cell, child) and new cell numbers, subdomain arrays list "
    "exactly the children, new points are the facet midpoints, old points keep their index. Segments: cells, "
    "points, index map of MeshLine1._adaptive (+ counterexample theorem for the pinned map, F6). Tetrahedra: one "
    "bisection step halves the signed volume and covers the cell; the certificate checker checkRefinement "
    "(bisection forest, any dimension) is proved sound: old vertices keep index and position, new cells = leaves "
    "of bisection trees of the old cells, each exactly once, every point of an old cell lies in one of its new "
    "cells and conversely (barycentric weights, all coordinates), leaf volumes = 2^-depth of the old cell's, "
    "marked cells bisected, no new cell contains both ends of a bisected edge; Refines is reflexive and "
    "transitive, so the statements persist along arbitrary histories of certified steps. The model is compared "
    "EXACTLY with MeshTri1._adaptive (sorting, closure, templates, cell order, new_t, points; public result and "
    "the three stages), MeshLine1._adaptive and one tetrahedral step; certificates are rebuilt from the "
    "implementation's output on every run and checked by the verified checker (corrupted refinements are "
    "rejected). Search: ALL 2^n marked subsets of small meshes (n<=8 quick, <=12 thorough), random subsets, "
    "adaptive_theta, random histories of adaptive+uniform steps for MeshLine1/Tri1/Tet1/Tri2/Tet2 with an exact "
    "oracle (no hanging vertex, facet incidence, opposite sides, no duplicate/degenerate, nestedness, measures, "
    "disjoint children, no hole/slit, marked subdivided, old vertices, subdomain regions, retained boundaries).",
    "Partial: termination of the tetrahedral worklist is not proved (60 s watchdog in the search); the step from "
    "the worklist's exit condition to geometric conformity of tetrahedral meshes is not proved (checked exactly by "
    "the search layer); triangle partition/conformity are proved on the reference cell and for the index algebra, "
    "the transfer to physical cells is the affine map; uniform steps inside histories are covered by search only. "
    "The tie |01|=|12|>|02| leaves a non-longest edge in slot 2 (shape quality only, documented in "
    "C13_sort_longest). Marked arrays with repeated entries are outside the statement (MeshLine1 would create "
    "duplicate cells).")


NOT_YET = {}


def main():
    props = [json.loads(l) for l in (VERIF / "properties.jsonl").read_text().splitlines() if l.strip()]
    checks = []
    na = []
    for p in props:
        pid = p["id"]
        if pid in CHECKS:
            tech, text, note = CHECKS[pid]
            checks.append({
                "property_id": pid,
                "quick_cmd": f"./check {pid} --tier quick",
                "thorough_cmd": f"./check {pid} --tier thorough",
                "evidence_file": f"evidence/{pid}.json",
                "replay_cmd_template": f"./check {pid} --replay {{path}}",
                "engine": "lean4+correspondence",
                "level_claimed": {"category": "proof", "text": text, "design_ref": f"DESIGN.md §{pid}"},
                "level_note": note + " " + COMMON_NOTE,
                "technique": tech,
            })
        else:
            na.append({"property_id": pid,
                       "reason": NOT_YET.get(pid, "check not built yet in this round (planned, see DESIGN.md §%s); "
                                                  "not a statement that the technique cannot apply" % pid)})
    man = {
        "version": 1,
        "setup_cmd": "./setup.sh",
        "hooks": {
            "guard": "SKFEM_VERIF",
            "enable": "no source hooks are needed: checks import /repo's working tree with PYTHONPATH=/repo and "
                      "SKFEM_VERIF=1 set (reserved, currently unused by the source)",
            "baseline_off_cmd": "cd /repo && env -u SKFEM_VERIF /venv/bin/python -m pytest -q -p no:cacheprovider "
                                "--timeout=900",
            "source_commits": [],
            "add_only": True,
        },
        "engines": [
            {"name": "lean4+correspondence", "path": "lean/ + harness/skv",
             "serves_properties": [c["property_id"] for c in checks],
             "kind_free_text": "Lean 4 models and theorems (lake project lean/), regenerated tables/shape functions "
                               "(lean/SkfemVerif/Gen), JSON-lines driver executable, Python correspondence runner "
                               "and failing-input search"},
        ],
        "checks": checks,
        "not_applicable": na,
        "notes": "See DESIGN.md. ./check <id> --tier quick|thorough; exit 0 ok, 1 VIOLATION, 2 infrastructure error.",
    }
    fixes = VERIF / "known_findings.json"
    if fixes.exists():
        kf = json.loads(fixes.read_text())
        man["hooks"]["source_commits"] = kf.get("hook_commits", [])
    (VERIF / "MANIFEST.json").write_text(json.dumps(man, indent=1) + "\n")
    try:
        import jsonschema
        jsonschema.validate(man, json.loads(open("/root/.vp/MANIFEST.schema.json").read()))
        print("MANIFEST.json valid;", len(checks), "checks,", len(na), "not yet claimed")
    except ImportError:
        print("written (jsonschema not available)")


if __name__ == "__main__":
    main()
