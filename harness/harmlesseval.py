#!/usr/bin/env python3
"""Confirm a harmless rewrite (from /tmp/harmless_<Cxx>/<k>) and run the property's check against it.

usage: harmlesseval.py Cxx k [--no-suite]
  1. in the scratch worktree /tmp/seedH_<Cxx>: equiv.py prints the same digest without and with the patch,
     the scikit-fem suite still passes with it (536 passed);
  2. copies patch.diff, equiv.py, notes.md to /verif/harmless/<Cxx>-<k>/ and writes meta.json;
  3. applies the patch to /repo, runs ./check <Cxx> (quick, with the proof layer), records the outcome
     (expected: exit 0, no VIOLATION line), and restores /repo.
"""
import json
import os
import shutil
import subprocess
import sys
from pathlib import Path

VERIF = Path(__file__).resolve().parents[1]


def sh(cmd, cwd=None, env=None, timeout=3600):
    p = subprocess.run(cmd, shell=True, cwd=cwd, env=env, text=True, stdout=subprocess.PIPE,
                       stderr=subprocess.STDOUT, timeout=timeout)
    return p.returncode, p.stdout


def main():
    pid, k = sys.argv[1], sys.argv[2]
    nosuite = "--no-suite" in sys.argv
    src = Path(f"/tmp/harmless_{pid}/{k}")
    wt = Path(f"/tmp/seedH_{pid}")
    dst = VERIF / "harmless" / f"{pid}-{k}"
    meta = {"property": pid, "kind": "behaviour-preserving rewrite",
            "source": "independent sub-agent given only the property text and a scratch worktree"}
    env = dict(os.environ, PYTHONPATH=str(wt), MPLBACKEND="Agg")
    sh("git checkout -- .", cwd=wt)
    rc0, out0 = sh(f"/venv/bin/python {src}/equiv.py 2>/dev/null", cwd="/tmp", env=env, timeout=1800)
    rca, outa = sh(f"git apply {src}/patch.diff", cwd=wt)
    if rca != 0:
        print("patch does not apply:", outa)
        sys.exit(1)
    rc1, out1 = sh(f"/venv/bin/python {src}/equiv.py 2>/dev/null", cwd="/tmp", env=env, timeout=1800)
    meta["equiv_identical"] = bool(rc0 == 0 and rc1 == 0 and out0 == out1)
    meta["equiv_rc"] = [rc0, rc1]
    dst.mkdir(parents=True, exist_ok=True)
    if not nosuite:
        rcs, outs = sh("/venv/bin/python -m pytest -q -p no:cacheprovider -n 12 --timeout=900 tests/ 2>&1 | tail -4",
                       cwd=wt, env=env, timeout=3000)
        meta["suite_with_change"] = outs.strip().splitlines()[-1] if outs.strip() else ""
    elif (dst / "meta.json").exists():
        old = json.loads((dst / "meta.json").read_text())
        if "suite_with_change" in old:
            meta["suite_with_change"] = old["suite_with_change"]
    sh("git checkout -- .", cwd=wt)
    meta["confirmed_harmless"] = bool(meta["equiv_identical"] and "536 passed" in meta.get("suite_with_change", ""))
    for f in ("patch.diff", "equiv.py", "notes.md"):
        if (src / f).exists():
            shutil.copy(src / f, dst / f)
    notes = (src / "notes.md").read_text() if (src / "notes.md").exists() else ""
    meta["what"] = notes[:900]
    results = {}
    rcp, outp = sh(f"git apply {src}/patch.diff", cwd="/repo")
    if rcp != 0:
        results["error"] = "patch does not apply to /repo: " + outp[-300:]
    else:
        try:
            rc, out = sh(f"./check {pid} --tier quick", cwd=VERIF, timeout=3000)
            lines = [l for l in out.splitlines() if l.startswith("VIOLATION") or l.startswith(f"[{pid}]")
                     or l.startswith("  violation #") or "broken" in l[:40]]
            results[pid] = {"rc": rc, "lines": lines[-8:]}
            if "VIOLATION" in out:
                keep = VERIF / "harmless" / f"{pid}-{k}" / "replays"
                keep.mkdir(exist_ok=True)
                for r in (VERIF / "replays").glob(f"{pid}_*"):
                    shutil.move(str(r), keep / r.name)
        finally:
            sh("git checkout -- .", cwd="/repo")
            # the checks regenerate lean/SkfemVerif/Gen/* from the (changed) source: restore them from the clean tree
            sh("PYTHONPATH=harness:/repo /venv/bin/python -m skv.gen", cwd=VERIF, timeout=1200)
    meta["check_results"] = results
    meta["alarm"] = [c for c, r in results.items() if isinstance(r, dict) and r.get("rc") != 0]
    (dst / "meta.json").write_text(json.dumps(meta, indent=1))
    print(json.dumps({k2: meta[k2] for k2 in ("confirmed_harmless", "equiv_identical", "alarm", "check_results")},
                     indent=1)[:2500])


if __name__ == "__main__":
    main()
