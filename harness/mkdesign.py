#!/usr/bin/env python3
"""Assemble /verif/DESIGN.md from design_parts/ + known_findings.json + seeded/*/meta.json."""
import json
from pathlib import Path

V = Path(__file__).resolve().parents[1]
parts = V / "design_parts"


def findings_table():
    k = json.loads((V / "known_findings.json").read_text())["findings"]
    rows = ["| id | property | status | commit | what failed on the pinned tree |", "|---|---|---|---|---|"]
    for f in sorted(k, key=lambda f: (f["property"], f["id"])):
        txt = f.get("text", f.get("what", ""))
        for pre in ("fixed: ", "known: "):
            if txt.startswith(pre):
                txt = txt[len(pre):]
        txt = txt.replace(f"property={f['property']} ", "")
        if f.get("commit"):
            txt = txt.replace(f["commit"] + " ", "")
        rows.append(f"| {f['id']} | {f['property']} | {f['status']} | {f.get('commit', '–')} | {txt.replace('|', '/')} |")
    return "\n".join(rows), len([f for f in k if f["status"] == "fixed"]), len([f for f in k if f["status"] == "known"])


def seeded_table():
    rows = ["| seeded change | breaks | what it needs to manifest (from the seeder's notes) | confirmed | detected by |",
            "|---|---|---|---|---|"]
    n = det = 0
    for d in sorted((V / "seeded").glob("*/meta.json")):
        m = json.loads(d.read_text())
        n += 1
        detected = m.get("detected_by", [])
        det += bool(detected)
        needs = " ".join(m.get("needs", "").split())[:260].replace("|", "/")
        rows.append(f"| {d.parent.name} | {m['property']} | {needs} | {'yes' if m.get('confirmed') else 'NO'} | "
                    f"{', '.join(detected) if detected else '**missed**'} |")
    return "\n".join(rows), n, det


def harmless_table():
    rows = ["| rewrite | property | what was rewritten (from the author's notes) | equivalent + suite | check |",
            "|---|---|---|---|---|"]
    n = quiet = 0
    for d in sorted((V / "harmless").glob("*/meta.json")):
        m = json.loads(d.read_text())
        n += 1
        alarm = bool(m.get("alarm"))
        quiet += (not alarm)
        what = " ".join(m.get("what", "").split())[:240].replace("|", "/")
        rows.append(f"| {d.parent.name} | {m['property']} | {what} | {'yes' if m.get('confirmed_harmless') else 'NO'} | "
                    f"{'**alarm** (no-failing-input-found)' if alarm else 'quiet'} |")
    return "\n".join(rows), n, quiet


def main():
    out = [(parts / "00_head.md").read_text()]
    out.append("\n---------------------------------------------------------------------------\n\n## 5. Per-property design "
               "(as built)\n\nNotation: *Model* = what is defined in Lean; *Theorems* = what is proved (names as in "
               "`Props/Cxx.lean`); *Tie* = how the model is bound to `/repo` on every run; *Search* = the executable "
               "property predicate used to find a concrete failing input on the implementation.\n")
    for i in range(1, 21):
        f = parts / f"C{i:02d}.md"
        out.append("\n" + (f.read_text() if f.exists() else f"### §C{i:02d}\n\n(not built)\n"))
    ft, nfix, nknown = findings_table()
    st, n, det = seeded_table()
    tail = (parts / "90_tail.md").read_text()
    tail = tail.replace("@@FINDINGS@@", ft).replace("@@NFIX@@", str(nfix)).replace("@@NKNOWN@@", str(nknown))
    tail = tail.replace("@@SEEDED@@", st).replace("@@NSEED@@", str(n)).replace("@@NDET@@", str(det))
    ht, hn, hq = harmless_table()
    tail = tail.replace("@@HARMLESS@@", ht).replace("@@NHARM@@", str(hn)).replace("@@NQUIET@@", str(hq))
    out.append("\n" + tail)
    (V / "DESIGN.md").write_text("\n".join(out))
    print("DESIGN.md written:", sum(len(o.splitlines()) for o in out), "lines")


if __name__ == "__main__":
    main()
