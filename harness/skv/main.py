"""./check Cxx [--tier quick|thorough] [--replay file]"""
import argparse
import importlib
import json
import os
import sys
import traceback

from . import core


def main(argv=None):
    ap = argparse.ArgumentParser()
    ap.add_argument("pid")
    ap.add_argument("--tier", default=os.environ.get("VERIF_TIER", "quick"),
                    choices=["quick", "thorough"])
    ap.add_argument("--replay", default=None)
    ap.add_argument("--no-lean", action="store_true", help="debugging: skip the proof layer")
    a = ap.parse_args(argv)
    seed = int(os.environ.get("VERIF_SEED", "0") or 0)
    core.capture_stdout()
    ctx = core.Ctx(a.pid, a.tier, seed)
    ctx.no_lean = a.no_lean
    try:
        import warnings
        warnings.filterwarnings("ignore")
        import logging
        logging.disable(logging.WARNING)
        mod = importlib.import_module(f"skv.props.{a.pid.lower()}")
        if a.replay:
            rp = json.loads(open(a.replay).read())
            if not hasattr(mod, "replay"):
                core.log("no replay entry point; re-running the check with the recorded seed")
                ctx = core.Ctx(a.pid, rp.get("tier", a.tier), int(rp.get("seed", seed)))
                ctx.no_lean = a.no_lean
                mod.run(ctx)
            else:
                mod.replay(ctx, rp)
        else:
            mod.run(ctx)
        rc = ctx.finish()
    except Exception:
        traceback.print_exc(file=sys.stderr)
        core.log(f"INFRASTRUCTURE ERROR in check {a.pid}")
        sys.exit(2)
    core.log(f"[{a.pid}] tier={a.tier} seed={seed} obligations={ctx.obligations} discharged={ctx.discharged} "
             f"evaluations={ctx.evaluations} distinct={len(ctx.distinct)} broken={len(ctx.broken)} "
             f"violations={ctx._nviol} known={[h['id'] for h in ctx.known_hits]} wall={ctx.elapsed():.1f}s rc={rc}")
    sys.exit(rc)


if __name__ == "__main__":
    main()
