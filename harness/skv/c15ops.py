"""C15 helper: pool / fresh environments and the executor of operation descriptions."""
from __future__ import annotations

import numpy as np

from .c15pool import arr_from_json, clone_mesh

# --------------------------------------------------------------------------- named pure callables

FUNCS = {
    "sin": lambda x: np.sin(3.0 * x[0]) + (x[1] if len(x) > 1 else 0.0),
    "poly": lambda x: 1.0 + x[0] * x[0] - (0.5 * x[-1]),
    "one": lambda x: 1.0 + 0.0 * x[0],
}
TESTS = {
    "lowx": lambda x: x[0] < np.median(x[0]),
    "highlast": lambda x: x[-1] >= np.median(x[-1]),
    "all": lambda x: x[0] == x[0],
}


def _sumval(f):
    a = np.asarray(f)
    return a.reshape((-1,) + a.shape[-2:]).sum(0)


def _sumgrad(f):
    g = getattr(f, "grad", None)
    if g is None:
        return 0.0
    g = np.asarray(g)
    return g.reshape((-1,) + g.shape[-2:]).sum(0)


def f_mass(*args):
    w = args[-1]
    n = (len(args) - 1) // 2
    tot = 0.0
    for u in args[:n]:
        for v in args[n:2 * n]:
            tot = tot + _sumval(u) * _sumval(v)
    return tot


def f_stiff(*args):
    w = args[-1]
    n = (len(args) - 1) // 2
    tot = 0.0
    for u in args[:n]:
        for v in args[n:2 * n]:
            tot = tot + _sumval(u) * _sumval(v) + _sumgrad(u) * _sumgrad(v)
    return tot


def f_xweighted(*args):
    w = args[-1]
    return f_mass(*args) * (1.0 + w.x[0]) * w.h


def f_param(*args):
    w = args[-1]
    return f_mass(*args) * _sumval(w["k"])


def l_load(*args):
    w = args[-1]
    tot = 0.0
    for v in args[:-1]:
        tot = tot + _sumval(v) * (1.0 + w.x[0])
    return tot


def l_param(*args):
    w = args[-1]
    tot = 0.0
    for v in args[:-1]:
        tot = tot + _sumval(v) * _sumval(w["k"])
    return tot


def g_functional(w):
    return _sumval(w["k"]) * (1.0 + w.x[0])


def spd_form(u, v, w):
    from skfem.helpers import dot
    return dot(u.grad, v.grad) + u * v


def mass_form(u, v, w):
    return u * v


def unit_load(v, w):
    return (1.0 + w.x[0]) * v


FORM_DEFS = {
    "mass": ("bilinear", f_mass), "stiff": ("bilinear", f_stiff), "xweighted": ("bilinear", f_xweighted),
    "param": ("bilinear", f_param), "load": ("linear", l_load), "lparam": ("linear", l_param),
    "functional": ("functional", g_functional), "spd": ("bilinear", spd_form), "m": ("bilinear", mass_form),
    "f": ("linear", unit_load),
}


def make_form(name):
    from skfem import BilinearForm, LinearForm, Functional
    kind, fn = FORM_DEFS[name]
    return {"bilinear": BilinearForm, "linear": LinearForm, "functional": Functional}[kind](fn)


# --------------------------------------------------------------------------- recipes

def make_elem(recipe):
    import skfem.element as E
    name = recipe["name"]
    if name in ("ElementVector", "ElementDG"):
        return getattr(E, name)(make_elem(recipe["sub"][0]))
    if name == "ElementComposite":
        return E.ElementComposite(*[make_elem(s) for s in recipe["sub"]])
    cls = getattr(E, name)
    if "p" in recipe:
        return cls(recipe["p"])
    return cls()


def make_solver(recipe):
    import skfem.utils as U
    return getattr(U, recipe["factory"])(**recipe["kwargs"])


def make_mapping(kind, mesh):
    from skfem.mapping import MappingAffine, MappingIsoparametric
    if kind == "default":
        return mesh.mapping()
    if kind == "iso":
        return MappingIsoparametric(mesh, mesh.elem(), mesh.bndelem)
    if kind == "affine":
        return MappingAffine(mesh)
    raise ValueError(kind)


def make_basis(recipe, env):
    from skfem.assembly import CellBasis, FacetBasis, InteriorFacetBasis
    if recipe["type"] == "composite":
        bs = [env.basis(i) for i in recipe["bases"]]
        out = bs[0]
        for b in bs[1:]:
            out = out * b
        return out
    m = env.mesh(recipe["mesh"])
    e = env.elem(recipe["elem"])
    kw = {"intorder": recipe["intorder"]}
    sub = arr_from_json(recipe.get("sub"))
    if recipe.get("subname") is not None:
        sub = recipe["subname"]
    if recipe["type"] == "cell":
        if sub is not None:
            kw["elements"] = sub
        return CellBasis(m, e, **kw)
    if recipe["type"] == "facet":
        if sub is not None:
            kw["facets"] = sub
        return FacetBasis(m, e, **kw)
    if recipe["type"] == "ifacet":
        if sub is not None:
            kw["facets"] = sub
        return InteriorFacetBasis(m, e, side=recipe.get("side", 0), **kw)
    raise ValueError(recipe["type"])


class _Track:
    def track(self, obj):
        """remember the checksum of a literal operand at the moment it is handed to the library"""
        from .c15pool import checksum
        if not hasattr(self, "tracked"):
            self.tracked = []
        self.tracked.append((obj, checksum(obj, tag="arg%d" % len(self.tracked))))
        return obj

    def tracked_changes(self):
        from .c15pool import checksum, changed_keys
        out = []
        for k, (obj, before) in enumerate(getattr(self, "tracked", [])):
            out += changed_keys(before, checksum(obj, tag="arg%d" % k))
        self.tracked = []
        return out


class Pool(_Track):
    """long-lived shared objects"""
    fresh = False

    def __init__(self):
        self.meshes, self.elems, self.bases, self.solvers, self.mappings = [], [], [], [], []
        self.forms = {}
        self.cache = {}

    def mesh(self, i):
        return self.meshes[i]["obj"]

    def elem(self, i):
        return self.elems[i]["obj"]

    def basis(self, i):
        return self.bases[i]["obj"]

    def solver(self, i):
        return self.solvers[i]["obj"]

    def mapping(self, i):
        return self.mappings[i]["obj"]

    def form(self, name):
        if name not in self.forms:
            self.forms[name] = make_form(name)
        return self.forms[name]


class Fresh(_Track):
    """every reference resolves to a freshly constructed equal object (memoised per operation so that
    objects referring to each other stay consistent within the one operation)"""
    fresh = True

    def __init__(self, pool):
        self.pool = pool
        self.cache = {}

    def _memo(self, key, build):
        if key not in self.cache:
            self.cache[key] = build()
        return self.cache[key]

    def mesh(self, i):
        return self._memo(("mesh", i), lambda: clone_mesh(self.pool.meshes[i]["obj"]))

    def elem(self, i):
        return self._memo(("elem", i), lambda: make_elem(self.pool.elems[i]["recipe"]))

    def basis(self, i):
        return self._memo(("basis", i), lambda: make_basis(self.pool.bases[i]["recipe"], self))

    def solver(self, i):
        return self._memo(("solver", i), lambda: make_solver(self.pool.solvers[i]["recipe"]))

    def mapping(self, i):
        r = self.pool.mappings[i]["recipe"]
        return self._memo(("mapping", i), lambda: make_mapping(r["type"], self.mesh(r["mesh"])))

    def form(self, name):
        return make_form(name)


# --------------------------------------------------------------------------- executor

def dof_vector(n, salt=0):
    return (((np.arange(n) * 7 + salt * 3) % 11) - 5) / 8.0


def interior_points(m, cells, weights):
    """points strictly inside the given cells: convex combinations of the cell vertices"""
    nv = m.elem.refdom.nnodes
    w = np.asarray(weights, dtype=float)[:, :nv]
    w = w / w.sum(axis=1, keepdims=True)
    pts = np.array([[float(np.dot(w[k], m.p[d, m.t[:nv, c]])) for k, c in enumerate(cells)]
                    for d in range(m.p.shape[0])])
    return pts


def execute(d, env):
    """run one operation description; returns (result, operands, new_object_or_None)"""
    op = d["op"]
    T = env.track
    if op == "mesh_query":
        m = env.mesh(d["mesh"])
        what = d["what"]
        v = getattr(m, what)
        if callable(v):
            v = v()
        return v, [m], None
    if op == "mesh_xform":
        m = env.mesh(d["mesh"])
        what, a = d["what"], d.get("args", {})
        ops = [m]
        if what == "refined":
            r = m.refined(a.get("n", 1))
        elif what == "adaptive":
            ix = arr_from_json(a["ix"])
            ops.append(T(ix))
            r = m.refined(ix)
        elif what in ("translated", "scaled"):
            r = getattr(m, what)(tuple(a["v"]))
        elif what == "mirrored":
            r = m.mirrored(tuple(a["v"]))
        elif what == "smoothed":
            r = m.smoothed()
        elif what == "with_defaults":
            r = m.with_defaults()
        elif what in ("with_boundaries", "with_subdomains"):
            tags = {}
            for k, v in a["tags"].items():
                tags[k] = TESTS[v] if isinstance(v, str) else arr_from_json(v)
            ops.append(T({k: v for k, v in tags.items() if isinstance(v, np.ndarray)}))
            r = getattr(m, what)(tags)
        elif what in ("restrict", "remove_elements"):
            el = a["name"] if "name" in a else arr_from_json(a["ix"])
            if isinstance(el, np.ndarray):
                ops.append(T(el))
            r = getattr(m, what)(el)
        elif what == "join":
            m2 = env.mesh(a["other"])
            ops.append(m2)
            r = m + m2
        elif what in ("to_meshtri", "to_meshtet", "remove_unused_nodes", "remove_duplicate_nodes", "copy"):
            r = getattr(m, what)()
        elif what == "morphed":
            r = m.morphed(lambda p: p[0] + 0.125 * p[0] * p[0])
        else:
            raise ValueError(what)
        return r, ops, ("mesh", r)
    if op == "mapping":
        mp = env.mapping(d["map"])
        X = arr_from_json(d["X"])
        tind = arr_from_json(d.get("tind"))
        fn = d["fn"]
        ops = [mp.mesh, T(X)] + ([T(tind)] if tind is not None else [])
        if fn == "invF":
            x = mp.F(X, tind)
            r = mp.invF(x, tind)
        elif fn == "J":
            r = mp.J(d["i"], d["j"], X, tind) if hasattr(mp, "J") else mp.DF(X, tind)[d["i"], d["j"]]
        elif fn in ("G", "detDG"):
            r = getattr(mp, fn)(X, find=tind)
        elif fn == "normals":
            m = mp.mesh
            find = tind
            r = mp.normals(X, m.f2t[0, find], find, m.t2f)
        else:
            r = getattr(mp, fn)(X, tind)
        return r, ops, None
    if op == "lbasis":
        e = env.elem(d["elem"])
        X = T(arr_from_json(d["X"]))
        r = e.lbasis(X, d["i"])
        return [np.array(x) for x in r], [X], None
    if op == "gbasis":
        e = env.elem(d["elem"])
        mp = env.mapping(d["map"])
        X = arr_from_json(d["X"])
        tind = arr_from_json(d.get("tind"))
        T(X)
        if tind is not None:
            T(tind)
        r = e.gbasis(mp, X, d["i"], tind=tind)
        return list(r), [mp.mesh, X] + ([tind] if tind is not None else []), None
    if op == "new_basis":
        b = make_basis(d["recipe"], env)
        ops = []
        if d["recipe"]["type"] != "composite":
            ops.append(env.mesh(d["recipe"]["mesh"]))
        else:
            ops += [env.basis(i) for i in d["recipe"]["bases"]]
        return b, ops, ("basis", b)
    if op == "basis_op":
        b = env.basis(d["basis"])
        what = d["what"]
        ops = [b]
        if what == "doflocs":
            r = b.doflocs
        elif what == "get_dofs":
            kw = {}
            if d.get("facets") is not None:
                kw["facets"] = d["facets"] if isinstance(d["facets"], str) else arr_from_json(d["facets"])
            if d.get("elements") is not None:
                kw["elements"] = d["elements"] if isinstance(d["elements"], str) else arr_from_json(d["elements"])
            ops += [T(v) for v in kw.values() if isinstance(v, np.ndarray)]
            r = b.get_dofs(**kw)
        elif what == "interpolate":
            x = dof_vector(b.N, d.get("salt", 0))
            ops.append(T(x))
            r = b.interpolate(x)
            r = list(r) if isinstance(r, tuple) else r
        elif what == "project":
            r = b.project(FUNCS[d["fun"]])
        elif what in ("probes", "interpolator"):
            pts = interior_points(b.mesh, d["cells"], d["weights"])
            ops.append(T(pts))
            if what == "probes":
                r = b.probes(pts)
            else:
                x = dof_vector(b.N, d.get("salt", 0))
                ops.append(T(x))
                r = b.interpolator(x)(pts)
        elif what == "default_parameters":
            r = b.default_parameters()
        elif what == "element_dofs":
            r = b.element_dofs
        elif what == "refinterp":
            x = dof_vector(b.N, d.get("salt", 0))
            ops.append(T(x))
            mm, xx = b.refinterp(x, nrefs=1)
            r = [mm, xx]
        elif what == "boundary":
            r = b.boundary()
        elif what == "with_element":
            r = b.with_element(env.elem(d["elem"]))
        elif what == "split":
            x = dof_vector(b.N, d.get("salt", 0))
            ops.append(T(x))
            r = [xi for (xi, bi) in b.split(x)]
        else:
            raise ValueError(what)
        return r, ops, None
    if op == "asm":
        form = env.form(d["form"])
        ub = env.basis(d["basis"])
        ops = [ub]
        kw = {}
        kind = FORM_DEFS[d["form"]][0]
        if d["form"] in ("param", "lparam", "functional"):
            x = dof_vector(ub.N, d.get("salt", 0))
            ops.append(T(x))
            kw["k"] = ub.interpolate(x) if d.get("interp", True) else x
            if isinstance(kw["k"], tuple):
                kw["k"] = kw["k"][0]
            T(kw["k"])
        if kind == "bilinear" and d.get("basis2") is not None:
            vb = env.basis(d["basis2"])
            ops.append(vb)
            r = form.assemble(ub, vb, **kw)
        else:
            r = form.assemble(ub, **kw)
        return r, ops, None
    if op == "finder":
        m = env.mesh(d["mesh"])
        P = interior_points(m, d["cells"], d["weights"])
        if d.get("ties"):
            # points that lie in SEVERAL cells (vertices, midpoints of shared facets' first two vertices): whichever
            # cell is returned, it must not depend on what was asked of this mesh before
            nv = m.elem.refdom.nnodes
            extra = []
            for c in d["cells"]:
                vs = m.p[:, m.t[:nv, c]]
                extra.append(vs[:, 0])
                extra.append((vs[:, 0] + vs[:, 1]) / 2)
            P = np.array(extra).T if d.get("ties_only") else np.hstack((P, np.array(extra).T))
        pts = T(P)
        f = m.element_finder()
        r = f(*pts)
        return r, [m, pts], None
    if op == "solve":
        from skfem import condense, enforce, solve
        b = env.basis(d["basis"])
        s = env.solver(d["solver"])
        A = env.form("spd").assemble(b)
        f = env.form("f").assemble(b)
        D = b.get_dofs().all()
        x0 = dof_vector(b.N, d.get("salt", 0)) if d.get("inhom") else None
        ops = [T(A), T(f), T(D)] + ([T(x0)] if x0 is not None else [])
        kw = dict(d.get("kw", {}))
        if d["bc"] == "condense":
            sysm = condense(A, f, x=x0, D=D)
            ops.append(T(list(sysm)))
            r = solve(*sysm, solver=s, **kw)
        elif d["bc"] == "mpc":
            # multipoint constraint: all boundary DOFs slaved to one interior master DOF (+ offsets); the
            # system tuple is KEPT and solved twice, its members are operands of both solves
            import scipy.sparse as sp
            from skfem.utils import mpc
            I = np.setdiff1d(np.arange(b.N), D)
            Tm = sp.csr_matrix(np.full((len(D), 1), 0.5))
            g = x0[D] if x0 is not None else np.zeros(len(D))
            ops += [T(Tm), T(g)]
            sysm = mpc(A, f, S=D, M=I[:1], T=Tm, g=g)
            sysm[0].sort_indices()   # (the direct backend would otherwise canonicalise the storage in place)
            ops.append(T([sysm[0], sysm[1], sysm[2], sysm[3][0]]))
            r1 = solve(*sysm, solver=s, **kw)
            keep = r1.copy()
            r2 = solve(*sysm, solver=s, **kw)
            r = {"first": keep, "first_after_second": r1, "second": r2}
        else:
            sysm = enforce(A, f, x=x0, D=D)
            ops.append(T(list(sysm)))
            r = solve(*sysm, solver=s, **kw)
        return r, ops, None
    if op == "eig":
        from skfem import condense, solve
        b = env.basis(d["basis"])
        s = env.solver(d["solver"])
        K = env.form("spd").assemble(b)
        M = env.form("m").assemble(b)
        D = b.get_dofs().all()
        sysm = condense(K, M, D=D)
        ops = [T(K), T(M), T(D), T(list(sysm))]
        # deterministic ARPACK start vector (the default one is drawn from ARPACK's own random stream)
        L, x = solve(*sysm, solver=s, v0=np.ones(sysm[0].shape[0]), **dict(d.get("kw", {})))
        return {"eigenvalues": np.sort(np.real(L)), "nvec": int(x.shape[1])}, ops, None
    raise ValueError(op)
