"""Flattening of DiscreteField tuples into component lists (shared by C01/C04/C19/...)."""
import numpy as np

ATTRS = ("value", "grad", "div", "curl", "hess", "grad3", "grad4", "grad5", "grad6")


def components(df, maxorder=4):
    """list of (label, accessor) for every scalar component of every non-None attribute of a
    DiscreteField; accessor maps a DiscreteField of the same structure to an array (nelems, nqp)"""
    out = []
    for n, attr in enumerate(ATTRS[:maxorder + 1]):
        arr = df.get(n)
        if arr is None:
            continue
        arr = np.asarray(arr)
        if arr.ndim < 2:
            continue
        lead = arr.shape[:-2]
        for idx in np.ndindex(*lead):
            out.append((f"{attr}{list(idx)}", (n, idx)))
    return out


def get_comp(df, acc):
    n, idx = acc
    return np.asarray(df.get(n))[idx]


def tuple_components(fields, maxorder=4):
    """for a tuple of DiscreteFields (composite elements): list of (label, (fieldno, acc))"""
    out = []
    for fno, df in enumerate(fields):
        for lab, acc in components(df, maxorder):
            out.append((f"f{fno}.{lab}", (fno, acc)))
    return out


def get_tuple_comp(fields, tacc):
    fno, acc = tacc
    return get_comp(fields[fno], acc)


def generic_bilinear():
    """an integrand touching the value of every field of trial and test (any element family)"""
    def form(*args):
        w = args[-1]
        n = (len(args) - 1) // 2
        us, vs = args[:n], args[n:2 * n]
        tot = 0.
        for u in us:
            for v in vs:
                a = np.asarray(u)
                b = np.asarray(v)
                a = a.reshape((-1,) + a.shape[-2:]).sum(0)
                b = b.reshape((-1,) + b.shape[-2:]).sum(0)
                tot = tot + a * b
        return tot
    return form
