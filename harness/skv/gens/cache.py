"""T5 (cache guards): regenerate lean/SkfemVerif/Gen/CacheKeys.lean from the live source.

For every cache site of the library (auto-discovered: an `if` whose test is one of the guard
patterns below and whose body stores into the tested attribute of `self`) the translator lifts

  * the GUARD kind  (what decides hit/miss):
        not hasattr(self, '_x')  /  self._x is None                     -> unit
        self._x is None or self._ref is not <param>[.attr]               -> identity
        self.<a>.shape[1] != <param>.shape[1]                            -> npoints
        self.<a>.shape != <param>.shape or (self.<a> != <param>).any()   -> shapeValues
        h not in self._cache   with   h = hash_args(<params>)            -> bytes | shapeDtypeBytes
                                                (decided by the AST of generic_utils.hash_args)
  * the VIEW kind (what the cached expression reads besides `self`): the function parameters loaded
    inside the guarded block  ->  selfOnly | objArg (only `<param>.mesh`-like attribute reads) |
    arrays | allArgs (hash of all parameters),
  * the eviction POLICY (dictionary / set-once attribute -> all, single slot -> last),

and for the solver factories of skfem/utils.py whether the nested `solver` closure writes to a captured
dictionary (capturedUpdate) or merges into a local one (localMerge).

Frame conditions of the unit-key sites are scanned as well: stores to the attributes those sites read
(outside constructors), in-place stores into `.p/.t/.doflocs` of any object, lazily attached attributes that
are dataclass fields (they would be carried over by dataclasses.replace).

A guard the translator cannot classify is emitted as (unit, allArgs) - the unsound corner of the decision
table - so the instance proof breaks instead of silently passing.
"""
from __future__ import annotations

import ast
from pathlib import Path

from ..core import LEAN, write_if_changed

SKIP_DIRS = {"visuals", "io", "models", "importers", "autodiff", "experimental"}
CTORS = {"__init__", "__post_init__", "__new__", "__array_finalize__"}
ARRAY_FIELDS = {"p", "t", "doflocs"}


def skfem_root() -> Path:
    import skfem
    return Path(skfem.__file__).resolve().parent


def _is_self_attr(n, attr=None):
    return (isinstance(n, ast.Attribute) and isinstance(n.value, ast.Name) and n.value.id == "self"
            and (attr is None or n.attr == attr))


def _param_root(n):
    """name of the parameter an expression like `X`, `X.shape`, `mapping.mesh`, `X.shape[1]` is rooted at"""
    while isinstance(n, (ast.Attribute, ast.Subscript)):
        n = n.value
    return n.id if isinstance(n, ast.Name) else None


def _self_attr_root(n):
    """for self.a.b[...] return 'a'"""
    chain = []
    while isinstance(n, (ast.Attribute, ast.Subscript)):
        if isinstance(n, ast.Attribute):
            chain.append(n.attr)
        n = n.value
    if isinstance(n, ast.Name) and n.id == "self" and chain:
        return chain[-1]
    return None


def classify_guard(test, func, hash_kind):
    """returns (guard, cache_attr, extra) or None"""
    # not hasattr(self, '_x')
    if (isinstance(test, ast.UnaryOp) and isinstance(test.op, ast.Not) and isinstance(test.operand, ast.Call)
            and isinstance(test.operand.func, ast.Name) and test.operand.func.id == "hasattr"
            and len(test.operand.args) == 2 and isinstance(test.operand.args[0], ast.Name)
            and test.operand.args[0].id == "self" and isinstance(test.operand.args[1], ast.Constant)):
        return "unit", test.operand.args[1].value, None
    # self._x is None
    if (isinstance(test, ast.Compare) and len(test.ops) == 1 and isinstance(test.ops[0], ast.Is)
            and _is_self_attr(test.left) and isinstance(test.comparators[0], ast.Constant)
            and test.comparators[0].value is None):
        return "unit", test.left.attr, None
    if isinstance(test, ast.BoolOp) and isinstance(test.op, ast.Or) and len(test.values) == 2:
        a, b = test.values
        # self._x is None or self._ref is not <param...>
        ga = classify_guard(a, func, hash_kind)
        if (ga and ga[0] == "unit" and isinstance(b, ast.Compare) and len(b.ops) == 1
                and isinstance(b.ops[0], ast.IsNot) and _is_self_attr(b.left)
                and _param_root(b.comparators[0]) in _params(func)):
            return "identity", ga[1], {"ref": b.left.attr, "param": _param_root(b.comparators[0]),
                                       "expr": ast.unparse(b.comparators[0])}
        # self.a.shape != X.shape or (self.a != X).any()
        if (isinstance(a, ast.Compare) and len(a.ops) == 1 and isinstance(a.ops[0], ast.NotEq)
                and isinstance(a.left, ast.Attribute) and a.left.attr == "shape" and _is_self_attr(a.left.value)
                and isinstance(a.comparators[0], ast.Attribute) and a.comparators[0].attr == "shape"
                and isinstance(a.comparators[0].value, ast.Name)
                and isinstance(b, ast.Call) and isinstance(b.func, ast.Attribute) and b.func.attr == "any"
                and isinstance(b.func.value, ast.Compare) and len(b.func.value.ops) == 1
                and isinstance(b.func.value.ops[0], ast.NotEq)
                and _is_self_attr(b.func.value.left, a.left.value.attr)
                and isinstance(b.func.value.comparators[0], ast.Name)
                and b.func.value.comparators[0].id == a.comparators[0].value.id):
            return "shapeValues", a.left.value.attr, {"param": a.comparators[0].value.id}
    # self.P.shape[1] != X.shape[1]
    if (isinstance(test, ast.Compare) and len(test.ops) == 1 and isinstance(test.ops[0], ast.NotEq)
            and isinstance(test.left, ast.Subscript) and isinstance(test.left.value, ast.Attribute)
            and test.left.value.attr == "shape" and _is_self_attr(test.left.value.value)
            and isinstance(test.comparators[0], ast.Subscript)
            and isinstance(test.comparators[0].value, ast.Attribute)
            and test.comparators[0].value.attr == "shape"
            and isinstance(test.comparators[0].value.value, ast.Name)):
        return "npoints", test.left.value.value.attr, {"param": test.comparators[0].value.value.id}
    # h not in self._cache
    if (isinstance(test, ast.Compare) and len(test.ops) == 1 and isinstance(test.ops[0], ast.NotIn)
            and isinstance(test.left, ast.Name) and _is_self_attr(test.comparators[0])):
        hname = test.left.id
        for st in ast.walk(func):
            if (isinstance(st, ast.Assign) and len(st.targets) == 1 and isinstance(st.targets[0], ast.Name)
                    and st.targets[0].id == hname and isinstance(st.value, ast.Call)
                    and isinstance(st.value.func, ast.Name) and st.value.func.id == "hash_args"):
                hashed = {a.id for a in st.value.args if isinstance(a, ast.Name)}
                return hash_kind, test.comparators[0].attr, {"hashed": sorted(hashed), "suffix": "[h]"}
        return None
    return None


def _params(func):
    a = func.args
    names = [x.arg for x in a.posonlyargs + a.args + a.kwonlyargs]
    if a.vararg:
        names.append(a.vararg.arg)
    if a.kwarg:
        names.append(a.kwarg.arg)
    return [n for n in names if n != "self"]


def _stores_attr(body, attr, cls_methods, depth=1):
    """does the block assign self.<attr> (directly or via a self-method called in the block)?"""
    for st in body:
        for n in ast.walk(st):
            if isinstance(n, (ast.Assign, ast.AugAssign, ast.AnnAssign)):
                tg = n.targets if isinstance(n, ast.Assign) else [n.target]
                for t in tg:
                    for e in ast.walk(t):
                        if _self_attr_root(e) == attr and isinstance(e.ctx, ast.Store):
                            return True
                        if isinstance(e, ast.Subscript) and _self_attr_root(e) == attr:
                            return True
            if depth and isinstance(n, ast.Call) and _is_self_attr(n.func) and n.func.attr in cls_methods:
                if _stores_attr(cls_methods[n.func.attr].body, attr, cls_methods, depth - 1):
                    return True
    return False


def _reads(body, cls_methods, depth=1):
    """(names loaded, self attributes loaded) inside a block, following self-method calls one level"""
    names, attrs = [], set()
    for st in body:
        for n in ast.walk(st):
            if isinstance(n, ast.Name) and isinstance(n.ctx, ast.Load):
                names.append(n)
            if _is_self_attr(n) and isinstance(n.ctx, ast.Load):
                attrs.add(n.attr)
            if depth and isinstance(n, ast.Call) and _is_self_attr(n.func) and n.func.attr in cls_methods:
                nn, aa = _reads(cls_methods[n.func.attr].body, cls_methods, depth - 1)
                attrs |= aa
    return names, attrs


def view_of(func, body, guard, extra, cls_methods):
    params = set(_params(func))
    # local variables derived from parameters before the block (e.g. `x, y = X`)
    derived = {}
    for st in func.body:
        if isinstance(st, ast.Assign) and isinstance(st.value, ast.Name) and st.value.id in params:
            for t in st.targets:
                for e in ast.walk(t):
                    if isinstance(e, ast.Name):
                        derived[e.id] = st.value.id
    names, attrs = _reads(body, cls_methods)
    used = set()
    attr_only = {}
    parents = {}
    for st in body:
        for n in ast.walk(st):
            for ch in ast.iter_child_nodes(n):
                parents[ch] = n
    for n in names:
        root = n.id if n.id in params else derived.get(n.id)
        if root is None:
            continue
        used.add(root)
        par = parents.get(n)
        is_obj_read = isinstance(par, ast.Attribute) and par.value is n and par.attr in ("mesh",)
        attr_only[root] = attr_only.get(root, True) and is_obj_read
    if guard in ("bytes", "shapeDtypeBytes"):
        # the view is every parameter; the key must hash every parameter
        missing = sorted(params - set(extra["hashed"]))
        return ("allArgs" if not missing else "UNHASHED:" + ",".join(missing)), attrs
    if not used:
        return "selfOnly", attrs
    if all(attr_only[u] for u in used):
        return "objArg", attrs
    return "arrays", attrs


def hash_args_kind(root: Path):
    """classify what generic_utils.hash_args hashes for an ndarray"""
    tree = ast.parse((root / "generic_utils.py").read_text())
    for fn in ast.walk(tree):
        if isinstance(fn, ast.FunctionDef) and fn.name == "hash_args":
            for n in ast.walk(fn):
                if isinstance(n, ast.IfExp):
                    # hash(<expr>) if isinstance(arg, ndarray) else hash(arg)
                    body = n.body
                    if (isinstance(body, ast.Call) and isinstance(body.func, ast.Name) and body.func.id == "hash"
                            and len(body.args) == 1):
                        e = body.args[0]
                        src = ast.unparse(e)
                        has_bytes = any(isinstance(x, ast.Attribute) and x.attr == "tobytes" for x in ast.walk(e))
                        has_shape = any(isinstance(x, ast.Attribute) and x.attr == "shape" for x in ast.walk(e))
                        has_dtype = any(isinstance(x, ast.Attribute) and x.attr == "dtype" for x in ast.walk(e))
                        if has_bytes and has_shape and has_dtype and isinstance(e, ast.Tuple):
                            return "shapeDtypeBytes", src
                        if has_bytes:
                            return "bytes", src
            return None, ast.unparse(fn)
    return None, "hash_args not found"


def discover(root: Path):
    """returns (sites, problems, read_attrs) ; site = dict(name, guard, view, policy, src)"""
    hk, hsrc = hash_args_kind(root)
    sites, problems = [], []
    read_attrs = {}
    for path in sorted(root.rglob("*.py")):
        rel = path.relative_to(root)
        if rel.parts[0] in SKIP_DIRS:
            continue
        tree = ast.parse(path.read_text())
        for cls in [n for n in ast.walk(tree) if isinstance(n, ast.ClassDef)]:
            methods = {f.name: f for f in cls.body if isinstance(f, ast.FunctionDef)}
            for f in methods.values():
                for node in ast.walk(f):
                    if not isinstance(node, ast.If):
                        continue
                    # nested function definitions (closures such as `finder`) are not cache sites of `self`
                    g = classify_guard(node.test, f, hk or "bytes")
                    if g is None:
                        # cache-like but unknown guard: the test mentions an attribute of self (or a
                        # key looked up in one) that the body stores into
                        if f.name in CTORS:
                            continue
                        tested = {_self_attr_root(n) for n in ast.walk(node.test)
                                  if isinstance(n, (ast.Attribute, ast.Subscript))} - {None}
                        hit = sorted(a for a in tested if _stores_attr(node.body, a, methods, depth=0))
                        if hit:
                            name = f"{cls.name}.{f.name}:{hit[0]}?"
                            problems.append(f"{rel}:{node.lineno}: unclassified cache guard "
                                            f"`{ast.unparse(node.test)}` ({name})")
                            sites.append({"name": name, "fn": f"{cls.name}.{f.name}", "guard": "unit",
                                          "view": "allArgs", "policy": "all",
                                          "file": str(rel), "line": node.lineno, "src": ast.unparse(node.test),
                                          "extra": None})
                        continue
                    guard, attr, extra = g
                    if not _stores_attr(node.body, attr, methods):
                        continue
                    view, attrs = view_of(f, node.body, guard, extra, methods)
                    if guard in ("bytes", "shapeDtypeBytes") and hk is None:
                        problems.append(f"hash_args has an unknown form: {hsrc}")
                        guard, view = "unit", "allArgs"
                    if view.startswith("UNHASHED"):
                        problems.append(f"{cls.name}.{f.name}: parameters not hashed: {view}")
                        guard, view = "unit", "allArgs"
                    policy = "all" if guard in ("unit", "bytes", "shapeDtypeBytes") else "last"
                    name = f"{cls.name}.{f.name}:{attr}" + ((extra or {}).get("suffix") or "")
                    if any(s["name"] == name for s in sites):
                        continue
                    sites.append({"name": name, "fn": f"{cls.name}.{f.name}", "guard": guard, "view": view,
                                  "policy": policy, "file": str(rel), "line": node.lineno,
                                  "src": ast.unparse(node.test), "extra": extra})
                    if view == "selfOnly":
                        read_attrs[name] = sorted(a for a in attrs if not a.startswith("_") or a in ("_subdomains", "_boundaries"))
    return sites, problems, read_attrs, (hk, hsrc)


def closure_sites(root: Path):
    tree = ast.parse((root / "utils.py").read_text())
    out, problems = [], []
    funcs = {f.name: f for f in tree.body if isinstance(f, ast.FunctionDef)}
    for name, f in funcs.items():
        if not name.startswith("solver_"):
            continue
        nested = [n for n in f.body if isinstance(n, ast.FunctionDef) and n.name == "solver"]
        if not nested:
            # alias such as solver_iter_pcg: return solver_iter_krylov(**kwargs)
            rets = [n for n in ast.walk(f) if isinstance(n, ast.Return) and isinstance(n.value, ast.Call)
                    and isinstance(n.value.func, ast.Name) and n.value.func.id in funcs]
            if rets:
                out.append({"name": name, "alias": rets[0].value.func.id})
            else:
                problems.append(f"{name}: no nested solver and no alias")
            continue
        s = nested[0]
        local = set(_params(s))
        for n in ast.walk(s):
            if isinstance(n, (ast.Assign, ast.AnnAssign, ast.AugAssign)):
                for t in (n.targets if isinstance(n, ast.Assign) else [n.target]):
                    if isinstance(t, ast.Name):
                        local.add(t.id)
                    elif isinstance(t, ast.Tuple):
                        local |= {e.id for e in t.elts if isinstance(e, ast.Name)}
        outer = set(_params(f))
        for n in f.body:
            if isinstance(n, ast.Assign):
                for t in n.targets:
                    if isinstance(t, ast.Name):
                        outer.add(t.id)
        captured = outer - local
        writes = []
        for n in ast.walk(s):
            if (isinstance(n, ast.Call) and isinstance(n.func, ast.Attribute)
                    and n.func.attr in ("update", "setdefault", "pop", "clear", "popitem", "append", "extend",
                                        "__setitem__")
                    and isinstance(n.func.value, ast.Name) and n.func.value.id in captured):
                writes.append(ast.unparse(n))
            if isinstance(n, (ast.Assign, ast.AugAssign, ast.Delete)):
                tg = n.targets if isinstance(n, (ast.Assign, ast.Delete)) else [n.target]
                for t in tg:
                    if isinstance(t, ast.Subscript) and isinstance(t.value, ast.Name) and t.value.id in captured:
                        writes.append(ast.unparse(n))
            if isinstance(n, ast.Nonlocal):
                writes.append(ast.unparse(n))
        needs_m = any(isinstance(n, ast.Call) and isinstance(n.func, ast.Name) and n.func.id == "build_pc_diag"
                      for n in ast.walk(s))
        out.append({"name": name, "kind": "capturedUpdate" if writes else "localMerge", "needsM": needs_m,
                    "writes": writes})
    # resolve aliases
    byname = {o["name"]: o for o in out}
    for o in out:
        if "alias" in o:
            tgt = byname.get(o["alias"])
            if tgt is None or "kind" not in tgt:
                problems.append(f"{o['name']}: alias target not found")
                o.update(kind="capturedUpdate", needsM=False, writes=["?"])
            else:
                o.update(kind=tgt["kind"], needsM=tgt["needsM"], writes=tgt["writes"])
    return out, problems


def frame_scan(root: Path, read_attrs):
    """stores that would invalidate the unit-key caches or mutate operand arrays"""
    watched = set()
    for v in read_attrs.values():
        watched |= set(v)
    # attributes that are plain configuration of OTHER classes with the same name are still reported:
    # the scan is name based and therefore conservative
    writes, carried = [], []
    lazy = set()
    for path in sorted(root.rglob("*.py")):
        rel = path.relative_to(root)
        if rel.parts[0] in SKIP_DIRS:
            continue
        tree = ast.parse(path.read_text())
        for cls in [n for n in ast.walk(tree) if isinstance(n, ast.ClassDef)]:
            for f in [x for x in cls.body if isinstance(x, ast.FunctionDef)]:
                for n in ast.walk(f):
                    if not isinstance(n, (ast.Assign, ast.AugAssign)):
                        continue
                    tg = n.targets if isinstance(n, ast.Assign) else [n.target]
                    for t in tg:
                        for e in ([t] + (list(t.elts) if isinstance(t, ast.Tuple) else [])):
                            # (1) rebinding a watched attribute of self outside a constructor
                            if _is_self_attr(e) and e.attr in watched and f.name not in CTORS:
                                writes.append(f"{rel}:{n.lineno}:{cls.name}.{f.name}: {ast.unparse(n)[:60]}")
                            # (2) in-place store into p / t / doflocs of any object
                            if isinstance(e, ast.Subscript):
                                b = e.value
                                while isinstance(b, ast.Subscript):
                                    b = b.value
                                own = f.name in CTORS and _self_attr_root(e) is not None and \
                                    _self_attr_root(e) == getattr(b, "attr", None)
                                if isinstance(b, ast.Attribute) and b.attr in ARRAY_FIELDS and not own:
                                    writes.append(f"{rel}:{n.lineno}:{cls.name}.{f.name}: {ast.unparse(n)[:60]}")
                            if isinstance(n, ast.AugAssign) and isinstance(e, ast.Attribute) \
                                    and e.attr in ARRAY_FIELDS:
                                writes.append(f"{rel}:{n.lineno}:{cls.name}.{f.name}: {ast.unparse(n)[:60]}")
    return sorted(set(writes))


def carried_lazies(root: Path, sites):
    """lazily attached attributes that are declared dataclass fields of the owner (replace() would copy them)"""
    out = []
    tree = ast.parse((root / "mesh" / "mesh.py").read_text())
    fields = set()
    for cls in [n for n in ast.walk(tree) if isinstance(n, ast.ClassDef) and n.name == "Mesh"]:
        for st in cls.body:
            if isinstance(st, ast.AnnAssign) and isinstance(st.target, ast.Name):
                fields.add(st.target.id)
    for s in sites:
        cls, rest = s["name"].split(".", 1)
        attr = rest.split(":")[1]
        if cls.startswith("Mesh") and attr in fields:
            out.append(s["name"])
    return out, sorted(fields)


def lean_str(s):
    return '"' + s.replace("\\", "\\\\").replace('"', '\\"') + '"'


def render(sites, closures, writes, carried, meta):
    L = ["import SkfemVerif.Model.Cache", "/-",
         "GENERATED by harness/skv/gens/cache.py from the live scikit-fem source - do not edit.",
         "site ↦ (guard kind, view kind, eviction policy), lifted from the guard expressions by AST pattern match:"]
    for s in sites:
        L.append(f"  {s['name']}  [{s['file']}]  guard: {s['src']}")
    L.append(f"hash_args hashes for an ndarray: {meta['hash_src']}")
    L += ["-/", "namespace Skv.Gen", "open Skv.Cache", "", "def cacheSites : List Site := ["]
    L.append(",\n".join(f"  ⟨{lean_str(s['name'])}, {lean_str(s['fn'])}, .{s['guard']}, .{s['view']}, .{s['policy']}⟩"
                        for s in sites))
    L += ["]", "", "def closureSites : List ClosureSite := ["]
    L.append(",\n".join(f"  ⟨{lean_str(c['name'])}, .{c['kind']}, {'true' if c['needsM'] else 'false'}⟩"
                        for c in closures))
    L += ["]", "",
          "/-- stores found by the frame scan: rebinding of an attribute read by a unit-key cache outside a",
          "    constructor, or an in-place store into `.p/.t/.doflocs` -/",
          "def frameWrites : List String := [" + ", ".join(lean_str(w) for w in writes) + "]", "",
          "/-- anchor functions of the property that (no longer) store anything on `self`: nothing to cache -/",
          "def statelessFns : List String := [" + ", ".join(lean_str(w) for w in meta["stateless"]) + "]", "",
          "/-- lazily attached attributes that are dataclass fields (would survive `dataclasses.replace`) -/",
          "def lazyFieldsCarried : List String := [" + ", ".join(lean_str(w) for w in carried) + "]", "",
          "end Skv.Gen", ""]
    return "\n".join(L)


ANCHORS = ["ElementLinePp.lbasis", "ElementQuadP.lbasis", "ElementGlobal.gbasis", "MappingIsoparametric.J",
           "Mesh.facets", "Mesh._mapping"]


def stateless_anchors(root: Path):
    """anchor functions whose body stores nothing into `self` (a cache that was removed altogether)"""
    found = {}
    for path in sorted(root.rglob("*.py")):
        if path.relative_to(root).parts[0] in SKIP_DIRS:
            continue
        tree = ast.parse(path.read_text())
        for cls in [n for n in ast.walk(tree) if isinstance(n, ast.ClassDef)]:
            methods = {f.name: f for f in cls.body if isinstance(f, ast.FunctionDef)}
            for f in methods.values():
                q = f"{cls.name}.{f.name}"
                if q not in ANCHORS:
                    continue
                stores = False
                todo = [f] + [methods[n.func.attr] for n in ast.walk(f)
                              if isinstance(n, ast.Call) and _is_self_attr(n.func) and n.func.attr in methods]
                for g in todo:
                    for n in ast.walk(g):
                        if isinstance(n, (ast.Attribute, ast.Subscript)) and isinstance(getattr(n, "ctx", None),
                                                                                       ast.Store) \
                                and _self_attr_root(n) is not None:
                            stores = True
                found[q] = stores
    return sorted(q for q, st in found.items() if not st)


def collect():
    root = skfem_root()
    sites, problems, read_attrs, (hk, hsrc) = discover(root)
    closures, p2 = closure_sites(root)
    writes = frame_scan(root, read_attrs)
    carried, fields = carried_lazies(root, sites)
    return {"sites": sites, "closures": closures, "problems": problems + p2, "frame_writes": writes,
            "carried": carried, "mesh_fields": fields, "read_attrs": read_attrs,
            "stateless": stateless_anchors(root),
            "hash_kind": hk, "hash_src": hsrc}


def generate():
    d = collect()
    text = render(d["sites"], d["closures"], d["frame_writes"], d["carried"], d)
    changed = write_if_changed(LEAN / "SkfemVerif" / "Gen" / "CacheKeys.lean", text)
    return changed, d
