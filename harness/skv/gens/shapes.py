"""T1: symbolic tracing of `Element.lbasis` → lean/SkfemVerif/Gen/Shapes.lean (+ ShapeFacts.lean).

For every exported element whose `lbasis` is branch-free in X the (value, declared derivative)
pairs of all local basis functions are extracted by running the REAL `lbasis` on NumPy object
arrays holding exact polynomials.  Which facts are claimed per element (nodal duality, partition
of unity, moment duality) is frozen in `shape_expect.json` (taken from the repaired pinned
tree), NOT decided from the current outcome, so that a changed basis function breaks the fact.
"""
from __future__ import annotations

import json
from fractions import Fraction
from pathlib import Path

import numpy as np

from .. import elements, expoly
from ..core import LEAN, write_if_changed
from ..expoly import P, symbolic_points, polys_of

EXPECT = Path(__file__).with_name("shape_expect.json")
TOL_EXP = 40


class Untraceable(Exception):
    pass


def trace(e, name):
    """returns dict(dim, family, nb, vals, ders, kind) — vals[i] a P or list of P; ders likewise"""
    dim = e.refdom.dim()
    X = symbolic_points(dim)
    fam = elements.family(e)
    if fam == "global":
        raise Untraceable("globally defined element (handled by the power-basis model)")
    nb = int(e._bfun_counts().sum())
    vals, ders = [], []
    for i in range(nb):
        try:
            out = e.lbasis(X, i)
        except TypeError as ex:
            raise Untraceable(str(ex))
        v = polys_of(out[0], dim)
        d = polys_of(out[1], dim) if len(out) > 1 and out[1] is not None else None
        vals.append(v)
        ders.append(d)
    return {"dim": dim, "family": fam, "nb": nb, "vals": vals, "ders": ders}


def is_scalar(v):
    return isinstance(v, P)


def nodal_indices(e, nb):
    """local functions that have a DOF location (non-NaN) and a proper name"""
    out = []
    if not hasattr(e, "doflocs"):
        return out
    dl = np.asarray(e.doflocs, dtype=float)
    counts = [int(c) for c in e._bfun_counts()]
    names = list(e.dofnames)
    # name of local function i: by kind block
    per_kind = [int(e.nodal_dofs), int(e.edge_dofs), int(e.facet_dofs), int(e.interior_dofs)]
    nents = [counts[k] // per_kind[k] if per_kind[k] else 0 for k in range(4)]
    labels = []
    off = 0
    for k in range(4):
        for ent in range(nents[k]):
            for a in range(per_kind[k]):
                labels.append(names[off + a] if off + a < len(names) else "?")
        off += per_kind[k]
    for i in range(min(nb, dl.shape[0])):
        if not np.isnan(dl[i]).any() and labels[i] != "NA":
            out.append(i)
    return out


def moment_functionals(e, fam, dim):
    """(centre, direction, scale) per entity for the lowest-order H(div)/H(curl) duality"""
    rd = e.refdom
    p = [[Fraction(float(v)) for v in rd.p[:, j]] for j in range(rd.p.shape[1])]
    fun = []
    if fam == "hdiv":
        for f, loc in enumerate(rd.facets):
            pts = [p[v] for v in loc]
            c = [sum(q[a] for q in pts) / len(pts) for a in range(dim)]
            n = [Fraction(float(v)) for v in rd.normals[f]]
            # ∫_facet φ·n̂ dS = φ(centre)·n_raw * (measure of the reference parametrisation)
            scale = Fraction(1)
            if rd.__name__ == "RefTet":
                scale = Fraction(1, 2)
            fun.append((c, n, scale))
    elif fam == "hcurl":
        ents = rd.edges if dim == 3 else rd.facets
        for loc in ents:
            a, b = p[loc[0]], p[loc[1]]
            c = [(a[k] + b[k]) / 2 for k in range(dim)]
            t = [b[k] - a[k] for k in range(dim)]
            fun.append((c, t, Fraction(1)))
    return fun


def trace_table(e, tr):
    """facet parametrisations, keys and reversal pairs for the trace table of a scalar H1 element
    (triangles, quadrilaterals, tetrahedra); None if the element makes no continuity claim"""
    rd = e.refdom
    if rd.__name__ not in ("RefTri", "RefQuad", "RefTet") or int(e.nodal_dofs) == 0:
        return None
    dim = tr["dim"]
    P_ = [[Fraction(float(v)) for v in rd.p[:, j]] for j in range(rd.p.shape[1])]
    ents = []
    for v in range(rd.nnodes):
        ents += [("v", v, a) for a in range(int(e.nodal_dofs))]
    if dim == 3:
        for ed in range(rd.nedges):
            ents += [("e", ed, a) for a in range(int(e.edge_dofs))]
    for f in range(rd.nfacets):
        ents += [("f", f, a) for a in range(int(e.facet_dofs))]
    ents += [("i", 0, a) for a in range(int(e.interior_dofs))]
    if len(ents) != tr["nb"]:
        return None
    keyid = {}
    fmaps, keys = [], []
    for f, F in enumerate(rd.facets):
        F = list(F)
        origin = P_[F[0]]
        dirs = [[P_[F[k]][i] - origin[i] for i in range(dim)] for k in range(1, len(F))]
        fmaps.append((origin, dirs))
        row = []
        for (kind, ent, a) in ents:
            k = None
            if kind == "v" and ent in F:
                k = ("v", a, F.index(ent))
            elif kind == "e":
                u, w = rd.edges[ent]
                if u in F and w in F:
                    k = ("e", a, tuple(sorted((F.index(u), F.index(w)))))
            elif kind == "f" and ent == f:
                k = ("f", a)
            row.append(None if k is None else keyid.setdefault(k, len(keyid)))
        keys.append(row)
    pairs = []
    if rd.__name__ == "RefQuad" and int(e.facet_dofs) <= 1:
        for k, i in keyid.items():
            if k[0] == "v" and k[2] == 0 and ("v", k[1], 1) in keyid:
                pairs.append((i, keyid[("v", k[1], 1)]))
            if k[0] == "f":
                pairs.append((i, i))
    return {"fmaps": fmaps, "keys": keys, "pairs": pairs}


def py_trace_check(tr, tt):
    """the trace-table statement evaluated in Python (exact)"""
    from ..exact import compose
    dim = tr["dim"]
    tol = Fraction(1, 2 ** TOL_EXP)

    def close(p, q):
        ks = set(p.t) | set(q.t)
        return all(abs(p.t.get(k, 0) - q.t.get(k, 0)) <= tol for k in ks)
    first = {}
    traces = {}
    for f, (origin, dirs) in enumerate(tt["fmaps"]):
        m = len(dirs)
        G = [P.const(origin[i], m) + sum((P.var(k, m) * dirs[k][i] for k in range(m)), P(m)) for i in range(dim)]
        for i, v in enumerate(tr["vals"]):
            t = compose(v, G)
            traces[(f, i)] = t
            k = tt["keys"][f][i]
            if k is None:
                if not close(t, P(m)):
                    return False
            else:
                if k in first and not close(t, first[k]):
                    return False
                first.setdefault(k, t)
    for (k1, k2) in tt["pairs"]:
        p, q = first[k1], first[k2]
        rev = compose(p, [P.const(1, 1) - P.var(0, 1)])
        if not close(rev, q):
            return False
    return True


def py_checks(tr, e, name):
    """evaluate, in Python, the same checks the Lean file will state; returns dict of outcomes"""
    dim, fam, vals, ders = tr["dim"], tr["family"], tr["vals"], tr["ders"]
    tol = Fraction(1, 2 ** TOL_EXP)
    res = {}

    def close(p, q):
        keys = set(p.t) | set(q.t)
        return all(abs(p.t.get(k, 0) - q.t.get(k, 0)) <= tol for k in keys)

    zero = P(dim)
    if all(is_scalar(v) for v in vals) and all(d is not None and not is_scalar(d) and len(d) == dim for d in ders):
        res["grad"] = all(close(vals[i].deriv(a), ders[i][a]) for i in range(len(vals)) for a in range(dim))
        res["deg"] = all(v.degree() <= int(e.maxdeg) for v in vals)
        nod = nodal_indices(e, len(vals))
        if nod:
            dl = np.asarray(e.doflocs, dtype=float)
            pts = {j: [Fraction(float(v)) for v in dl[j]] for j in nod}
            res["dual"] = all(abs(vals[i](pts[j]) - (1 if i == j else 0)) <= tol for i in nod for j in nod)
            s = zero
            for i in nod:
                s = s + vals[i]
            res["pou"] = close(s, P.const(1, dim))
        tt = trace_table(e, tr)
        if tt is not None:
            res["traces"] = py_trace_check(tr, tt)
    elif all(not is_scalar(v) and len(v) == dim and all(is_scalar(c) for c in v) for v in vals):
        if fam == "hdiv" and all(d is not None and is_scalar(d) for d in ders):
            res["div"] = all(close(sum((vals[i][a].deriv(a) for a in range(dim)), zero), ders[i])
                             for i in range(len(vals)))
        if fam == "hcurl" and dim == 2 and all(d is not None and is_scalar(d) for d in ders):
            res["curl2"] = all(close(vals[i][1].deriv(0) - vals[i][0].deriv(1), ders[i]) for i in range(len(vals)))
        if fam == "hcurl" and dim == 3 and all(d is not None and not is_scalar(d) and len(d) == 3 for d in ders):
            ok = True
            for i in range(len(vals)):
                f = vals[i]
                c = [f[2].deriv(1) - f[1].deriv(2), f[0].deriv(2) - f[2].deriv(0), f[1].deriv(0) - f[0].deriv(1)]
                ok = ok and all(close(c[a], ders[i][a]) for a in range(3))
            res["curl3"] = ok
        fun = moment_functionals(e, fam, dim)
        if fun and len(fun) == len(vals) and all(max((max(k) if k else 0) for k in (c.t or {(0,) * dim: 0})) <= 1
                                                 for v in vals for c in v):
            M = [[sum(vals[i][a](c) * d[a] for a in range(dim)) * sc for i in range(len(vals))]
                 for (c, d, sc) in fun]
            diag = M[0][0]
            ok = diag != 0 and all(abs(M[j][i] - (diag if i == j else 0)) <= tol
                                   for j in range(len(fun)) for i in range(len(vals)))
            res["moments"] = str(diag) if ok else False
    return res


# ------------------------------------------------------------------ Lean emission

def q_lean(f: Fraction) -> str:
    if f.denominator == 1:
        return f"({f.numerator} : Rat)"
    return f"(mkRat ({f.numerator}) {f.denominator})"


def poly_lean(p: P, dim) -> str:
    terms = p.sorted_terms()
    if not terms:
        return "[]"
    return "[" + ", ".join(f"({q_lean(v)}, [{', '.join(str(a) for a in k)}])" for k, v in terms) + "]"


def lean_name(name):
    return name.replace("(", "_").replace(")", "").replace(",", "_")


def generate(update_expect=False):
    expect = json.loads(EXPECT.read_text()) if EXPECT.exists() else {}
    D = ["import SkfemVerif.Model.Poly", "/-",
         "GENERATED by harness/skv/gens/shapes.py: the local basis functions of every traceable exported element,",
         "extracted by running the real `lbasis` on exact symbolic polynomials -- do not edit.", "-/",
         "namespace Skv.Gen.Shapes", "open Skv", f"def shapeTol : Rat := mkRat 1 (2 ^ {TOL_EXP})", ""]
    F = ["import SkfemVerif.Gen.Shapes", "/-",
         "GENERATED by harness/skv/gens/shapes.py: kernel-checked facts about the traced shape functions",
         "(`decide +kernel`, no axioms) -- do not edit.", "-/", "namespace Skv.Gen.Shapes", "open Skv", ""]
    T = ["import SkfemVerif.Gen.Shapes", "/-",
         "GENERATED by harness/skv/gens/shapes.py: kernel-checked TRACE TABLES of the conforming H1 elements",
         "(restriction of every traced shape function to every reference facet) -- do not edit.", "-/",
         "namespace Skv.Gen.Shapes", "open Skv", ""]
    report = {"traced": [], "untraceable": {}, "facts": {}, "unexpected": []}
    h1_list, div_list, curl2_list, curl3_list, deg_list, trace_list, rev_list = [], [], [], [], [], [], []
    expoly.SnapLog.worst = Fraction(0)
    for kind, lst in elements.pool().items():
        for name, fac in lst:
            e = fac()
            try:
                tr = trace(e, name)
            except Untraceable as ex:
                report["untraceable"][name] = str(ex)[:80]
                continue
            except Exception as ex:
                report["untraceable"][name] = "ERROR " + repr(ex)[:80]
                continue
            outcomes = py_checks(tr, e, name)
            if update_expect or name not in expect:
                expect[name] = {k: (v if k == "moments" else bool(v)) for k, v in outcomes.items()}
            claimed = {k for k, v in expect[name].items() if v or k in ("grad", "div", "curl2", "curl3")}
            ln = lean_name(name)
            dim, vals, ders = tr["dim"], tr["vals"], tr["ders"]
            report["traced"].append(name)
            D.append(f"def {ln}_dim : Nat := {dim}")
            if all(is_scalar(v) for v in vals):
                D.append(f"def {ln}_vals : List Poly := [\n  " + ",\n  ".join(poly_lean(v, dim) for v in vals) + "]")
            else:
                flat = []
                for v in vals:
                    comps = v if isinstance(v, list) and all(is_scalar(c) for c in v) else \
                        [c for row in v for c in row]
                    flat.append("[" + ", ".join(poly_lean(c, dim) for c in comps) + "]")
                D.append(f"def {ln}_vals : List (List Poly) := [\n  " + ",\n  ".join(flat) + "]")
            if "grad" in outcomes:
                D.append(f"def {ln}_grads : List (List Poly) := [\n  " + ",\n  ".join(
                    "[" + ", ".join(poly_lean(c, dim) for c in d) + "]" for d in ders) + "]")
            elif any(k in outcomes for k in ("div", "curl2")):
                D.append(f"def {ln}_ders : List Poly := [\n  " + ",\n  ".join(poly_lean(d, dim) for d in ders) + "]")
            elif "curl3" in outcomes:
                D.append(f"def {ln}_ders : List (List Poly) := [\n  " + ",\n  ".join(
                    "[" + ", ".join(poly_lean(c, dim) for c in d) + "]" for d in ders) + "]")
            D.append("")
            facts = []
            if "grad" in outcomes:
                F.append(f"theorem {ln}_grad_ok : checkGrad {dim} {ln}_vals {ln}_grads shapeTol = true := by "
                         "decide +kernel")
                facts.append("grad")
                h1_list.append(ln)
            if "div" in outcomes:
                div_list.append(ln)
                F.append(f"theorem {ln}_div_ok : checkDiv {dim} {ln}_vals {ln}_ders shapeTol = true := by "
                         "decide +kernel")
                facts.append("div")
            if "curl2" in outcomes:
                F.append(f"theorem {ln}_curl_ok : checkCurl2 {ln}_vals {ln}_ders shapeTol = true := by decide +kernel")
                facts.append("curl2")
                curl2_list.append(ln)
            if "curl3" in outcomes:
                F.append(f"theorem {ln}_curl_ok : checkCurl3 {ln}_vals {ln}_ders shapeTol = true := by decide +kernel")
                facts.append("curl3")
                curl3_list.append(ln)
            if expect[name].get("deg"):
                F.append(f"theorem {ln}_deg_ok : checkDeg {ln}_vals {int(e.maxdeg)} = true := by decide +kernel")
                facts.append("deg")
                deg_list.append((ln, int(e.maxdeg)))
            nod = nodal_indices(e, len(vals)) if "grad" in outcomes else []
            if expect[name].get("dual") and nod:
                dl = np.asarray(e.doflocs, dtype=float)
                nodes = ", ".join("(%d, [%s])" % (j, ", ".join(q_lean(expoly.snap(float(v))) for v in dl[j]))
                                  for j in nod)
                F.append(f"theorem {ln}_dual_ok : checkDual {ln}_vals [{nodes}] shapeTol = true := by decide +kernel")
                facts.append("dual")
            if expect[name].get("pou") and nod:
                F.append(f"theorem {ln}_pou_ok : checkPou {dim} {ln}_vals [{', '.join(map(str, nod))}] shapeTol = true "
                         ":= by decide +kernel")
                facts.append("pou")
            if expect[name].get("traces"):
                tt = trace_table(e, tr)
                fm = ", ".join("([%s], [%s])" % (", ".join(q_lean(v) for v in o),
                                                 ", ".join("[" + ", ".join(q_lean(v) for v in d) + "]" for d in ds))
                               for (o, ds) in tt["fmaps"])
                ky = ", ".join("[" + ", ".join("none" if k is None else f"some {k}" for k in row) + "]"
                               for row in tt["keys"])
                D.append(f"def {ln}_fmaps : List (List Rat × List (List Rat)) := [{fm}]")
                D.append(f"def {ln}_keys : List (List (Option Nat)) := [{ky}]")
                T.append(f"theorem {ln}_traces_ok : checkTraceTable {ln}_vals {ln}_fmaps {ln}_keys shapeTol = true := by "
                         "decide +kernel")
                T.append(f"theorem {ln}_keys_ok : checkKeys {ln}_keys = true := by decide +kernel")
                facts.append("traces")
                trace_list.append(ln)
                if tt["pairs"]:
                    pr = ", ".join(f"({a}, {b})" for a, b in tt["pairs"])
                    T.append(f"theorem {ln}_reversal_ok : checkTraceReversal {ln}_vals {ln}_fmaps {ln}_keys [{pr}] "
                             "shapeTol = true := by decide +kernel")
                    D.append(f"def {ln}_pairs : List (Nat × Nat) := [{pr}]")
                    rev_list.append(ln)
                    facts.append("reversal")
            if expect[name].get("moments"):
                fun = moment_functionals(e, tr["family"], dim)
                fl = ", ".join("([%s], [%s], %s)" % (", ".join(q_lean(v) for v in c), ", ".join(q_lean(v) for v in d),
                                                     q_lean(sc)) for (c, d, sc) in fun)
                dg = q_lean(Fraction(expect[name]["moments"]))
                F.append(f"theorem {ln}_moments_ok : checkMoments {ln}_vals [{fl}] {dg} shapeTol = true := by "
                         "decide +kernel")
                facts.append("moments")
            for k, v in outcomes.items():
                if k in ("dual", "pou", "moments", "deg", "traces") and v and not expect[name].get(k):
                    report["unexpected"].append((name, k, "holds now but not in the frozen expectation"))
            report["facts"][name] = facts
            F.append("")
    def table(defname, names, tuple_fmt, ty, check, factname):
        D.append(f"def {defname} : List ({ty}) := [" + ", ".join(tuple_fmt.format(n=n) for n in names) + "]\n")
        F.append(f"theorem {defname}_ok : ∀ E ∈ {defname}, {check} = true := by")
        F.append("  intro E hE")
        F.append(f"  simp only [{defname}, List.mem_cons, List.not_mem_nil, or_false] at hE")
        if len(names) > 1:
            F.append("  rcases hE with " + " | ".join(["h"] * len(names)))
            for n in names:
                F.append(f"  · subst h; exact {n}_{factname}")
        else:
            F.append(f"  subst hE; exact {names[0]}_{factname}")
        F.append("")
    if h1_list:
        table("h1Elements", h1_list, "({n}_dim, {n}_vals, {n}_grads)", "Nat × List Poly × List (List Poly)",
              "checkGrad E.1 E.2.1 E.2.2 shapeTol", "grad_ok")
    if div_list:
        table("hdivElements", div_list, "({n}_dim, {n}_vals, {n}_ders)", "Nat × List (List Poly) × List Poly",
              "checkDiv E.1 E.2.1 E.2.2 shapeTol", "div_ok")
    if curl2_list:
        table("hcurl2Elements", curl2_list, "({n}_vals, {n}_ders)", "List (List Poly) × List Poly",
              "checkCurl2 E.1 E.2 shapeTol", "curl_ok")
    if curl3_list:
        table("hcurl3Elements", curl3_list, "({n}_vals, {n}_ders)", "List (List Poly) × List (List Poly)",
              "checkCurl3 E.1 E.2 shapeTol", "curl_ok")
    def table_to(Fl, defname, names, tuple_fmt, ty, check, factname):
        D.append(f"def {defname} : List ({ty}) := [" + ", ".join(tuple_fmt.format(n=n) for n in names) + "]\n")
        Fl.append(f"theorem {defname}_ok : ∀ E ∈ {defname}, {check} = true := by")
        Fl.append("  intro E hE")
        Fl.append(f"  simp only [{defname}, List.mem_cons, List.not_mem_nil, or_false] at hE")
        if len(names) > 1:
            Fl.append("  rcases hE with " + " | ".join(["h"] * len(names)))
            for n in names:
                Fl.append(f"  · subst h; exact {n}_{factname}")
        else:
            Fl.append(f"  subst hE; exact {names[0]}_{factname}")
        Fl.append("")
    if trace_list:
        table_to(T, "traceElements", trace_list, "({n}_vals, {n}_fmaps, {n}_keys)",
                 "List Poly × List (List Rat × List (List Rat)) × List (List (Option Nat))",
                 "checkTraceTable E.1 E.2.1 E.2.2 shapeTol", "traces_ok")
    if trace_list:
        T.append("theorem traceElements_keys_ok : ∀ E ∈ traceElements, checkKeys E.2.2 = true := by")
        T.append("  intro E hE")
        T.append("  simp only [traceElements, List.mem_cons, List.not_mem_nil, or_false] at hE")
        T.append("  rcases hE with " + " | ".join(["h"] * len(trace_list)))
        for n in trace_list:
            T.append(f"  · subst h; exact {n}_keys_ok")
        T.append("")
    if rev_list:
        table_to(T, "reversalElements", rev_list, "({n}_vals, {n}_fmaps, {n}_keys, {n}_pairs)",
                 "List Poly × List (List Rat × List (List Rat)) × List (List (Option Nat)) × List (Nat × Nat)",
                 "checkTraceReversal E.1 E.2.1 E.2.2.1 E.2.2.2 shapeTol", "reversal_ok")
    if deg_list:
        D.append("def degElements : List (List Poly × Nat) := [" +
                 ", ".join(f"({n}_vals, {d})" for n, d in deg_list) + "]\n")
        F.append("theorem degElements_ok : ∀ E ∈ degElements, checkDeg E.1 E.2 = true := by")
        F.append("  intro E hE")
        F.append("  simp only [degElements, List.mem_cons, List.not_mem_nil, or_false] at hE")
        F.append("  rcases hE with " + " | ".join(["h"] * len(deg_list)))
        for n, d in deg_list:
            F.append(f"  · subst h; exact {n}_deg_ok")
        F.append("")
    D.append("end Skv.Gen.Shapes")
    F.append("end Skv.Gen.Shapes")
    T.append("end Skv.Gen.Shapes")
    report["snap_worst"] = float(expoly.SnapLog.worst)
    if update_expect or not EXPECT.exists():
        EXPECT.write_text(json.dumps(expect, indent=1, sort_keys=True) + "\n")
    c1 = write_if_changed(LEAN / "SkfemVerif" / "Gen" / "Shapes.lean", "\n".join(D) + "\n")
    c2 = write_if_changed(LEAN / "SkfemVerif" / "Gen" / "ShapeFacts.lean", "\n".join(F) + "\n")
    c3 = write_if_changed(LEAN / "SkfemVerif" / "Gen" / "TraceFacts.lean", "\n".join(T) + "\n")
    generate.report = report
    return c1 or c2 or c3


generate.report = {}
