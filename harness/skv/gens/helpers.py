"""T3 (closed-form blocks): regenerate lean/SkfemVerif/Gen/HelperFormulas.lean from the LIVE
source of `skfem/helpers.py` (NumPy variant) and `skfem/autodiff/helpers.py` (JAX variant).

The body of every helper is read with `inspect` + `ast` and *symbolically executed* on tensors
whose leading ("logical") shape is concrete (sizes 2 and 3) and whose two trailing axes are the
symbolic extents `NT`, `NQ` (cells x quadrature points: every helper acts pointwise over them).
Only a restricted subset of Python is understood:

  * names, numeric literals, `None`, strings; `+ - * /`, unary minus;
  * constant subscripts `A[0, 1]`, `u.grad[1]`, `A.shape[0]`; attribute access `u.grad`,
    `u.div`, `u.curl`, `u.value`, `.shape`;
  * `np.array([...])` / `jnp.array([...])` literals (nested lists, list comprehensions over
    `range(n)` with concrete `n`, conditional expressions with a concrete test);
  * `zeros_like`, assignment to a name or to a constant subscript of a fresh array;
  * `if` / `elif` on concrete tests (`A.shape[0] == 3`, `len(A.shape) == len(B.shape)`,
    `isinstance(u, JaxDiscreteField)`, `x is None`, `x is not None`);
  * `einsum` with an explicit subscript string (expanded for the concrete index ranges; ellipsis
    broadcasting right-aligned as NumPy does);
  * calls of other helpers of the same module; `try/except ValueError` around an `einsum`
    whose subscripts do not fit the operand; `raise`.

Anything else raises `TranslatorError`; nothing is guessed.  The output is ONE Lean term per
helper / size over core type classes (`Add Sub Mul Neg Div NatCast`), plus a table for the driver
(`helperTable`) so that the very same terms are evaluated over `Rat` by `gen-selfcheck`.

Fallback when the translator is NOT APPLICABLE to a helper (its source left the subset, or a helper
it calls did): the helper's definition and its `helperTable` row are KEPT, textually, from the last
successful translation -- the existing `Gen/HelperFormulas.lean` (a committed file; if a helper is
missing there, the version at git HEAD is consulted) -- under a comment line
`-- KEPT from the last successful translation (translator not applicable now: <msg>)`.
Nothing new is derived for such a helper: the theorems of Props/C20.lean are then statements about
the OLD formula, and the only tie of that formula to the live code is the exact correspondence
`gen-selfcheck[<name>]` run by props/c20.py (see `Ctx.translator_failed`).  `generate.kept` lists
these helpers.  A helper without a previous definition (or whose previous definition no longer
fits the job: other argument shapes, a callee that is gone) stays a failure = broken tie.
"""
from __future__ import annotations

import ast
import inspect
import itertools
import re
import subprocess
import textwrap
from fractions import Fraction

from ..core import LEAN, write_if_changed


class TranslatorError(Exception):
    """the source left the restricted subset"""


class PyRaise(Exception):
    """an exception raised by the interpreted code (or by an interpreted primitive)"""

    def __init__(self, name):
        super().__init__(name)
        self.name = name


class Dim:
    """symbolic extent of a trailing axis; equal only to itself"""

    def __init__(self, name):
        self.name = name

    def __eq__(self, other):
        return isinstance(other, Dim) and other.name == self.name

    def __ne__(self, other):
        return not self.__eq__(other)

    def __hash__(self):
        return hash(("Dim", self.name))

    def __repr__(self):
        return self.name


TRAIL = (Dim("NT"), Dim("NQ"))


# ---------------------------------------------------------------------------
# scalar expressions: nested tuples
#   ('var', name, idx) ('lit', Fraction) ('add'|'sub'|'mul'|'div', a, b) ('neg', a)
#   ('call', leanname, [argnames], expanded)

def lit(x):
    return ("lit", Fraction(x))


class T:
    """symbolic tensor: logical shape + entries (scalar expressions); `origin` = name of the
    parameter it is an unmodified copy of (used to render calls of other helpers)"""

    def __init__(self, lshape, entries, origin=None):
        self.lshape = tuple(lshape)
        self.e = dict(entries)
        self.origin = origin

    @staticmethod
    def param(name, lshape):
        return T(lshape, {idx: ("var", name, idx) for idx in itertools.product(*[range(d) for d in lshape])},
                 origin=name)

    @property
    def shape(self):
        return self.lshape + TRAIL

    def indices(self):
        return itertools.product(*[range(d) for d in self.lshape])

    def sub(self, idx):
        if len(idx) > len(self.lshape):
            raise TranslatorError("subscript reaches into the trailing axes")
        for i, d in zip(idx, self.lshape):
            if not (0 <= i < d):
                raise PyRaise("IndexError")
        rest = self.lshape[len(idx):]
        return T(rest, {j: self.e[tuple(idx) + j] for j in itertools.product(*[range(d) for d in rest])})


class Fld:
    """a (Jax)DiscreteField: attributes are symbolic tensors or None"""

    def __init__(self, **kw):
        self.attrs = {"value": None, "grad": None, "div": None, "curl": None, "hess": None}
        self.attrs.update(kw)


def _scalar(x):
    """scalar expression of a rank-0 tensor / a Python number"""
    if isinstance(x, T):
        if x.lshape != ():
            raise TranslatorError("scalar expected")
        return x.e[()]
    if isinstance(x, bool):
        raise TranslatorError("bool in arithmetic")
    if isinstance(x, (int, float, Fraction)):
        return lit(Fraction(x))
    raise TranslatorError(f"not a scalar: {type(x).__name__}")


def _binop(op, a, b):
    """elementwise arithmetic with NumPy's right-aligned broadcasting over the logical axes"""
    num = (int, float, Fraction)
    if isinstance(a, num) and isinstance(b, num) and not isinstance(a, bool) and not isinstance(b, bool):
        fa, fb = Fraction(a), Fraction(b)
        if op == "add":
            return fa + fb
        if op == "sub":
            return fa - fb
        if op == "mul":
            return fa * fb
        if fb == 0:
            raise PyRaise("ZeroDivisionError")
        return fa / fb
    if not isinstance(a, T):
        a = T((), {(): _scalar(a)})
    if not isinstance(b, T):
        b = T((), {(): _scalar(b)})
    la, lb = a.lshape, b.lshape
    n = max(len(la), len(lb))
    pa, pb = (None,) * (n - len(la)) + la, (None,) * (n - len(lb)) + lb
    out = []
    for x, y in zip(pa, pb):
        if x is not None and y is not None and x != y:
            raise TranslatorError(f"broadcast of logical shapes {la} and {lb}")
        out.append(x if x is not None else y)
    ent = {}
    for idx in itertools.product(*[range(d) for d in out]):
        ia = tuple(i for i, x in zip(idx, pa) if x is not None)
        ib = tuple(i for i, x in zip(idx, pb) if x is not None)
        ent[idx] = (op, a.e[ia], b.e[ib])
    return T(out, ent)


def einsum(subs, ops):
    if not isinstance(subs, str):
        raise TranslatorError("einsum without an explicit subscript string")
    subs = subs.replace(" ", "")
    if "->" in subs:
        lhs, out = subs.split("->")
    else:
        lhs, out = subs, None
    ins = lhs.split(",")
    if len(ins) != len(ops):
        raise PyRaise("ValueError")
    letters_of, ell_of = [], []
    extent = {}
    for s, op in zip(ins, ops):
        if not isinstance(op, T):
            raise TranslatorError("einsum operand is not a tensor")
        if not s.endswith("..."):
            raise TranslatorError("einsum operand without trailing ellipsis")
        let = s[:-3]
        if not let.isalpha() and let != "":
            raise TranslatorError("einsum subscripts")
        full = op.shape
        if len(let) > len(full):
            raise PyRaise("ValueError")
        for ax, ch in enumerate(let):
            ext = full[ax]
            if ch in extent and extent[ch] != ext:
                # NumPy: "dimensions in operand for collapsing index don't match" (generic NT, NQ)
                raise PyRaise("ValueError")
            extent[ch] = ext
        if any(isinstance(extent[ch], Dim) for ch in let):
            raise TranslatorError("einsum index runs over a trailing axis (not pointwise)")
        letters_of.append(let)
        ell_of.append(op.lshape[len(let):])
    n = max(len(e) for e in ell_of)
    padded = [(None,) * (n - len(e)) + tuple(e) for e in ell_of]
    ell = []
    for pos in range(n):
        vals = {p[pos] for p in padded if p[pos] is not None}
        if len(vals) != 1:
            raise TranslatorError("einsum ellipsis broadcast with different extents")
        ell.append(vals.pop())
    allletters = "".join(letters_of)
    if out is None:
        free = sorted(ch for ch in set(allletters) if allletters.count(ch) == 1)
        if free:
            raise TranslatorError("implicit einsum output with free indices (ellipsis would come first)")
        outlet = ""
    else:
        if not out.endswith("..."):
            raise TranslatorError("einsum output without trailing ellipsis")
        outlet = out[:-3]
        if len(set(outlet)) != len(outlet) or any(ch not in extent for ch in outlet):
            raise PyRaise("ValueError")
    order = []
    for ch in allletters:
        if ch not in outlet and ch not in order:
            order.append(ch)
    oshape = tuple(extent[ch] for ch in outlet) + tuple(ell)
    ent = {}
    for oidx in itertools.product(*[range(d) for d in oshape]):
        asg = {ch: oidx[k] for k, ch in enumerate(outlet)}
        eidx = oidx[len(outlet):]
        total = None
        for sidx in itertools.product(*[range(extent[ch]) for ch in order]):
            asg.update(dict(zip(order, sidx)))
            term = None
            for let, pad, op in zip(letters_of, padded, ops):
                own = tuple(asg[ch] for ch in let) + tuple(i for i, p in zip(eidx, pad) if p is not None)
                term = op.e[own] if term is None else ("mul", term, op.e[own])
            total = term if total is None else ("add", total, term)
        ent[oidx] = total
    return T(oshape, ent)


def stack(items):
    """np.array([...]) of equally shaped tensors / scalars"""
    if not isinstance(items, list) or not items:
        raise TranslatorError("array literal")
    conv = []
    for it in items:
        if isinstance(it, list):
            it = stack(it)
        if not isinstance(it, T):
            it = T((), {(): _scalar(it)})
        conv.append(it)
    if len({c.lshape for c in conv}) != 1:
        raise TranslatorError("ragged array literal")
    ent = {}
    for k, c in enumerate(conv):
        for idx, v in c.e.items():
            ent[(k,) + idx] = v
    return T((len(conv),) + conv[0].lshape, ent)


class Module:
    """one helper module, interpreted from its live source"""

    def __init__(self, variant):
        self.variant = variant
        if variant == "np":
            import skfem.helpers as mod
        else:
            import skfem.autodiff.helpers as mod
        self.mod = mod
        self.funcs = {}
        self.jobs = {}      # (fname, signature) -> leanname, for rendering calls

    def funcdef(self, fname):
        if fname not in self.funcs:
            obj = getattr(self.mod, fname, None)
            if obj is None or not inspect.isfunction(obj):
                raise TranslatorError(f"{self.variant}:{fname} is not a function of the module")
            if inspect.getmodule(obj) is not self.mod:
                raise TranslatorError(f"{self.variant}:{fname} is defined in another module")
            src = textwrap.dedent(inspect.getsource(obj))
            fn = ast.parse(src).body[0]
            if not isinstance(fn, ast.FunctionDef):
                raise TranslatorError("not a plain function")
            self.funcs[fname] = (fn, inspect.getsourcelines(obj)[1])
        return self.funcs[fname]

    # -- calling convention ----------------------------------------------------
    def call(self, fname, args, top=False):
        fn, line0 = self.funcdef(fname)
        a = fn.args
        if a.vararg or a.kwarg or a.kwonlyargs or a.posonlyargs:
            raise TranslatorError(f"{fname}: unsupported signature")
        names = [x.arg for x in a.args]
        if len(args) > len(names):
            raise PyRaise("TypeError")
        env = {}
        ndef = len(a.defaults)
        for k, nm in enumerate(names):
            if k < len(args):
                env[nm] = args[k]
            elif k >= len(names) - ndef:
                env[nm] = Interp(self, {}, fname, line0).ev(a.defaults[k - (len(names) - ndef)])
            else:
                raise PyRaise("TypeError")
        if not top:
            key = (fname, sig_of(args))
            if key in self.jobs and all(isinstance(x, T) and x.origin for x in args):
                res = self.call(fname, args, top=True)
                if isinstance(res, T) and res.lshape == ():
                    return T((), {(): ("call", self.jobs[key], [x.origin for x in args], res.e[()])})
                return res
        it = Interp(self, env, fname, line0)
        return it.run(fn.body)


def sig_of(args):
    out = []
    for x in args:
        if isinstance(x, T):
            out.append(("T",) + x.lshape)
        elif isinstance(x, Fld):
            out.append(("F",) + tuple((k, v.lshape) for k, v in sorted(x.attrs.items()) if v is not None))
        else:
            out.append(("C", repr(x)))
    return tuple(out)


class _Return(Exception):
    def __init__(self, value):
        self.value = value


class Interp:
    def __init__(self, module, env, fname, line0):
        self.m = module
        self.env = env
        self.fname = fname
        self.line0 = line0
        self.fresh = set()      # names bound to arrays created by zeros_like (assignable)

    def fail(self, node, why):
        ln = self.line0 + getattr(node, "lineno", 1) - 1
        raise TranslatorError(f"{self.m.mod.__name__}.{self.fname} line {ln}: {why}")

    def run(self, body):
        try:
            self.block(body)
        except _Return as r:
            return r.value
        return None

    def block(self, body):
        for st in body:
            self.stmt(st)

    def stmt(self, st):
        if isinstance(st, ast.Expr):
            if isinstance(st.value, ast.Constant) and isinstance(st.value.value, str):
                return
            self.fail(st, "expression statement")
        if isinstance(st, ast.Return):
            raise _Return(None if st.value is None else self.ev(st.value))
        if isinstance(st, ast.Assign):
            if len(st.targets) != 1:
                self.fail(st, "multiple assignment")
            tgt = st.targets[0]
            val = self.ev(st.value)
            if isinstance(tgt, ast.Name):
                self.env[tgt.id] = val
                if isinstance(st.value, ast.Call) and self._callname(st.value.func) in ("zeros_like",):
                    self.fresh.add(tgt.id)
                else:
                    self.fresh.discard(tgt.id)
                return
            if isinstance(tgt, ast.Subscript) and isinstance(tgt.value, ast.Name):
                nm = tgt.value.id
                if nm not in self.fresh:
                    self.fail(st, "item assignment into an array that is not a fresh zeros_like")
                arr = self.env[nm]
                idx = self.index(tgt.slice)
                if len(idx) != len(arr.lshape):
                    self.fail(st, "item assignment with a partial index")
                for i, d in zip(idx, arr.lshape):
                    if not (0 <= i < d):
                        raise PyRaise("IndexError")
                arr.e[tuple(idx)] = _scalar(val)
                arr.origin = None
                return
            self.fail(st, "assignment target")
        if isinstance(st, ast.If):
            c = self.ev(st.test)
            if not isinstance(c, bool):
                self.fail(st, "branch on a non-concrete test")
            self.block(st.body if c else st.orelse)
            return
        if isinstance(st, ast.Raise):
            exc = st.exc
            if isinstance(exc, ast.Call):
                exc = exc.func
            if isinstance(exc, ast.Name):
                raise PyRaise(exc.id)
            self.fail(st, "raise")
        if isinstance(st, ast.Try):
            if st.finalbody or st.orelse:
                self.fail(st, "try with else/finally")
            try:
                self.block(st.body)
            except PyRaise as ex:
                for h in st.handlers:
                    if h.name is None and isinstance(h.type, ast.Name) and h.type.id == ex.name:
                        self.block(h.body)
                        return
                raise
            return
        if isinstance(st, ast.Pass):
            return
        self.fail(st, f"statement {type(st).__name__}")

    def index(self, node):
        v = self.ev(node)
        if isinstance(v, bool):
            self.fail(node, "bool index")
        if isinstance(v, int):
            return (v,)
        if isinstance(v, list) and all(isinstance(i, int) and not isinstance(i, bool) for i in v):
            return tuple(v)
        self.fail(node, "non-constant subscript")

    def _callname(self, f):
        if isinstance(f, ast.Name):
            return f.id
        if isinstance(f, ast.Attribute) and isinstance(f.value, ast.Name) and f.value.id in ("np", "jnp"):
            return f.attr
        return None

    def ev(self, n):
        if isinstance(n, ast.Constant):
            v = n.value
            if v is None or isinstance(v, (bool, int, float, str)):
                return v
            self.fail(n, "constant")
        if isinstance(n, ast.Name):
            if n.id in self.env:
                return self.env[n.id]
            if n.id in ("None", "True", "False"):
                return {"None": None, "True": True, "False": False}[n.id]
            self.fail(n, f"free name {n.id}")
        if isinstance(n, ast.Tuple) or isinstance(n, ast.List):
            return [self.ev(e) for e in n.elts]
        if isinstance(n, ast.Attribute):
            v = self.ev(n.value)
            if isinstance(v, Fld):
                if n.attr in v.attrs:
                    return v.attrs[n.attr]
                raise PyRaise("AttributeError")
            if isinstance(v, T) and n.attr == "shape":
                return list(v.shape)
            self.fail(n, f"attribute .{n.attr}")
        if isinstance(n, ast.Subscript):
            v = self.ev(n.value)
            idx = self.index(n.slice)
            if isinstance(v, T):
                r = v.sub(idx)
                return r
            if isinstance(v, list) and len(idx) == 1:
                try:
                    return v[idx[0]]
                except IndexError:
                    raise PyRaise("IndexError")
            self.fail(n, "subscript")
        if isinstance(n, ast.UnaryOp):
            if not isinstance(n.op, ast.USub):
                self.fail(n, "unary operator")
            v = self.ev(n.operand)
            if isinstance(v, (int, float)) and not isinstance(v, bool):
                return -Fraction(v)
            if isinstance(v, Fraction):
                return -v
            if isinstance(v, T):
                return T(v.lshape, {i: ("neg", x) for i, x in v.e.items()})
            self.fail(n, "negation of a non-number")
        if isinstance(n, ast.BinOp):
            ops = {ast.Add: "add", ast.Sub: "sub", ast.Mult: "mul", ast.Div: "div"}
            if type(n.op) not in ops:
                self.fail(n, f"operator {type(n.op).__name__}")
            a, b = self.ev(n.left), self.ev(n.right)
            for x in (a, b):
                if not isinstance(x, (T, int, float, Fraction)) or isinstance(x, bool):
                    self.fail(n, f"arithmetic on {type(x).__name__}")
            return _binop(ops[type(n.op)], a, b)
        if isinstance(n, ast.Compare):
            if len(n.ops) != 1:
                self.fail(n, "chained comparison")
            a, b = self.ev(n.left), self.ev(n.comparators[0])
            conc = (int, Dim, type(None), bool, str)
            op = n.ops[0]
            if isinstance(op, (ast.Is, ast.IsNot)):
                if b is not None and a is not None:
                    self.fail(n, "`is` on something else than None")
                r = (a is None) == (b is None)
                return r if isinstance(op, ast.Is) else not r
            if not isinstance(a, conc) or not isinstance(b, conc):
                self.fail(n, "comparison of non-concrete values")
            if isinstance(op, ast.Eq):
                return bool(a == b)
            if isinstance(op, ast.NotEq):
                return bool(a != b)
            if isinstance(a, int) and isinstance(b, int):
                if isinstance(op, ast.Lt):
                    return a < b
                if isinstance(op, ast.LtE):
                    return a <= b
                if isinstance(op, ast.Gt):
                    return a > b
                if isinstance(op, ast.GtE):
                    return a >= b
            self.fail(n, "comparison")
        if isinstance(n, ast.BoolOp):
            vals = []
            for e in n.values:
                v = self.ev(e)
                if not isinstance(v, bool):
                    self.fail(n, "boolean operator on non-concrete value")
                vals.append(v)
                if isinstance(n.op, ast.And) and not v:
                    return False
                if isinstance(n.op, ast.Or) and v:
                    return True
            return vals[-1]
        if isinstance(n, ast.IfExp):
            c = self.ev(n.test)
            if not isinstance(c, bool):
                self.fail(n, "conditional expression on a non-concrete test")
            return self.ev(n.body if c else n.orelse)
        if isinstance(n, ast.ListComp):
            if len(n.generators) != 1:
                self.fail(n, "nested generators")
            g = n.generators[0]
            if g.ifs or g.is_async or not isinstance(g.target, ast.Name):
                self.fail(n, "comprehension form")
            it = self.ev(g.iter)
            if not (isinstance(it, list) and all(isinstance(i, int) for i in it)):
                self.fail(n, "comprehension over something else than range(n)")
            out = []
            saved = self.env.get(g.target.id, self)
            for i in it:
                self.env[g.target.id] = i
                out.append(self.ev(n.elt))
            if saved is self:
                self.env.pop(g.target.id, None)
            else:
                self.env[g.target.id] = saved
            return out
        if isinstance(n, ast.Call):
            return self.call(n)
        self.fail(n, f"expression {type(n).__name__}")

    def call(self, n):
        if n.keywords:
            self.fail(n, "keyword arguments")
        name = self._callname(n.func)
        if name is None:
            self.fail(n, "call target")
        qualified = isinstance(n.func, ast.Attribute)
        if name == "isinstance" and not qualified:
            if len(n.args) != 2 or not isinstance(n.args[1], ast.Name):
                self.fail(n, "isinstance form")
            v = self.ev(n.args[0])
            cls = n.args[1].id
            if cls in ("JaxDiscreteField", "DiscreteField"):
                return isinstance(v, Fld)
            if cls == "tuple":
                return False if isinstance(v, (T, Fld)) else self.fail(n, "isinstance tuple")
            self.fail(n, f"isinstance(…, {cls})")
        args = [self.ev(a) for a in n.args]
        if name == "len" and not qualified:
            if len(args) == 1 and isinstance(args[0], list):
                return len(args[0])
            self.fail(n, "len")
        if name == "range" and not qualified:
            if len(args) == 1 and isinstance(args[0], int) and not isinstance(args[0], bool):
                return list(range(args[0]))
            self.fail(n, "range")
        if name == "zeros_like":
            if len(args) == 1 and isinstance(args[0], T):
                return T(args[0].lshape, {i: lit(0) for i in args[0].indices()})
            self.fail(n, "zeros_like")
        if name == "array" and qualified:
            if len(args) != 1:
                self.fail(n, "array(...) with extra arguments")
            return stack(args[0])
        if name == "einsum" and qualified:
            if not args:
                self.fail(n, "einsum")
            return einsum(args[0], args[1:])
        if not qualified and hasattr(self.m.mod, name) and inspect.isfunction(getattr(self.m.mod, name)):
            return self.m.call(name, args)
        self.fail(n, f"call of {name}")


# ---------------------------------------------------------------------------
# job list: (lean suffix, function, argument builders)

def P(name, *shape):
    return ("T", name, tuple(shape))


def G(name, **kw):
    return ("F", name, kw)


def C(value):
    return ("C", value)


def job_list():
    """[(leanname, variant, fname, argspecs)] for sizes 2 and 3; names are `<variant>_<id>`"""
    jobs = []
    for var in ("np", "jax"):
        for d in (2, 3):
            jobs.append((f"{var}_det{d}", var, "det", [P("A", d, d)]))
    for d in (2, 3):
        jobs.append((f"np_inv{d}", "np", "inv", [P("A", d, d)]))
        jobs.append((f"np_cross{d}", "np", "cross", [P("A", d), P("B", d)]))
    jobs.append(("np_curl2s", "np", "curl", [G("u", grad=(2,))]))
    jobs.append(("np_curl2v", "np", "curl", [G("u", grad=(2, 2))]))
    jobs.append(("np_curl3", "np", "curl", [G("u", grad=(3, 3))]))
    jobs.append(("np_div1", "np", "div", [G("u", grad=(1,))]))
    jobs.append(("jax_div1", "jax", "div", [G("u", grad=(1,))]))
    for var in ("np", "jax"):
        for d in (2, 3):
            jobs.append((f"{var}_trace{d}", var, "trace", [P("T", d, d)]))
            jobs.append((f"{var}_transpose{d}", var, "transpose", [P("T", d, d)]))
            jobs.append((f"{var}_eye{d}", var, "eye", [P("w"), C(d)]))
            jobs.append((f"{var}_sym_grad{d}", var, "sym_grad", [G("u", grad=(d, d))]))
            jobs.append((f"{var}_div{d}", var, "div", [G("u", grad=(d, d))]))
            jobs.append((f"{var}_dot{d}", var, "dot", [P("u", d), P("v", d)]))
            jobs.append((f"{var}_ddot{d}", var, "ddot", [P("u", d, d), P("v", d, d)]))
            jobs.append((f"{var}_dddot{d}", var, "dddot", [P("u", d, d, d), P("v", d, d, d)]))
            jobs.append((f"{var}_prod{d}", var, "prod", [P("u", d), P("v", d)]))
            jobs.append((f"{var}_tprod{d}", var, "prod", [P("u", d), P("v", d), P("w", d)]))
            jobs.append((f"{var}_mul{d}", var, "mul", [P("A", d, d), P("x", d)]))
            jobs.append((f"{var}_mulm{d}", var, "mul", [P("A", d, d), P("B", d, d)]))
    return jobs


def build_args(specs, fn_argnames):
    """symbolic arguments + Lean binders.  Binder names follow the Python parameter names."""
    args, binders = [], []
    for k, sp in enumerate(specs):
        pyname = fn_argnames[k] if k < len(fn_argnames) else f"a{k}"
        if sp[0] == "T":
            nm = pyname
            args.append(T.param(nm, sp[2]))
            binders.append((nm, sp[2]))
        elif sp[0] == "F":
            kw = {}
            for attr, shp in sp[2].items():
                nm = f"{pyname}_{attr}"
                kw[attr] = T.param(nm, shp)
                binders.append((nm, tuple(shp)))
            args.append(Fld(**kw))
        else:
            args.append(sp[1])
    return args, binders


# ---------------------------------------------------------------------------
# rendering

PREC = {"add": 65, "sub": 65, "mul": 70, "div": 70}
SYM = {"add": "+", "sub": "-", "mul": "*", "div": "/"}


def used_ops(e, acc):
    k = e[0]
    if k == "var":
        return
    if k == "lit":
        acc.add("lit")
        if e[1].denominator != 1:
            acc.add("div")
        if e[1] < 0:
            acc.add("neg")
        return
    if k == "call":
        acc.add(("call", e[1]))
        return
    acc.add(k)
    for s in e[1:]:
        used_ops(s, acc)


def render(e, prec=0):
    k = e[0]
    if k == "var":
        s = " ".join([e[1]] + [str(i) for i in e[2]])
        return f"({s})" if (e[2] and prec > 1000) else s
    if k == "lit":
        f = e[1]
        s = f"((%d : Nat) : R)" % abs(f.numerator)
        if f.denominator != 1:
            s = f"({s} / ((%d : Nat) : R))" % f.denominator
        if f < 0:
            s = f"(-{s})"
        return s
    if k == "call":
        s = " ".join([e[1]] + list(e[2]))
        return f"({s})" if prec > 0 else s
    if k == "neg":
        return "(-" + render(e[1], 75) + ")"
    p = PREC[k]
    # left-associative: the right operand needs strictly higher precedence
    s = render(e[1], p) + " " + SYM[k] + " " + render(e[2], p + 1)
    return f"({s})" if prec > p else s


def render_tensor(t):
    def rec(prefix, depth):
        if depth == len(t.lshape):
            return render(t.e[prefix], 0)
        d = t.lshape[depth]
        if d not in (2, 3):
            raise TranslatorError(f"result axis of length {d}")
        parts = ["(" + rec(prefix + (i,), depth + 1) + ")" for i in range(d)]
        return f"vec{d} " + " ".join(parts)
    return rec((), 0)


def ty(shape):
    return " → ".join([f"Fin {d}" for d in shape] + ["R"])


CLASS_OF = {"add": "Add", "sub": "Sub", "mul": "Mul", "neg": "Neg", "div": "Div", "lit": "NatCast"}


def evaluate(e, env):
    """exact evaluation of a scalar expression (Fractions); env: name -> {idx: value}"""
    k = e[0]
    if k == "var":
        return env[e[1]][e[2]]
    if k == "lit":
        return e[1]
    if k == "call":
        return evaluate(e[3], env)
    if k == "neg":
        return -evaluate(e[1], env)
    a, b = evaluate(e[1], env), evaluate(e[2], env)
    if k == "add":
        return a + b
    if k == "sub":
        return a - b
    if k == "mul":
        return a * b
    return a / b


def translate():
    """returns (results, failures): results[leanname] = dict(variant, fname, binders, value (T),
    classes, deps); failures = [(leanname, message)]"""
    mods = {}
    failures = []
    for v in ("np", "jax"):
        try:
            mods[v] = Module(v)
        except Exception as ex:                      # import failure = broken tie
            failures.append((f"{v}_*", f"module import failed: {ex!r}"))
    jobs = [j for j in job_list() if j[1] in mods]
    # calls between helpers are rendered as calls when the callee is itself a job
    for lean, var, fname, specs in jobs:
        try:
            fn, _ = mods[var].funcdef(fname)
        except TranslatorError:
            continue
        args, _ = build_args(specs, [a.arg for a in fn.args.args])
        mods[var].jobs[(fname, sig_of(args))] = lean
    results = {}
    for lean, var, fname, specs in jobs:
        try:
            fn, _ = mods[var].funcdef(fname)
            args, binders = build_args(specs, [a.arg for a in fn.args.args])
            try:
                val = mods[var].call(fname, args, top=True)
            except PyRaise as ex:
                raise TranslatorError(f"the helper raises {ex.name} on this shape")
            if val is None:
                raise TranslatorError("the helper returns None on this shape")
            if not isinstance(val, T):
                val = T((), {(): _scalar(val)})
            acc = set()
            for x in val.e.values():
                used_ops(x, acc)
            deps = sorted(a[1] for a in acc if isinstance(a, tuple))
            results[lean] = {"variant": var, "fname": fname, "binders": binders, "value": val,
                             "ops": {a for a in acc if not isinstance(a, tuple)}, "deps": deps,
                             "specs": specs}
        except TranslatorError as ex:
            failures.append((lean, str(ex)))
        except RecursionError:
            failures.append((lean, "recursion"))
    # transitive class requirements through calls; drop results whose callee failed
    changed = True
    while changed:
        changed = False
        for lean, r in list(results.items()):
            for d in r["deps"]:
                if d not in results:
                    failures.append((lean, f"calls {d}, which could not be translated"))
                    del results[lean]
                    changed = True
                    break
                if not results[d]["ops"] <= r["ops"]:
                    r["ops"] |= results[d]["ops"]
                    changed = True
    return results, failures


# ---------------------------------------------------------------------------
# fallback: definitions kept from the last successful translation

GEN_FILE = LEAN / "SkfemVerif" / "Gen" / "HelperFormulas.lean"
KEPT_MARK = "-- KEPT from the last successful translation (translator not applicable now: "
OP_OF_CLASS = {v: k for k, v in CLASS_OF.items()}
OPS_ORDER = ("add", "sub", "mul", "neg", "div", "lit")
_HEADER_RE = re.compile(r"^def (\w+) \{R : Type\}((?: \[\w+ R\])*)((?: \([^()]*\))*) : ([^()]*?) :=$")
_BINDER_RE = re.compile(r"\((\w+) : ([^()]*)\)")
_ROW_RE = re.compile(r'^  \("(\w+)", fun a => ')


def _fins(t):
    """'Fin 3 → Fin 3 → R' -> (3, 3); None if the type has another form"""
    parts = [x.strip() for x in t.split("→")]
    if not parts or parts[-1] != "R":
        return None
    out = []
    for x in parts[:-1]:
        m = re.fullmatch(r"Fin (\d+)", x)
        if not m:
            return None
        out.append(int(m.group(1)))
    return tuple(out)


def header_line(name, ops, binders_text, ret):
    cls = " ".join(f"[{CLASS_OF[o]} R]" for o in OPS_ORDER if o in ops)
    return f"def {name} {{R : Type}} {cls} {binders_text} : {ret} :=".replace("  ", " ")


def parse_generated(text):
    """definitions and table rows of a previously generated file:
    {name: dict(doc, ops, binders_text, bshapes, ret, lshape, body [lines], row)}; only blocks of exactly
    the generated form are recognised (anything else is simply not available for keeping)"""
    lines = text.splitlines()
    blocks, rows = {}, {}
    for i, line in enumerate(lines):
        m = _HEADER_RE.match(line)
        if m and m.group(1) != "helperTable":
            name, cls, bs, ret = m.group(1), m.group(2), m.group(3).strip(), m.group(4).strip()
            body = []
            j = i + 1
            while j < len(lines) and lines[j].strip() != "":
                body.append(lines[j])
                j += 1
            classes = re.findall(r"\[(\w+) R\]", cls)
            bshapes = [_fins(b[1]) for b in _BINDER_RE.findall(bs)]
            lshape = _fins(ret)
            if (not body or any(c not in OP_OF_CLASS for c in classes) or lshape is None
                    or any(b is None for b in bshapes) or any(not l.startswith("  ") for l in body)):
                continue
            doc = lines[i - 1] if i > 0 and lines[i - 1].startswith("/-- ") and lines[i - 1].endswith("-/") else None
            blocks[name] = {"doc": doc, "ops": {OP_OF_CLASS[c] for c in classes}, "binders_text": bs,
                            "bshapes": bshapes, "ret": ret, "lshape": lshape, "body": body}
            continue
        m = _ROW_RE.match(line)
        if m:
            r = line.rstrip()
            if r.endswith(","):
                r = r[:-1]
            elif r.endswith(")]"):
                r = r[:-1]
            rows[m.group(1)] = r
    return {n: dict(b, row=rows[n]) for n, b in blocks.items() if n in rows}


def previous_definitions():
    """[(source, {name: block})]: the file on disk first, then the committed version (git HEAD)"""
    out = []
    try:
        if GEN_FILE.exists():
            out.append(("existing Gen/HelperFormulas.lean", parse_generated(GEN_FILE.read_text())))
    except Exception:
        pass
    try:
        p = subprocess.run(["git", "show", "HEAD:./SkfemVerif/Gen/HelperFormulas.lean"], cwd=LEAN, text=True,
                           stdout=subprocess.PIPE, stderr=subprocess.DEVNULL, timeout=60)
        if p.returncode == 0 and p.stdout:
            out.append(("Gen/HelperFormulas.lean at git HEAD", parse_generated(p.stdout)))
    except Exception:
        pass
    return out


def spec_shapes(specs):
    """binder shapes a job's argument specs give rise to (same order as build_args)"""
    out = []
    for sp in specs:
        if sp[0] == "T":
            out.append(tuple(sp[2]))
        elif sp[0] == "F":
            out += [tuple(shp) for shp in sp[2].values()]
    return out


def settle_kept(results, failures, previous):
    """Decide which failed helpers are kept from a previous translation.
    Returns (kept, failures'): kept[name] = dict(msg, source, variant, fname, specs, lshape, deps, ops, + the
    parsed block); failures' = the failures that remain (no usable previous definition)."""
    jobs = {j[0]: j for j in job_list()}
    msgs = {}
    for n, msg in failures:
        msgs.setdefault(n, msg)          # first message = the cause
    kept, why_not = {}, {}
    for n, msg in msgs.items():
        if n not in jobs or n in results:
            continue
        want = spec_shapes(jobs[n][3])
        for source, blocks in previous:
            b = blocks.get(n)
            if b is None:
                continue
            if b["bshapes"] != want:
                why_not[n] = f"the previous definition ({source}) has other argument shapes than the job"
                continue
            toks = set(re.findall(r"[A-Za-z_][\w']*", " ".join(b["body"])))
            deps = sorted((toks & set(jobs)) - {n})
            kept[n] = dict(b, msg=" ".join(str(msg).split()), source=source, variant=jobs[n][1], fname=jobs[n][2],
                           specs=jobs[n][3], deps=deps, ops=set(b["ops"]))
            why_not.pop(n, None)
            break
    # a kept definition is usable only if everything it calls is defined (fresh or kept)
    changed = True
    while changed:
        changed = False
        for n in list(kept):
            gone = [d for d in kept[n]["deps"] if d not in results and d not in kept]
            if gone:
                why_not[n] = f"the previous definition calls {gone[0]}, which is not available"
                del kept[n]
                changed = True
    # type classes through calls, in both directions between fresh and kept definitions
    allr = dict(results)
    allr.update(kept)
    changed = True
    while changed:
        changed = False
        for n, r in allr.items():
            for d in r["deps"]:
                if not allr[d]["ops"] <= r["ops"]:
                    r["ops"] |= allr[d]["ops"]
                    changed = True
    rest = []
    for n, msg in failures:
        if n in kept:
            continue
        if n in why_not:
            msg = f"{msg}; not kept: {why_not[n]}"
        rest.append((n, msg))
    return kept, rest


def lean_text(results, failures, kept=None):
    kept = kept or {}
    L = ["import SkfemVerif.Model.Helpers", "/-",
         "GENERATED by harness/skv/gens/helpers.py from the live source of skfem/helpers.py (np_*) and",
         "skfem/autodiff/helpers.py (jax_*) -- do not edit.  One term per helper and size; tensors are",
         "functions of their leading indices at one trailing position.",
         "-/", "namespace Skv.Gen.Helpers", "open Skv", ""]
    allr = dict(results)
    allr.update(kept)
    order = []
    done = set()

    def visit(n):
        if n in done:
            return
        done.add(n)
        for d in allr[n]["deps"]:
            visit(d)
        order.append(n)
    # job order (= the order of `results`), dependencies first
    rank = {j[0]: k for k, j in enumerate(job_list())}
    for n in sorted(allr, key=lambda x: rank.get(x, len(rank))):
        visit(n)
    rows = []
    for n in order:
        r = allr[n]
        if n in kept:
            L.append(KEPT_MARK + r["msg"] + ")")
            if r["doc"]:
                L.append(r["doc"])
            L.append(header_line(n, r["ops"], r["binders_text"], r["ret"]))
            L += r["body"]
            L.append("")
            rows.append(r["row"])
            continue
        bs = " ".join(f"({nm} : {ty(shp)})" for nm, shp in r["binders"])
        val = r["value"]
        L.append(f"/-- `{r['variant']}`: `{r['fname']}` on " +
                 ", ".join(f"{nm}{list(shp)}" for nm, shp in r["binders"]) + " -/")
        L.append(header_line(n, r["ops"], bs, ty(val.lshape)))
        L.append("  " + (r.get("text") or render_tensor(val)))
        L.append("")
        args = []
        for k, (nm, shp) in enumerate(r["binders"]):
            src = f"(a.getD {k} [])"
            if len(shp) == 0:
                args.append(f"(tens0 {src})")
            else:
                args.append(f"(tens{len(shp)} " + " ".join(str(d) for d in shp) + f" {src})")
        rk = len(val.lshape)
        rows.append(f"  (\"{n}\", fun a => flat{rk} ({n} " + " ".join(args) + "))")
    for n, msg in failures:
        L.append(f"-- NOT TRANSLATED {n}: {msg}")
    # driver table
    L.append("")
    L.append("/-- evaluation over `Rat` for the correspondence `gen-selfcheck`: arguments and result")
    L.append("    flattened in C order -/")
    L.append("def helperTable : List (String × (List (List Rat) → List Rat)) := [")
    L.append(",\n".join(rows) + "]")
    L.append("")
    L.append("end Skv.Gen.Helpers")
    return "\n".join(L) + "\n"


_CACHE = None


def generate():
    """regenerate Gen/HelperFormulas.lean; returns (changed?, results, failures).

    `results`: the helpers translated NOW; `failures`: [(name, msg)] without any definition in the file (broken
    tie).  Helpers the translator is not applicable to but whose definition was kept from the last successful
    translation are exposed as `generate.kept = [(name, msg)]` and `generate.kept_info[name] = dict(variant,
    fname, specs, lshape, msg, source, deps)`; they are in neither `results` nor `failures`."""
    global _CACHE
    generate.kept, generate.kept_info = [], {}
    results, failures = translate()
    # render first: a result that cannot be rendered is a failure of that helper, not of the run
    changed = True
    while changed:
        changed = False
        for n, r in list(results.items()):
            gone = [d for d in r["deps"] if d not in results]
            try:
                if gone:
                    raise TranslatorError(f"calls {gone[0]}, which could not be translated")
                if "text" not in r:
                    r["text"] = render_tensor(r["value"])
            except TranslatorError as ex:
                failures.append((n, str(ex)))
                del results[n]
                changed = True
    kept, failures = settle_kept(results, failures, previous_definitions())
    text = lean_text(results, failures, kept)
    changed = write_if_changed(GEN_FILE, text)
    _CACHE = (results, failures)
    order = {j[0]: k for k, j in enumerate(job_list())}
    names = sorted(kept, key=lambda n: order[n])
    generate.kept = [(n, kept[n]["msg"]) for n in names]
    generate.kept_info = {n: {k: kept[n][k] for k in ("variant", "fname", "specs", "lshape", "msg", "source", "deps")}
                          for n in names}
    return changed, results, failures


generate.kept = []
generate.kept_info = {}
