"""Translators producing lean/SkfemVerif/Gen/*.lean.  ALL = [(name, function returning changed?)]."""
ALL = []
