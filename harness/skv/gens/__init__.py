"""Translators producing lean/SkfemVerif/Gen/*.lean.  ALL = [(name, function returning changed?)]."""


def _quad():
    from . import quad
    return quad.generate()


def _shapes():
    from . import shapes
    return shapes.generate()


def _helpers():
    from . import helpers
    return helpers.generate()[0]          # generate() returns (changed, results, failures)


def _affine():
    from . import affine
    return affine.generate()


def _cache():
    from . import cache
    return cache.generate()[0]


ALL = [("QuadTables", _quad), ("Shapes", _shapes), ("HelperFormulas", _helpers), ("AffineFormulas", _affine),
       ("CacheKeys", _cache)]
