"""Translators producing lean/SkfemVerif/Gen/*.lean.  ALL = [(name, function returning changed?)]."""


def _quad():
    from . import quad
    return quad.generate()


ALL = [("QuadTables", _quad)]
