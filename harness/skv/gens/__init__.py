"""Translators producing lean/SkfemVerif/Gen/*.lean.  ALL = [(name, function returning changed?)]."""


def _quad():
    from . import quad
    return quad.generate()


def _shapes():
    from . import shapes
    return shapes.generate()


ALL = [("QuadTables", _quad), ("Shapes", _shapes)]
