"""T3 (closed-form blocks of the reference maps): regenerate lean/SkfemVerif/Gen/AffineFormulas.lean
from the LIVE source of

  skfem/mapping/mapping_affine.py        _init_Ab, _init_invA, _init_boundary_mapping, normals
  skfem/mapping/mapping_isoparametric.py detDF, invDF, detDG, normals, Fmap/_J/bndmap/bndJ (output sizing)
  skfem/generic_utils.py                 hash_args (which attributes of an array enter the cache key)
  skfem/element/...                      lbasis of the first-order mapping elements (LineP1, TriP1, TetP1,
                                         Quad1, Hex1, Wedge1) and of the second-order simplex ones (LineP2,
                                         TriP2, TetP2)
  skfem/refdom.py                        p, facets, normals of every reference cell (introspection)

with a RESTRICTED AST translator: numeric literals, names, constant subscripts, + - * /, `** 2`, unary
minus, `np.array([...])` literals, `if dim == k` dispatch.  Everything else raises `TranslatorError`
(= broken tie, reported by the check).  Scaffolding statements (allocation, shape bookkeeping) are only
accepted when they are structurally identical to a whitelisted statement.

The output are Lean *terms* over any type with + - * / (executable on `Rat`, provable over a field).
"""
from __future__ import annotations

import ast
import inspect
import textwrap
from fractions import Fraction

from ..core import LEAN, write_if_changed

OUT = LEAN / "SkfemVerif" / "Gen" / "AffineFormulas.lean"


class TranslatorError(Exception):
    pass


def _src_fn(obj):
    src = textwrap.dedent(inspect.getsource(obj))
    node = ast.parse(src).body[0]
    if not isinstance(node, ast.FunctionDef):
        raise TranslatorError(f"{obj!r}: not a function definition")
    return node


def _dump(node):
    return ast.dump(node, annotate_fields=False, include_attributes=False)


def _same(node, snippet):
    """structural equality of a statement with a whitelisted source snippet"""
    want = ast.parse(textwrap.dedent(snippet)).body
    if len(want) != 1:
        raise ValueError(snippet)
    return _dump(node) == _dump(want[0])


def _is_doc(st):
    return isinstance(st, ast.Expr) and isinstance(st.value, ast.Constant) and isinstance(st.value.value, str)


def _const_int(node):
    if isinstance(node, ast.Constant) and isinstance(node.value, int) and not isinstance(node.value, bool):
        return node.value
    if isinstance(node, ast.UnaryOp) and isinstance(node.op, ast.USub):
        v = _const_int(node.operand)
        return None if v is None else -v
    return None


def _attr_chain(node):
    """self.mesh.p -> ['self', 'mesh', 'p']"""
    out = []
    while isinstance(node, ast.Attribute):
        out.append(node.attr)
        node = node.value
    if isinstance(node, ast.Name):
        out.append(node.id)
        return out[::-1]
    return None


def num_lean(v):
    """an exact numeric literal as a Lean term of type K (K has 0, 1, +, *, /)"""
    f = Fraction(v)     # exact value of the double / int in the source
    if f.denominator & (f.denominator - 1):
        raise TranslatorError(f"non-dyadic literal {v!r}")
    if f < 0:
        raise TranslatorError(f"negative literal {v!r}")

    def nat(n):
        if n == 0:
            return "0"
        if n == 1:
            return "1"
        if n > 64:
            raise TranslatorError(f"literal {n} too large")
        return f"(nat {n})"
    if f.denominator == 1:
        return nat(f.numerator)
    return f"({nat(f.numerator)} / {nat(f.denominator)})"


class Expr:
    """restricted expression translator; `leaf(node)` returns a Lean string for an admissible leaf
    (subscript / attribute / call / name) or None"""

    def __init__(self, leaf, what):
        self.leaf = leaf
        self.what = what

    def __call__(self, n):
        r = self.leaf(n)
        if r is not None:
            return r
        if isinstance(n, ast.BinOp):
            if isinstance(n.op, ast.Pow):
                if _const_int(n.right) == 2:
                    a = self(n.left)
                    return f"({a} * {a})"
                raise TranslatorError(f"{self.what}: power other than ** 2: {ast.unparse(n)}")
            op = {ast.Add: "+", ast.Sub: "-", ast.Mult: "*", ast.Div: "/"}.get(type(n.op))
            if op is None:
                raise TranslatorError(f"{self.what}: operator {type(n.op).__name__} in {ast.unparse(n)}")
            return f"({self(n.left)} {op} {self(n.right)})"
        if isinstance(n, ast.UnaryOp):
            if isinstance(n.op, ast.USub):
                return f"(-{self(n.operand)})"
            if isinstance(n.op, ast.UAdd):
                return self(n.operand)
            raise TranslatorError(f"{self.what}: unary {type(n.op).__name__}")
        if isinstance(n, ast.Constant) and isinstance(n.value, (int, float)) and not isinstance(n.value, bool):
            return num_lean(n.value)
        raise TranslatorError(f"{self.what}: cannot translate {ast.unparse(n)!r} ({type(n).__name__})")


def dim_dispatch(stmts, what, dimnames=("dim", "self.dim")):
    """split a statement list into (plain statements, [ {k: body} per if/elif chain on the dimension ])"""
    plain, chains = [], []
    for st in stmts:
        if isinstance(st, ast.If) and _is_dim_test(st.test, dimnames) is not None:
            chain = {}
            cur = st
            while True:
                k = _is_dim_test(cur.test, dimnames)
                if k is None:
                    raise TranslatorError(f"{what}: mixed test in a dimension dispatch: {ast.unparse(cur.test)}")
                if k in chain:
                    raise TranslatorError(f"{what}: dimension {k} handled twice")
                chain[k] = cur.body
                if len(cur.orelse) == 1 and isinstance(cur.orelse[0], ast.If):
                    cur = cur.orelse[0]
                    continue
                # final else: must only raise
                for s in cur.orelse:
                    if not isinstance(s, ast.Raise):
                        raise TranslatorError(f"{what}: the fall-through of the dimension dispatch does not raise")
                break
            chains.append(chain)
        else:
            plain.append(st)
    return plain, chains


def _is_dim_test(test, dimnames):
    if isinstance(test, ast.Compare) and len(test.ops) == 1 and isinstance(test.ops[0], ast.Eq):
        k = _const_int(test.comparators[0])
        lhs = test.left
        name = lhs.id if isinstance(lhs, ast.Name) else ".".join(_attr_chain(lhs) or ["?"])
        if k is not None and name in dimnames:
            return k
    return None


def _const_index(sub, n):
    """constant index tuple of a subscript `x[a, b]` (n entries) or None"""
    sl = sub.slice
    elts = sl.elts if isinstance(sl, ast.Tuple) else [sl]
    if len(elts) != n:
        return None
    out = [_const_int(e) for e in elts]
    return None if any(v is None for v in out) else tuple(out)


# ---------------------------------------------------------------------------------------------
# MappingAffine

def tr_init_invA():
    from skfem.mapping import MappingAffine
    fn = _src_fn(MappingAffine._init_invA)
    what = "MappingAffine._init_invA"

    def leaf(n):
        if isinstance(n, ast.Subscript) and _attr_chain(n.value) == ["self", "A"]:
            ix = _const_index(n, 2)
            if ix is None:
                raise TranslatorError(f"{what}: non-constant index {ast.unparse(n)}")
            return f"A {ix[0]} {ix[1]}"
        if _attr_chain(n) == ["self", "detA"]:
            return "detA"
        return None
    E = Expr(leaf, what)
    body = [s for s in fn.body if not _is_doc(s)]
    if len(body) != 1 or not _same(ast.If(test=body[0].test, body=[ast.Pass()], orelse=[]),
                                   "if self.mesh.t.shape[0] > 0:\n    pass"):
        raise TranslatorError(f"{what}: unexpected outer structure")
    plain, chains = dim_dispatch(body[0].body, what)
    allowed = ["nt = self.mesh.t.shape[1] if self.tind is None else len(self.tind)", "dim = self.dim",
               "self._invA = np.empty((dim, dim, nt))"]
    for st in plain:
        if not any(_same(st, a) for a in allowed):
            raise TranslatorError(f"{what}: unexpected statement {ast.unparse(st)!r}")
    if len(chains) != 2:
        raise TranslatorError(f"{what}: expected two dimension dispatches, found {len(chains)}")
    det, inv = {}, {}
    for k, stmts in chains[0].items():
        if len(stmts) != 1 or not isinstance(stmts[0], ast.Assign) or \
                _attr_chain(stmts[0].targets[0]) != ["self", "_detA"]:
            raise TranslatorError(f"{what}: determinant branch dim={k} is not a single assignment to self._detA")
        det[k] = E(stmts[0].value)
    for k, stmts in chains[1].items():
        ent = {}
        for st in stmts:
            if not (isinstance(st, ast.Assign) and isinstance(st.targets[0], ast.Subscript)
                    and _attr_chain(st.targets[0].value) == ["self", "_invA"]):
                raise TranslatorError(f"{what}: inverse branch dim={k}: unexpected {ast.unparse(st)!r}")
            ix = _const_index(st.targets[0], 2)
            if ix is None or ix in ent:
                raise TranslatorError(f"{what}: inverse branch dim={k}: bad target {ast.unparse(st.targets[0])}")
            ent[ix] = E(st.value)
        if sorted(ent) != [(i, j) for i in range(k) for j in range(k)]:
            raise TranslatorError(f"{what}: inverse branch dim={k} does not assign every entry once")
        inv[k] = ent
    if sorted(det) != [1, 2, 3] or sorted(inv) != [1, 2, 3]:
        raise TranslatorError(f"{what}: dimensions handled: det {sorted(det)}, inv {sorted(inv)}")
    return det, inv


def _vertex_leaf(what, ptab, ttab, extra_index=None, env=("i", "j")):
    """`self.mesh.p[i, self.mesh.t[IDX]]` / `self.mesh.p[i, self.mesh.t[IDX, self.tind]]` -> `v (IDX) i`
    (coordinate i of local vertex IDX of the current cell / facet)"""
    def idx(n):
        c = _const_int(n)
        if c is not None and c >= 0:
            return str(c)
        if isinstance(n, ast.Name) and n.id in env:
            return n.id
        if isinstance(n, ast.BinOp) and isinstance(n.op, ast.Add):
            return f"({idx(n.left)} + {idx(n.right)})"
        raise TranslatorError(f"{what}: index expression {ast.unparse(n)!r}")

    def leaf(n):
        if isinstance(n, ast.Subscript) and _attr_chain(n.value) == ptab:
            sl = n.slice
            if not (isinstance(sl, ast.Tuple) and len(sl.elts) == 2):
                raise TranslatorError(f"{what}: {ast.unparse(n)}")
            coord, vert = sl.elts
            if not (isinstance(vert, ast.Subscript) and _attr_chain(vert.value) == ttab):
                raise TranslatorError(f"{what}: vertex index {ast.unparse(vert)}")
            vs = vert.slice
            if isinstance(vs, ast.Tuple):
                if extra_index is None or len(vs.elts) != 2 or _attr_chain(vs.elts[1]) != extra_index:
                    raise TranslatorError(f"{what}: vertex index {ast.unparse(vert)}")
                vs = vs.elts[0]
            return f"v {idx(vs)} {idx(coord)}"
        return None
    return leaf


def _loops_Ab(stmts, what, E, bname, Aname, jrange):
    """for i in range(dim): <b>[i] = e1; for j in range(<jrange>): <A>[i, j] = e2  ->  (e1, e2)"""
    if len(stmts) != 1 or not isinstance(stmts[0], ast.For):
        raise TranslatorError(f"{what}: expected a single loop over i")
    fi = stmts[0]
    if not (isinstance(fi.target, ast.Name) and fi.target.id == "i" and ast.unparse(fi.iter) == "range(dim)"
            and not fi.orelse and len(fi.body) == 2):
        raise TranslatorError(f"{what}: outer loop is not `for i in range(dim)` with two statements")
    sb, fj = fi.body
    if not (isinstance(sb, ast.Assign) and isinstance(sb.targets[0], ast.Subscript)
            and _attr_chain(sb.targets[0].value) == ["self", bname] and ast.unparse(sb.targets[0].slice) == "i"):
        raise TranslatorError(f"{what}: first statement is not self.{bname}[i] = ...")
    if not (isinstance(fj, ast.For) and isinstance(fj.target, ast.Name) and fj.target.id == "j"
            and ast.unparse(fj.iter) == jrange and not fj.orelse and len(fj.body) == 1):
        raise TranslatorError(f"{what}: inner loop is not `for j in {jrange}` with one statement")
    sa = fj.body[0]
    if not (isinstance(sa, ast.Assign) and isinstance(sa.targets[0], ast.Subscript)
            and _attr_chain(sa.targets[0].value) == ["self", Aname]
            and ast.unparse(sa.targets[0].slice) in ("(i, j)", "i, j")):
        raise TranslatorError(f"{what}: inner statement is not self.{Aname}[i, j] = ...")
    return E(sb.value), E(sa.value)


def tr_init_Ab():
    from skfem.mapping import MappingAffine
    fn = _src_fn(MappingAffine._init_Ab)
    what = "MappingAffine._init_Ab"
    E = Expr(_vertex_leaf(what, ["self", "mesh", "p"], ["self", "mesh", "t"], ["self", "tind"]), what)
    body = [s for s in fn.body if not _is_doc(s)]
    if len(body) != 1 or not _same(ast.If(test=body[0].test, body=[ast.Pass()], orelse=[]),
                                   "if self.mesh.t.shape[0] > 0:\n    pass"):
        raise TranslatorError(f"{what}: unexpected outer structure")
    allowed = ["nt = self.mesh.t.shape[1] if self.tind is None else len(self.tind)", "dim = self.dim",
               "self._A = np.empty((dim, dim, nt))", "self._b = np.empty((dim, nt))"]
    branch = None
    for st in body[0].body:
        if isinstance(st, ast.If) and ast.unparse(st.test) == "self.tind is None":
            if branch is not None:
                raise TranslatorError(f"{what}: two branches on tind")
            branch = st
        elif not any(_same(st, a) for a in allowed):
            raise TranslatorError(f"{what}: unexpected statement {ast.unparse(st)!r}")
    if branch is None:
        raise TranslatorError(f"{what}: no branch on self.tind")
    allc = _loops_Ab(branch.body, what + " (all cells)", E, "_b", "_A", "range(dim)")
    subc = _loops_Ab(branch.orelse, what + " (cell subset)", E, "_b", "_A", "range(dim)")
    return allc, subc


def tr_init_boundary():
    from skfem.mapping import MappingAffine
    fn = _src_fn(MappingAffine._init_boundary_mapping)
    what = "MappingAffine._init_boundary_mapping"
    E = Expr(_vertex_leaf(what, ["self", "mesh", "p"], ["self", "mesh", "facets"]), what)

    def bleaf(n):
        if isinstance(n, ast.Subscript) and _attr_chain(n.value) == ["self", "_B"]:
            ix = _const_index(n, 2)
            if ix is None:
                raise TranslatorError(f"{what}: non-constant index {ast.unparse(n)}")
            return f"B {ix[0]} {ix[1]}"
        return None
    EB = Expr(bleaf, what)
    body = [s for s in fn.body if not _is_doc(s)]
    plain, chains = dim_dispatch(body, what)
    allowed = ["dim = self.dim", "nf = self.mesh.facets.shape[1]", "self._B = np.empty((dim, dim - 1, nf))",
               "self._c = np.empty((dim, nf))"]
    loops = []
    for st in plain:
        if isinstance(st, ast.For):
            loops.append(st)
        elif not any(_same(st, a) for a in allowed):
            raise TranslatorError(f"{what}: unexpected statement {ast.unparse(st)!r}")
    cexpr, bexpr = _loops_Ab(loops, what, E, "_c", "_B", "range(dim - 1)")
    if len(chains) != 1:
        raise TranslatorError(f"{what}: expected one dimension dispatch")
    surf = {}
    for k, stmts in chains[0].items():
        if len(stmts) != 1 or not isinstance(stmts[0], ast.Assign) or \
                _attr_chain(stmts[0].targets[0]) != ["self", "_detB"]:
            raise TranslatorError(f"{what}: dim={k}: not a single assignment to self._detB")
        val = stmts[0].value
        if _same(stmts[0], "self._detB = np.ones(nf)"):
            surf[k] = "1"
        elif isinstance(val, ast.Call) and ast.unparse(val.func) == "np.sqrt" and len(val.args) == 1 \
                and not val.keywords:
            surf[k] = EB(val.args[0])
        else:
            raise TranslatorError(f"{what}: dim={k}: surface factor is neither ones nor a square root")
    if sorted(surf) != [1, 2, 3]:
        raise TranslatorError(f"{what}: dimensions handled {sorted(surf)}")
    return cexpr, bexpr, surf


NORMAL_FILL = """
for itr in range(Nref.shape[0]):
    ix = np.nonzero(t2f[itr, tind] == find)[0].astype(np.int32)
    for jtr in range(Nref.shape[1]):
        N[jtr, ix] = Nref[itr, jtr]
"""


def _einsum_transposed(call, what):
    """np.einsum('<ab..>,<c.>-><o..>', invDF, N): True if the contraction runs over the FIRST index of
    invDF (i.e. applies the transpose), False if over the second"""
    if not (isinstance(call, ast.Call) and ast.unparse(call.func) == "np.einsum" and len(call.args) == 3
            and isinstance(call.args[0], ast.Constant) and isinstance(call.args[0].value, str)
            and ast.unparse(call.args[1]) == "invDF" and ast.unparse(call.args[2]) == "N"):
        raise TranslatorError(f"{what}: raw normal is not np.einsum(<str>, invDF, N)")
    s = call.args[0].value.replace(" ", "")
    try:
        ins, out = s.split("->")
        a, b = ins.split(",")
    except ValueError:
        raise TranslatorError(f"{what}: einsum string {s!r}")
    if not (len(a) == 4 and len(b) == 2 and len(out) == 3 and len(set(a)) == 4 and len(set(b)) == 2
            and a[2] == b[1] == out[1] and a[3] == out[2] and b[0] in a[:2] and out[0] in a[:2]
            and b[0] != out[0]):
        raise TranslatorError(f"{what}: einsum string {s!r} is not a (transposed) matrix-vector product per "
                              "cell and point")
    return a[0] == b[0]


def _normals_tail(stmts, what):
    """N = np.empty(...); fill loop; n = einsum; nlength; return  ->  transposed?"""
    want = [("N = np.empty((self.dim, len(find)))", None), (NORMAL_FILL, None), (None, "einsum"),
            ("nlength = np.sqrt(np.sum(n ** 2, axis=0))", None),
            ("return np.einsum('ijk,jk->ijk', n, 1. / nlength)", None)]
    if len(stmts) != len(want):
        raise TranslatorError(f"{what}: unexpected number of statements after the reference normals")
    tr = None
    for st, (snip, special) in zip(stmts, want):
        if special == "einsum":
            if not (isinstance(st, ast.Assign) and ast.unparse(st.targets[0]) == "n"):
                raise TranslatorError(f"{what}: expected `n = np.einsum(...)`")
            tr = _einsum_transposed(st.value, what)
        elif not _same(st, snip):
            raise TranslatorError(f"{what}: statement {ast.unparse(st)!r} differs from the expected "
                                  f"{snip.strip()!r}")
    return tr


def _int_table(node, what):
    """np.array([[..],[..]]) literal with integral entries -> list of lists of int"""
    if not (isinstance(node, ast.Call) and ast.unparse(node.func) == "np.array" and len(node.args) == 1
            and not node.keywords and isinstance(node.args[0], ast.List)):
        raise TranslatorError(f"{what}: not an np.array literal")
    rows = []
    for r in node.args[0].elts:
        if not isinstance(r, ast.List):
            raise TranslatorError(f"{what}: ragged literal")
        row = []
        for e in r.elts:
            neg = False
            if isinstance(e, ast.UnaryOp) and isinstance(e.op, ast.USub):
                neg, e = True, e.operand
            if not (isinstance(e, ast.Constant) and isinstance(e.value, (int, float))
                    and float(e.value) == int(e.value)):
                raise TranslatorError(f"{what}: non-integral entry {ast.unparse(e)}")
            row.append(-int(e.value) if neg else int(e.value))
        rows.append(row)
    return rows


def tr_affine_normals():
    from skfem.mapping import MappingAffine
    fn = _src_fn(MappingAffine.normals)
    what = "MappingAffine.normals"
    body = [s for s in fn.body if not _is_doc(s)]
    plain, chains = dim_dispatch(body, what)
    if len(chains) != 1:
        raise TranslatorError(f"{what}: expected one dimension dispatch")
    tabs = {}
    for k, stmts in chains[0].items():
        if len(stmts) != 1 or not isinstance(stmts[0], ast.Assign) or ast.unparse(stmts[0].targets[0]) != "Nref":
            raise TranslatorError(f"{what}: dim={k}: not a single assignment to Nref")
        tabs[k] = _int_table(stmts[0].value, what)
        if any(len(r) != k for r in tabs[k]) or len(tabs[k]) != k + 1:
            raise TranslatorError(f"{what}: dim={k}: table shape")
    if sorted(tabs) != [1, 2, 3]:
        raise TranslatorError(f"{what}: dimensions handled {sorted(tabs)}")
    if not plain or not _same(plain[0], "invDF = self.invDF(X, tind)"):
        raise TranslatorError(f"{what}: expected invDF = self.invDF(X, tind)")
    return tabs, _normals_tail(plain[1:], what)


def tr_affine_maps():
    """F / invF / G: einsum strings and the order of `+ b` / `- b` (structural whitelist)"""
    from skfem.mapping import MappingAffine
    checks = {
        "F": ["return (np.einsum('ijk,jl', A, X).T + b.T).T", "return (np.einsum('ijk,jkl->ikl', A, X).T + b.T).T"],
        "G": ["return (np.einsum('ijk,jl', B, X).T + c.T).T", "return (np.einsum('ijk,jkl->ikl', B, X).T + c.T).T"],
        "invF": ["y = (x.T - b.T).T", "return np.einsum('ijk,jkl->ikl', invA, y)"],
    }
    for name, snippets in checks.items():
        fn = _src_fn(getattr(MappingAffine, name))
        found = [False] * len(snippets)
        for node in ast.walk(fn):
            if isinstance(node, (ast.Return, ast.Assign)):
                for q, s in enumerate(snippets):
                    if _same(node, s):
                        found[q] = True
        if not all(found):
            raise TranslatorError(f"MappingAffine.{name}: the matrix-vector statements "
                                  f"{[s for s, f in zip(snippets, found) if not f]} were not found")
    return True


# ---------------------------------------------------------------------------------------------
# MappingIsoparametric

def _J_leaf(what):
    def leaf(n):
        if isinstance(n, ast.Subscript) and isinstance(n.value, ast.Subscript) and \
                isinstance(n.value.value, ast.Name) and n.value.value.id == "J":
            a, b = _const_int(n.value.slice), _const_int(n.slice)
            if a is None or b is None:
                raise TranslatorError(f"{what}: non-constant index {ast.unparse(n)}")
            return f"J {a} {b}"
        return None
    return leaf


def tr_iso_detDF():
    from skfem.mapping import MappingIsoparametric
    fn = _src_fn(MappingIsoparametric.detDF)
    what = "MappingIsoparametric.detDF"
    E = Expr(_J_leaf(what), what)
    body = [s for s in fn.body if not _is_doc(s)]
    plain, chains = dim_dispatch(body, what)
    allowed = ["if J is None:\n    J = [[self.J(i, j, X, tind=tind) for j in range(self.dim)] for i in range(self.dim)]",
               "if np.sum(detDF == 0) > 0:\n    raise Exception('Zero Jacobian determinant')",
               "return detDF"]
    for st in plain:
        if not any(_same(st, a) for a in allowed):
            raise TranslatorError(f"{what}: unexpected statement {ast.unparse(st)!r}")
    if len(chains) != 1:
        raise TranslatorError(f"{what}: expected one dimension dispatch")
    det = {}
    for k, stmts in chains[0].items():
        if len(stmts) != 1 or not isinstance(stmts[0], ast.Assign) or ast.unparse(stmts[0].targets[0]) != "detDF":
            raise TranslatorError(f"{what}: dim={k}: not a single assignment to detDF")
        det[k] = E(stmts[0].value)
    if sorted(det) != [1, 2, 3]:
        raise TranslatorError(f"{what}: dimensions handled {sorted(det)}")
    return det


def tr_iso_invDF():
    from skfem.mapping import MappingIsoparametric
    fn = _src_fn(MappingIsoparametric.invDF)
    what = "MappingIsoparametric.invDF"
    jl = _J_leaf(what)

    def leaf(n):
        if isinstance(n, ast.Call) and ast.unparse(n) == "np.ones(J[0][0].shape)":
            return "1"
        return jl(n)
    E = Expr(leaf, what)
    body = [s for s in fn.body if not _is_doc(s)]
    plain, chains = dim_dispatch(body, what)
    allowed = ["J = [[self.J(i, j, X, tind=tind) for j in range(self.dim)] for i in range(self.dim)]",
               "detDF = self.detDF(X, tind, J=J)",
               "invDF = np.empty((self.dim, self.dim) + J[0][0].shape)",
               "return invDF / detDF"]
    seen_ret = False
    for st in plain:
        if not any(_same(st, a) for a in allowed):
            raise TranslatorError(f"{what}: unexpected statement {ast.unparse(st)!r}")
        seen_ret = seen_ret or _same(st, allowed[3])
    if not seen_ret:
        raise TranslatorError(f"{what}: no `return invDF / detDF`")
    if len(chains) != 1:
        raise TranslatorError(f"{what}: expected one dimension dispatch")
    adj = {}
    for k, stmts in chains[0].items():
        ent = {}
        for st in stmts:
            if not (isinstance(st, ast.Assign) and isinstance(st.targets[0], ast.Subscript)
                    and ast.unparse(st.targets[0].value) == "invDF"):
                raise TranslatorError(f"{what}: dim={k}: unexpected {ast.unparse(st)!r}")
            ix = _const_index(st.targets[0], 2)
            if ix is None or ix in ent:
                raise TranslatorError(f"{what}: dim={k}: bad target {ast.unparse(st.targets[0])}")
            ent[ix] = E(st.value)
        if sorted(ent) != [(i, j) for i in range(k) for j in range(k)]:
            raise TranslatorError(f"{what}: dim={k} does not assign every entry once")
        adj[k] = ent
    if sorted(adj) != [1, 2, 3]:
        raise TranslatorError(f"{what}: dimensions handled {sorted(adj)}")
    return adj


def tr_iso_detDG():
    from skfem.mapping import MappingIsoparametric
    fn = _src_fn(MappingIsoparametric.detDG)
    what = "MappingIsoparametric.detDG"

    def leaf(n):
        if isinstance(n, ast.Call) and _attr_chain(n.func) == ["self", "bndJ"]:
            if len(n.args) != 4 or n.keywords or ast.unparse(n.args[2]) != "X" or ast.unparse(n.args[3]) != "find":
                raise TranslatorError(f"{what}: {ast.unparse(n)}")
            a, b = _const_int(n.args[0]), _const_int(n.args[1])
            if a is None or b is None:
                raise TranslatorError(f"{what}: {ast.unparse(n)}")
            return f"B {a} {b}"
        return None
    E = Expr(leaf, what)
    body = [s for s in fn.body if not _is_doc(s)]
    plain, chains = dim_dispatch(body, what)
    if plain or len(chains) != 1:
        raise TranslatorError(f"{what}: expected exactly one dimension dispatch")
    surf = {}
    for k, stmts in chains[0].items():
        if len(stmts) != 1 or not isinstance(stmts[0], ast.Return):
            raise TranslatorError(f"{what}: dim={k}: not a single return")
        val = stmts[0].value
        if not (isinstance(val, ast.Call) and ast.unparse(val.func) == "np.sqrt" and len(val.args) == 1
                and not val.keywords):
            raise TranslatorError(f"{what}: dim={k}: not a square root")
        surf[k] = E(val.args[0])
    if sorted(surf) != [2, 3]:
        raise TranslatorError(f"{what}: dimensions handled {sorted(surf)}")
    return surf


def tr_iso_normals():
    from skfem.mapping import MappingIsoparametric
    fn = _src_fn(MappingIsoparametric.normals)
    what = "MappingIsoparametric.normals"
    body = [s for s in fn.body if not _is_doc(s)]
    if len(body) < 2 or not _same(body[0], "Nref = self.mesh.elem.refdom.normals") \
            or not _same(body[1], "invDF = self.invDF(X, tind)"):
        raise TranslatorError(f"{what}: reference normals are not refdom.normals / invDF = self.invDF(X, tind)")
    return _normals_tail(body[2:], what)


def tr_iso_point_axes():
    """which axis of X sizes the point dimension of the output of Fmap/_J/bndmap/bndJ
    (every `np.zeros((<rows>, X.shape[k]))`)"""
    from skfem.mapping import MappingIsoparametric
    out = []
    for name in ("Fmap", "_J", "bndmap", "bndJ"):
        fn = _src_fn(getattr(MappingIsoparametric, name))
        n = 0
        for node in ast.walk(fn):
            if isinstance(node, ast.Call) and ast.unparse(node.func) == "np.zeros":
                arg = node.args[0]
                if not (isinstance(arg, ast.Tuple) and len(arg.elts) == 2 and isinstance(arg.elts[1], ast.Subscript)
                        and ast.unparse(arg.elts[1].value) == "X.shape"):
                    raise TranslatorError(f"MappingIsoparametric.{name}: output allocation {ast.unparse(node)}")
                k = _const_int(arg.elts[1].slice)
                if k is None:
                    raise TranslatorError(f"MappingIsoparametric.{name}: output allocation {ast.unparse(node)}")
                out.append(k)
                n += 1
        if n != 2:
            raise TranslatorError(f"MappingIsoparametric.{name}: expected two output allocations, found {n}")
    return out


def tr_iso_accumulate():
    """Fmap / _J accumulate `p[i, t[itr, ...]][:, None] * phi` resp. `* dphi[j]` over all shape functions"""
    from skfem.mapping import MappingIsoparametric
    want = {
        "Fmap": ["out += p[i, t[itr, :]][:, None] * phi", "out += p[i, t[itr, tind]][:, None] * phi"],
        "_J": ["out += p[i, t[itr, :]][:, None] * dphi[j]", "out += p[i, t[itr, tind]][:, None] * dphi[j]"],
        "bndmap": ["out += p[i, facets[itr, :]][:, None] * phi", "out += p[i, facets[itr, find]][:, None] * phi"],
        "bndJ": ["out += p[i, facets[itr, :]][:, None] * dphi[j]",
                 "out += p[i, facets[itr, find]][:, None] * dphi[j]"],
    }
    for name, snippets in want.items():
        fn = _src_fn(getattr(MappingIsoparametric, name))
        aug = [n for n in ast.walk(fn) if isinstance(n, ast.AugAssign)]
        if len(aug) != 2 or not all(any(_same(a, s) for a in aug) for s in snippets):
            raise TranslatorError(f"MappingIsoparametric.{name}: accumulation statements differ from "
                                  f"{snippets}")
    return True


def tr_hash_args():
    """attributes / method results of an ndarray argument that enter the cache key"""
    from skfem import generic_utils
    fn = _src_fn(generic_utils.hash_args)
    what = "generic_utils.hash_args"
    rets = [s for s in fn.body if isinstance(s, ast.Return)]
    if len(rets) != 1:
        raise TranslatorError(f"{what}: expected a single return")
    r = rets[0].value
    if not (isinstance(r, ast.Call) and ast.unparse(r.func) == "tuple" and len(r.args) == 1
            and isinstance(r.args[0], ast.GeneratorExp)):
        raise TranslatorError(f"{what}: not tuple(<generator>)")
    g = r.args[0]
    elt = g.elt
    if not (isinstance(elt, ast.IfExp) and ast.unparse(elt.test) == "isinstance(arg, ndarray)"
            and ast.unparse(elt.orelse) == "hash(arg)"
            and isinstance(elt.body, ast.Call) and ast.unparse(elt.body.func) == "hash"
            and len(elt.body.args) == 1):
        raise TranslatorError(f"{what}: element is not `hash(<key>) if isinstance(arg, ndarray) else hash(arg)`")
    key = elt.body.args[0]
    parts = key.elts if isinstance(key, ast.Tuple) else [key]
    fields = []
    for p in parts:
        ch = None
        if isinstance(p, ast.Call) and not p.args and not p.keywords:
            ch = _attr_chain(p.func)
        elif isinstance(p, ast.Attribute):
            ch = _attr_chain(p)
        if not ch or ch[0] != "arg":
            raise TranslatorError(f"{what}: key component {ast.unparse(p)!r}")
        fields.append(ch[1])
    return fields


# ---------------------------------------------------------------------------------------------
# shape functions of the mapping elements

def tr_lbasis(cls, nvars):
    fn = _src_fn(cls.lbasis)
    what = f"{cls.__name__}.lbasis"
    names = ["x", "y", "z"][:nvars]
    body = [s for s in fn.body if not _is_doc(s)]
    if len(body) != 3:
        raise TranslatorError(f"{what}: expected unpacking, dispatch on i, return")
    unpack = ", ".join(names) + " = X" if nvars > 1 else "x = X[0]"
    if not _same(body[0], unpack):
        raise TranslatorError(f"{what}: first statement is not {unpack!r}")
    if not _same(body[2], "return phi, dphi"):
        raise TranslatorError(f"{what}: last statement is not `return phi, dphi`")

    def leaf(n):
        if isinstance(n, ast.Name) and n.id in names:
            return n.id
        return None
    E = Expr(leaf, what)
    phi, dphi = {}, {}
    cur = body[1]
    while True:
        if not (isinstance(cur, ast.If) and isinstance(cur.test, ast.Compare) and len(cur.test.ops) == 1
                and isinstance(cur.test.ops[0], ast.Eq) and ast.unparse(cur.test.left) == "i"):
            raise TranslatorError(f"{what}: dispatch is not on `i == k`")
        k = _const_int(cur.test.comparators[0])
        if k is None or k in phi or len(cur.body) != 2:
            raise TranslatorError(f"{what}: branch {ast.unparse(cur.test)}")
        s1, s2 = cur.body
        if not (isinstance(s1, ast.Assign) and ast.unparse(s1.targets[0]) == "phi"
                and isinstance(s2, ast.Assign) and ast.unparse(s2.targets[0]) == "dphi"):
            raise TranslatorError(f"{what}: branch {k} is not `phi = ...; dphi = ...`")
        phi[k] = E(s1.value)
        d = s2.value
        if not (isinstance(d, ast.Call) and ast.unparse(d.func) == "np.array" and len(d.args) == 1
                and isinstance(d.args[0], ast.List) and len(d.args[0].elts) == nvars):
            raise TranslatorError(f"{what}: dphi of branch {k} is not np.array([{nvars} entries])")
        dphi[k] = [E(e) for e in d.args[0].elts]
        if len(cur.orelse) == 1 and isinstance(cur.orelse[0], ast.If):
            cur = cur.orelse[0]
            continue
        if not (len(cur.orelse) == 1 and _same(cur.orelse[0], "self._index_error()")):
            raise TranslatorError(f"{what}: fall-through does not call _index_error")
        break
    if sorted(phi) != list(range(len(phi))):
        raise TranslatorError(f"{what}: indices {sorted(phi)}")
    return phi, dphi


# ---------------------------------------------------------------------------------------------
# reference cells (introspection)

def refdom_tables():
    import numpy as np
    from skfem import refdom as R
    out = {}
    for name, cls in (("Line", R.RefLine), ("Tri", R.RefTri), ("Tet", R.RefTet), ("Quad", R.RefQuad),
                      ("Hex", R.RefHex), ("Wedge", R.RefWedge)):
        p = np.asarray(cls.p)
        nrm = np.asarray(cls.normals)
        if not ((p == np.round(p)).all() and (nrm == np.round(nrm)).all()):
            raise TranslatorError(f"Ref{name}: non-integral vertex / normal table")
        if nrm.shape != (len(cls.facets), p.shape[0]):
            raise TranslatorError(f"Ref{name}: normals table has shape {nrm.shape}")
        out[name] = {"p": [[int(v) for v in p[:, k]] for k in range(p.shape[1])],      # vertex k -> coords
                     "normals": [[int(v) for v in r] for r in nrm],
                     "facets": [[int(v) for v in f] for f in cls.facets]}
    return out


# ---------------------------------------------------------------------------------------------
# emission

def _ilist(l):
    return "[" + ", ".join(str(v) for v in l) + "]"


def _itab(t):
    return "[" + ", ".join(_ilist(r) for r in t) + "]"


def _entries(ent, k, post=""):
    lines = []
    for i in range(k):
        for j in range(k):
            lines.append(f"    | {i}, {j} => {ent[(i, j)]}{post}")
    lines.append("    | _, _ => 0")
    return "\n".join(lines)


def collect():
    d = {}
    d["det"], d["inv"] = tr_init_invA()
    d["Ab_all"], d["Ab_sub"] = tr_init_Ab()
    d["c"], d["B"], d["surf"] = tr_init_boundary()
    d["affNref"], d["affTransposed"] = tr_affine_normals()
    tr_affine_maps()
    d["isoDet"] = tr_iso_detDF()
    d["isoAdj"] = tr_iso_invDF()
    d["isoSurf"] = tr_iso_detDG()
    d["isoTransposed"] = tr_iso_normals()
    d["pointAxes"] = tr_iso_point_axes()
    tr_iso_accumulate()
    d["hashFields"] = tr_hash_args()
    from skfem.element import (ElementLineP1, ElementTriP1, ElementTetP1, ElementQuad1, ElementHex1,
                               ElementLineP2, ElementTriP2, ElementTetP2, ElementWedge1)
    d["shape"] = {}
    for nm, cls, nv in (("lineP1", ElementLineP1, 1), ("triP1", ElementTriP1, 2), ("tetP1", ElementTetP1, 3),
                        ("quad1", ElementQuad1, 2), ("hex1", ElementHex1, 3),
                        ("lineP2", ElementLineP2, 1), ("triP2", ElementTriP2, 2), ("tetP2", ElementTetP2, 3),
                        ("wedge1", ElementWedge1, 3)):
        d["shape"][nm] = (tr_lbasis(cls, nv), nv)
    d["ref"] = refdom_tables()
    return d


def render(d):
    L = []
    A = L.append
    A("/-")
    A("GENERATED by harness/skv/gens/affine.py from the live scikit-fem source -- do not edit.")
    A("Closed-form blocks of skfem/mapping/mapping_affine.py, mapping_isoparametric.py, generic_utils.py,")
    A("the `lbasis` of the mapping elements and the tables of skfem/refdom.py, as terms over any `K`.")
    A("-/")
    A("set_option linter.unusedVariables false")
    A("namespace Skv.Gen.Map")
    A("section")
    A("variable {K : Type} [Add K] [Sub K] [Mul K] [Neg K] [Div K] [Zero K] [One K]")
    A("")
    A("/-- numeric literal `n` of the source as `1 + 1 + … + 1` -/")
    A("def nat : Nat → K")
    A("  | 0 => 0")
    A("  | 1 => 1")
    A("  | (n + 2) => nat (n + 1) + 1")
    A("")
    A("/-! ### `MappingAffine._init_Ab` (`v k i` = coordinate `i` of local vertex `k` of the cell) -/")
    for tag, (bexp, aexp) in (("", d["Ab_all"]), ("Sub", d["Ab_sub"])):
        A(f"def affA{tag} (v : Nat → Nat → K) : Nat → Nat → K := fun i j => {aexp}")
        A(f"def affb{tag} (v : Nat → Nat → K) : Nat → K := fun i => {bexp}")
    A("")
    A("/-! ### `MappingAffine._init_invA` -/")
    for k in (1, 2, 3):
        A(f"def affDet{k} (A : Nat → Nat → K) : K := {d['det'][k]}")
    for k in (1, 2, 3):
        A(f"def affInv{k} (A : Nat → Nat → K) : Nat → Nat → K := fun i j =>")
        A(f"  let detA : K := affDet{k} A")
        A("  match i, j with")
        A(_entries(d["inv"][k], k))
    A("")
    A("/-! ### `MappingAffine._init_boundary_mapping` (`v k i` = coordinate `i` of vertex `k` of the facet);")
    A("`affSurfSq*` is the argument of the square root -/")
    A(f"def affB (v : Nat → Nat → K) : Nat → Nat → K := fun i j => {d['B']}")
    A(f"def affc (v : Nat → Nat → K) : Nat → K := fun i => {d['c']}")
    for k in (1, 2, 3):
        A(f"def affSurfSq{k} (B : Nat → Nat → K) : K := {d['surf'][k]}")
    A("")
    A("/-! ### `MappingAffine.normals`: tabulated reference normals; does the contraction with `invDF` run over")
    A("its first index (= transpose applied)? -/")
    for k in (1, 2, 3):
        A(f"def affNref{k} : List (List Int) := {_itab(d['affNref'][k])}")
    A(f"def affNormalTransposed : Bool := {'true' if d['affTransposed'] else 'false'}")
    A(f"def isoNormalTransposed : Bool := {'true' if d['isoTransposed'] else 'false'}")
    A("")
    A("/-! ### `MappingIsoparametric.detDF / invDF / detDG` -/")
    for k in (1, 2, 3):
        A(f"def isoDet{k} (J : Nat → Nat → K) : K := {d['isoDet'][k]}")
    for k in (1, 2, 3):
        A(f"def isoInv{k} (J : Nat → Nat → K) : Nat → Nat → K := fun i j =>")
        A(f"  let detDF : K := isoDet{k} J")
        A("  match i, j with")
        A(_entries(d["isoAdj"][k], k, post=" / detDF"))
    for k in (2, 3):
        A(f"def isoSurfSq{k} (B : Nat → Nat → K) : K := {d['isoSurf'][k]}")
    A("")
    A("/-! ### shape functions of the mapping elements (`lbasis`) -/")
    for nm, ((phi, dphi), nv) in d["shape"].items():
        names = ["x", "y", "z"][:nv]
        lets = "".join(f"  let {n} : K := X {q}\n" for q, n in enumerate(names))
        A(f"def {nm}N : Nat := {len(phi)}")
        A(f"def {nm}Phi (k : Nat) (X : Nat → K) : K :=")
        A(lets + "  match k with")
        for k in sorted(phi):
            A(f"    | {k} => {phi[k]}")
        A("    | _ => 0")
        A(f"def {nm}DPhi (k j : Nat) (X : Nat → K) : K :=")
        A(lets + "  match k, j with")
        for k in sorted(phi):
            for j in range(nv):
                A(f"    | {k}, {j} => {dphi[k][j]}")
        A("    | _, _ => 0")
    A("end")
    A("")
    A("/-! ### output sizing of `Fmap/_J/bndmap/bndJ` and cache key of `hash_args` -/")
    A(f"def isoPointAxes : List Int := {_ilist(d['pointAxes'])}")
    A("def hashKeyFields : List String := [" + ", ".join('"%s"' % f for f in d["hashFields"]) + "]")
    A("")
    A("/-! ### reference cells (skfem/refdom.py): vertices, local facets, tabulated normals -/")
    for name, t in d["ref"].items():
        A(f"def ref{name}P : List (List Int) := {_itab(t['p'])}")
        A(f"def ref{name}Facets : List (List Nat) := {_itab(t['facets'])}")
        A(f"def ref{name}Normals : List (List Int) := {_itab(t['normals'])}")
    A("end Skv.Gen.Map")
    return "\n".join(L) + "\n"


def generate():
    return write_if_changed(OUT, render(collect()))
