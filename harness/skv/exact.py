"""Independent exact (Fraction) integration of polynomials over straight-sided cells."""
from __future__ import annotations

import itertools
from fractions import Fraction
from math import factorial

import numpy as np

from .expoly import P


def fr(v):
    return Fraction(float(v))


def ref_monomial_integral(kind, e):
    """∫ X^e over the reference cell of the given kind"""
    if kind in ("line", "tri", "tet"):
        num = 1
        for a in e:
            num *= factorial(a)
        return Fraction(num, factorial(sum(e) + len(e)))
    if kind in ("quad", "hex"):
        r = Fraction(1)
        for a in e:
            r /= (a + 1)
        return r
    if kind == "wedge":
        return Fraction(factorial(e[0]) * factorial(e[1]), factorial(e[0] + e[1] + 2)) / (e[2] + 1)
    raise ValueError(kind)


def integrate_ref(kind, q: P) -> Fraction:
    return sum((c * ref_monomial_integral(kind, k) for k, c in q.t.items()), Fraction(0))


def ref_map(kind, verts):
    """the reference map of a straight cell as a list of polynomials F_i(X) (exact):
    affine for simplices, multilinear for quad/hex, prism map for wedges; vertex order as in the library"""
    d = len(verts[0])
    nref = {"line": 1, "tri": 2, "tet": 3, "quad": 2, "hex": 3, "wedge": 3}[kind]
    X = [P.var(i, nref) for i in range(nref)]
    one = P.const(1, nref)
    if kind in ("line", "tri", "tet"):
        shp = [one - sum(X, P(nref))] + X
    elif kind == "quad":
        x, y = X
        shp = [(one - x) * (one - y), x * (one - y), x * y, (one - x) * y]
    elif kind == "hex":
        x, y, z = X
        # RefHex.p: (1,1,1),(1,1,0),(1,0,1),(0,1,1),(1,0,0),(0,1,0),(0,0,1),(0,0,0)
        corners = [(1, 1, 1), (1, 1, 0), (1, 0, 1), (0, 1, 1), (1, 0, 0), (0, 1, 0), (0, 0, 1), (0, 0, 0)]
        shp = []
        for c in corners:
            f = one
            for v, ci in zip((x, y, z), c):
                f = f * (v if ci else (one - v))
            shp.append(f)
    elif kind == "wedge":
        x, y, z = X
        tri = [one - x - y, x, y]
        shp = [t * (one - z) for t in tri] + [t * z for t in tri]
    else:
        raise ValueError(kind)
    return [sum((shp[k] * verts[k][i] for k in range(len(verts))), P(nref)) for i in range(d)], nref


def det_poly(F, nref):
    """determinant of the Jacobian of a polynomial map (square case), as polynomial"""
    J = [[F[i].deriv(j) for j in range(nref)] for i in range(nref)]
    if nref == 1:
        return J[0][0]
    if nref == 2:
        return J[0][0] * J[1][1] - J[0][1] * J[1][0]
    return (J[0][0] * (J[1][1] * J[2][2] - J[1][2] * J[2][1])
            - J[0][1] * (J[1][0] * J[2][2] - J[1][2] * J[2][0])
            + J[0][2] * (J[1][0] * J[2][1] - J[1][1] * J[2][0]))


def compose(p: P, F):
    """p ∘ F for a polynomial map F (list of polynomials)"""
    n = F[0].n
    out = P(n)
    for k, c in p.t.items():
        term = P.const(c, n)
        for Fi, e in zip(F, k):
            if e:
                term = term * (Fi ** e)
        out = out + term
    return out


def cell_integral(kind, verts, p: P) -> Fraction:
    """exact ∫_K p dx for a straight-sided cell with rational vertices (|det| convention:
    cells may be listed with either orientation)"""
    F, nref = ref_map(kind, verts)
    det = det_poly(F, nref)
    q = compose(p, F) * det
    val = integrate_ref(kind, q)
    # orientation: the sign of det is constant on a valid cell; take the absolute value of the
    # integral of det to decide it
    sgn = integrate_ref(kind, det)
    return val if sgn > 0 else -val


def cell_measure(kind, verts) -> Fraction:
    return cell_integral(kind, verts, P.const(1, len(verts[0])))


def mesh_kind(m):
    return {"MeshLine1": "line", "MeshTri1": "tri", "MeshQuad1": "quad", "MeshTet1": "tet", "MeshHex1": "hex",
            "MeshWedge1": "wedge", "MeshTri2": "tri", "MeshQuad2": "quad", "MeshTet2": "tet",
            "MeshHex2": "hex"}[type(m).__name__]


def cell_vertices(m, k):
    nn = m.elem.refdom.nnodes
    return [[fr(v) for v in m.p[:, m.t[i, k]]] for i in range(nn)]


def mesh_integral(m, p: P, cells=None) -> Fraction:
    kind = mesh_kind(m)
    cells = range(m.nelements) if cells is None else cells
    return sum((cell_integral(kind, cell_vertices(m, k), p) for k in cells), Fraction(0))


def rand_poly(rng, dim, deg, per_direction=False):
    p = P(dim)
    exps = [e for e in itertools.product(range(deg + 1), repeat=dim)
            if (max(e) <= deg if per_direction else sum(e) <= deg)]
    for e in rng.sample(exps, min(len(exps), rng.randint(1, 4))):
        p = p + P(dim, {e: Fraction(rng.randint(-4, 4) or 1)})
    # make sure the top degree is present
    top = [e for e in exps if (max(e) if per_direction else sum(e)) == deg]
    p = p + P(dim, {rng.choice(top): Fraction(rng.randint(1, 3))})
    if not p.t:
        p = P.const(1, dim)
    return p


def poly_callable(p: P):
    """numpy evaluator of the polynomial on w.x-like arrays"""
    terms = [(float(c), k) for k, c in p.t.items()]

    def f(x):
        tot = 0.
        for c, k in terms:
            t = c
            for xi, e in zip(x, k):
                if e:
                    t = t * xi ** e
            tot = tot + t
        return tot + 0. * x[0]
    return f


def facet_integral(m, f, p: P) -> float:
    """∫ over facet f (straight: segment in 2-D, planar triangle / parallelogram-ish quad in 3-D, point in 1-D)
    of p; the measure factor may be irrational → float result built from exact pieces"""
    dim = m.dim()
    vs = [[fr(v) for v in m.p[:, j]] for j in m.facets[:, f]]
    if dim == 1:
        return float(p(vs[0]))
    if dim == 2:
        a, b = vs
        s = P.var(0, 1)
        G = [P.const(a[i], 1) + s * (b[i] - a[i]) for i in range(2)]
        q = compose(p, G)
        val = integrate_ref("line", q)
        length2 = sum((b[i] - a[i]) ** 2 for i in range(2))
        return float(val) * float(length2) ** 0.5
    # 3-D: triangle (tet meshes) or quadrilateral face (hex; vertices stored in cyclic order)
    if len(vs) == 3:
        a, b, c = vs
        S = [P.var(0, 2), P.var(1, 2)]
        G = [P.const(a[i], 2) + S[0] * (b[i] - a[i]) + S[1] * (c[i] - a[i]) for i in range(3)]
        q = compose(p, G)
        val = integrate_ref("tri", q)
        u = [b[i] - a[i] for i in range(3)]
        v = [c[i] - a[i] for i in range(3)]
        cr = [u[1] * v[2] - u[2] * v[1], u[2] * v[0] - u[0] * v[2], u[0] * v[1] - u[1] * v[0]]
        return float(val) * float(sum(t * t for t in cr)) ** 0.5
    if len(vs) == 4:
        # split the planar quadrilateral (cyclic order) into two triangles
        tot = 0.0
        for tri in ((vs[0], vs[1], vs[2]), (vs[0], vs[2], vs[3])):
            a, b, c = tri
            S = [P.var(0, 2), P.var(1, 2)]
            G = [P.const(a[i], 2) + S[0] * (b[i] - a[i]) + S[1] * (c[i] - a[i]) for i in range(3)]
            q = compose(p, G)
            val = integrate_ref("tri", q)
            u = [b[i] - a[i] for i in range(3)]
            v = [c[i] - a[i] for i in range(3)]
            cr = [u[1] * v[2] - u[2] * v[1], u[2] * v[0] - u[0] * v[2], u[0] * v[1] - u[1] * v[0]]
            tot += float(val) * float(sum(t * t for t in cr)) ** 0.5
        return tot
    raise ValueError("facet shape")
