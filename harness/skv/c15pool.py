"""C15 helper: shared object pool, fresh rebuilds, comparison, operand checksums, op executor.

An operation is a plain-data description (dict).  `execute(d, env)` runs it against an environment that
resolves object references either to the long-lived POOL objects or to FRESHLY constructed equal objects
(built from the values of the declared fields of the pool objects / from recipes).  A history is a list of
descriptions, so a failing history can be replayed from its JSON form.
"""
from __future__ import annotations

import dataclasses

import numpy as np
import scipy.sparse as sp

FTOL = 1e-12


# --------------------------------------------------------------------------- values

def arr_to_json(a):
    a = np.asarray(a)
    return {"dtype": a.dtype.str, "shape": list(a.shape), "data": a.ravel().tolist()}


def arr_from_json(j):
    if j is None:
        return None
    return np.array(j["data"], dtype=np.dtype(j["dtype"])).reshape(j["shape"])


def copy_val(v):
    from skfem.generic_utils import OrientedBoundary
    if isinstance(v, OrientedBoundary):
        return OrientedBoundary(np.array(v, copy=True).view(np.ndarray), np.array(v.ori, copy=True))
    if isinstance(v, np.ndarray):
        return v.copy()
    if isinstance(v, dict):
        return {k: copy_val(x) for k, x in v.items()}
    return v


def clone_mesh(m):
    """an equal mesh constructed through __init__ from copies of the declared fields only"""
    kw = {f.name: copy_val(getattr(m, f.name)) for f in dataclasses.fields(m)}
    return type(m)(**kw)


def mesh_value(m):
    out = {"cls": type(m).__name__, "p": m.doflocs, "t": m.t}
    for nm, d in (("b", m._boundaries), ("s", m._subdomains)):
        if d is None:
            out[nm] = None
        else:
            out[nm] = {k: (np.asarray(v), getattr(v, "ori", None)) for k, v in d.items()}
    return out


def field_value(df):
    return [None if a is None else np.asarray(a) for a in df.astuple] if hasattr(df, "astuple") else df


def basis_value(b):
    out = {"X": b.X, "W": b.W, "dx": getattr(b, "dx", None), "N": int(b.N), "nelems": int(b.nelems)}
    try:
        out["element_dofs"] = b.element_dofs
    except Exception as ex:  # noqa
        out["element_dofs"] = "raises:" + type(ex).__name__
    out["basis"] = [[field_value(f) for f in bf] for bf in b.basis]
    if hasattr(b, "normals"):
        out["normals"] = np.asarray(b.normals)
    for a in ("tind", "find"):
        if getattr(b, a, None) is not None:
            out[a] = np.asarray(getattr(b, a))
    return out


def canon(r):
    """turn a result into nested plain containers of arrays/scalars"""
    from skfem.mesh import Mesh
    from skfem.assembly.basis import AbstractBasis
    from skfem.element import DiscreteField
    from skfem.assembly.dofs import DofsView
    if isinstance(r, Mesh):
        return mesh_value(r)
    if isinstance(r, AbstractBasis):
        return basis_value(r)
    if isinstance(r, DiscreteField):
        return field_value(r)
    if isinstance(r, DofsView):
        return {"flat": r.flatten(), "nodal": r.nodal_ix, "facet": r.facet_ix, "edge": r.edge_ix,
                "interior": r.interior_ix}
    if sp.issparse(r):
        c = r.tocsr().copy()
        c.sum_duplicates()
        c.sort_indices()
        return {"sparse": list(c.shape), "dense": c.toarray() if c.shape[0] * c.shape[1] <= 250000 else
                (c.indptr, c.indices, c.data)}
    if isinstance(r, (tuple, list)):
        return [canon(x) for x in r]
    if isinstance(r, dict):
        return {str(k): canon(v) for k, v in r.items()}
    return r


def differ(a, b, path="", tol=None):
    tol = FTOL if tol is None else tol
    """None if equal (ints bitwise, floats to FTOL relative to the magnitude), else a description"""
    if isinstance(a, np.ndarray) or isinstance(b, np.ndarray):
        if not (isinstance(a, np.ndarray) and isinstance(b, np.ndarray)):
            if np.isscalar(a) or np.isscalar(b):
                a, b = np.asarray(a), np.asarray(b)
            else:
                return f"{path}: type {type(a).__name__} vs {type(b).__name__}"
        if a.shape != b.shape:
            return f"{path}: shape {a.shape} vs {b.shape}"
        if a.dtype.kind in "fc" or b.dtype.kind in "fc":
            if a.size == 0:
                return None
            fa, fb = np.asarray(a, dtype=complex), np.asarray(b, dtype=complex)
            nan_a, nan_b = np.isnan(fa), np.isnan(fb)
            if (nan_a != nan_b).any():
                return f"{path}: NaN pattern differs"
            fa, fb = np.where(nan_a, 0, fa), np.where(nan_b, 0, fb)
            fin = np.isfinite(fa) & np.isfinite(fb)
            if (fa[~fin] != fb[~fin]).any():
                return f"{path}: infinities differ"
            scale = max(1.0, float(np.abs(fa[fin]).max()) if fin.any() else 1.0)
            err = float(np.abs(fa[fin] - fb[fin]).max()) if fin.any() else 0.0
            if err > tol * scale:
                return f"{path}: values differ by {err:.3e} (scale {scale:.3e})"
            return None
        if a.dtype != b.dtype:
            return f"{path}: dtype {a.dtype} vs {b.dtype}"
        if not np.array_equal(a, b):
            return f"{path}: integer data differ"
        return None
    if isinstance(a, (list, tuple)) and isinstance(b, (list, tuple)):
        if len(a) != len(b):
            return f"{path}: length {len(a)} vs {len(b)}"
        for i, (x, y) in enumerate(zip(a, b)):
            d = differ(x, y, f"{path}[{i}]", tol)
            if d:
                return d
        return None
    if isinstance(a, dict) and isinstance(b, dict):
        if set(a) != set(b):
            return f"{path}: keys {sorted(a)} vs {sorted(b)}"
        for k in a:
            d = differ(a[k], b[k], f"{path}.{k}", tol)
            if d:
                return d
        return None
    if isinstance(a, (float, np.floating)) or isinstance(b, (float, np.floating)):
        try:
            return differ(np.asarray(a, dtype=float), np.asarray(b, dtype=float), path, tol)
        except Exception:
            return f"{path}: {a!r} vs {b!r}"
    if a is None or b is None or isinstance(a, (str, int, bool, np.integer, np.bool_)):
        return None if (a is None and b is None) or (a is not None and b is not None and a == b) \
            else f"{path}: {a!r} vs {b!r}"
    if type(a) is not type(b):
        return f"{path}: type {type(a).__name__} vs {type(b).__name__}"
    return None


# --------------------------------------------------------------------------- checksums

LAZY = ("_facets", "_t2f", "_f2t", "_f2e", "_edges", "_t2e")


def _sum(a):
    a = np.asarray(a)
    return (a.dtype.str, a.shape, a.tobytes())


def checksum(obj, out=None, tag="", seen=None):
    """dict label -> checksum of every array reachable from an operand (declared data and, when
    present, lazily cached arrays)"""
    from skfem.mesh import Mesh
    from skfem.assembly.basis import AbstractBasis
    from skfem.element import DiscreteField
    out = {} if out is None else out
    seen = set() if seen is None else seen
    if id(obj) in seen:
        return out
    seen.add(id(obj))
    if isinstance(obj, np.ndarray):
        out[tag] = _sum(obj)
        if getattr(obj, "ori", None) is not None:
            out[tag + ".ori"] = _sum(obj.ori)
    elif sp.issparse(obj):
        for a in ("data", "indices", "indptr", "row", "col"):
            if hasattr(obj, a):
                out[f"{tag}.{a}"] = _sum(getattr(obj, a))
        out[tag + ".shape"] = tuple(obj.shape)
    elif isinstance(obj, Mesh):
        out[tag + ".p"] = _sum(obj.doflocs)
        out[tag + ".t"] = _sum(obj.t)
        for nm, d in (("b", obj._boundaries), ("s", obj._subdomains)):
            if d is not None:
                out[f"{tag}.{nm}.keys"] = tuple(d.keys())
                for k, v in d.items():
                    checksum(np.asarray(v) if not isinstance(v, np.ndarray) else v, out, f"{tag}.{nm}[{k}]", seen)
        for a in LAZY:
            if a in obj.__dict__ and isinstance(obj.__dict__[a], np.ndarray):
                out[f"{tag}.{a}"] = _sum(obj.__dict__[a])
    elif isinstance(obj, AbstractBasis):
        if getattr(obj, "mesh", None) is not None:
            checksum(obj.mesh, out, tag + ".mesh", seen)
        for a in ("X", "W", "dx", "tind", "find", "normals", "_element_dofs"):
            v = obj.__dict__.get(a)
            if isinstance(v, np.ndarray):
                out[f"{tag}.{a}"] = _sum(v)
        bs = obj.__dict__.get("basis")
        if bs is not None:
            for i, bf in enumerate(bs):
                for j, f in enumerate(bf):
                    checksum(f, out, f"{tag}.basis[{i}][{j}]", seen)
        for sub in getattr(obj, "bases", []) or []:
            checksum(sub, out, tag + ".sub%d" % id(sub), seen)
    elif isinstance(obj, DiscreteField):
        for k, a in enumerate(obj.astuple):
            if a is not None:
                out[f"{tag}.{k}"] = _sum(a)
    elif isinstance(obj, (list, tuple)):
        for i, x in enumerate(obj):
            checksum(x, out, f"{tag}[{i}]", seen)
    elif isinstance(obj, dict):
        out[tag + ".keys"] = tuple(obj.keys())
        for k, x in obj.items():
            checksum(x, out, f"{tag}[{k}]", seen)
    return out


def changed_keys(before, after):
    """labels whose checksum changed (labels present only afterwards - freshly filled caches - are fine)"""
    return sorted(k for k in before if k in after and before[k] != after[k]) + \
        sorted(k for k in before if k not in after and not k.rsplit(".", 1)[-1].startswith("_"))


def global_checksum():
    """class-level arrays shared by all objects: reference domains and element classes"""
    import skfem.refdom as R
    import skfem.element as E
    out = {}
    for mod, names in ((R, dir(R)), (E, E.__all__)):
        for n in names:
            c = getattr(mod, n)
            if not isinstance(c, type):
                continue
            for a, v in vars(c).items():
                if isinstance(v, np.ndarray):
                    out[f"{n}.{a}"] = _sum(v)
    return out
