"""C15 helper: generation and execution of operation histories over the shared pool."""
from __future__ import annotations

import numpy as np

from . import meshes as M
from . import elements as EL
from .c15pool import arr_to_json, arr_from_json, canon, differ, checksum, changed_keys
from .c15ops import Pool, Fresh, execute, make_elem, make_solver, make_mapping, make_basis
from .core import exc_kind

GLOBAL_ELEMS = {"tri": ["ElementTriMorley", "ElementTriArgyris", "ElementTriHermite", "ElementTriP1G",
                        "ElementTriP2G", "ElementTri15ParamPlate"],
                "quad": ["ElementQuadBFS", "ElementQuad2G"], "line": ["ElementLineHermite"],
                "hex": ["ElementHexC1"]}
LEGENDRE = {"line": "ElementLinePp", "quad": "ElementQuadP"}
SCALAR_H1 = {"line": ["ElementLineP1", "ElementLineP2", "ElementLineMini"],
             "tri": ["ElementTriP1", "ElementTriP2", "ElementTriMini", "ElementTriCR"],
             "quad": ["ElementQuad1", "ElementQuad2", "ElementQuadS2"],
             "tet": ["ElementTetP1", "ElementTetP2", "ElementTetMini"],
             "hex": ["ElementHex1", "ElementHex2"], "wedge": ["ElementWedge1"]}
MAX_CELLS = 64


def kind_of(m):
    return EL.KIND_OF_REFDOM[m.elem.refdom.__name__]


def elem_recipe(rng, kind):
    """bias towards the elements that keep state on the element object"""
    r = rng.random()
    if r < 0.3 and kind in GLOBAL_ELEMS:
        return {"name": rng.choice(GLOBAL_ELEMS[kind])}
    if r < 0.55 and kind in LEGENDRE:
        return {"name": LEGENDRE[kind], "p": rng.randint(1, 4)}
    if r < 0.8:
        return {"name": rng.choice(SCALAR_H1[kind])}
    # anything from the pool of exported elements, possibly wrapped
    cands = [n for (n, f) in EL.pool()[kind] if "Skeleton" not in n]
    n = rng.choice(cands)
    base = {"name": n.split("(")[0], **({"p": int(n.split("(")[1][:-1])} if "(" in n else {})}
    fam = EL.family(make_elem(base))
    q = rng.random()
    if q < 0.25 and fam == "h1":
        return {"name": "ElementVector", "sub": [base]}
    if q < 0.4 and fam in ("h1", "hdiv", "hcurl"):
        return {"name": "ElementDG", "sub": [base]}
    if q < 0.55 and fam != "global":
        return {"name": "ElementComposite", "sub": [base, {"name": rng.choice(SCALAR_H1[kind])}]}
    return base


def is_scalar_grad(b):
    try:
        f = b.basis[0]
        return len(f) == 1 and f[0].grad is not None and np.asarray(f[0].value).ndim == 2 \
            and np.asarray(f[0].grad).ndim == 3
    except Exception:
        return False


def ref_points(rng, kind, n):
    """n points inside the reference cell (dyadic)"""
    dim = {"line": 1, "tri": 2, "quad": 2, "tet": 3, "hex": 3, "wedge": 3}[kind]
    X = np.zeros((dim, n))
    for q in range(n):
        if kind in ("tri", "tet"):
            w = [rng.randint(1, 8) for _ in range(dim + 1)]
            X[:, q] = np.array(w[:dim]) / sum(w)
        elif kind == "wedge":
            w = [rng.randint(1, 8) for _ in range(3)]
            X[:2, q] = np.array(w[:2]) / sum(w)
            X[2, q] = rng.randint(1, 15) / 16
        else:
            X[:, q] = [rng.randint(1, 15) / 16 for _ in range(dim)]
    return X


def index_variants(rng, n, base=None):
    """cell subsets as arrays of different dtype / shape, including pairs with EQUAL BYTES"""
    if base is None:
        k = rng.randint(1, max(1, min(n, 4)))
        base = sorted(rng.sample(range(n), k))
    r = rng.random()
    if r < 0.3 and n >= 2:
        c = rng.randint(1, n - 1)
        return [np.array([c], dtype=np.int64), np.array([c, 0], dtype=np.int32)]
    if r < 0.4 and n >= 2:
        c = rng.randint(1, n - 1)
        return [np.array([c, 0], dtype=np.int32), np.array([c], dtype=np.int64)]
    if r < 0.5 and n > 256:
        return [np.array([1, 1], dtype=np.int32), np.array([257], dtype=np.int32)]
    return [np.array(base, dtype=rng.choice([np.int32, np.int64]))]


class History:
    """generates operation descriptions against the current pool state and runs each on the pool and on
    freshly built equal objects"""

    def __init__(self, ctx, rng, kinds, record=None):
        self.ctx, self.rng = ctx, rng
        self.pool = Pool()
        self.kinds = kinds
        self.descr = []          # everything executed so far (for the replay)
        self.nops = 0
        self.points = {}         # kind -> list of reference point sets of EQUAL size
        self.pending_idx = []    # index arrays still to be used (equal-bytes partner)
        self.failed = False
        self.focus = None        # mesh most operations concentrate on (long histories on the SAME objects)
        self.last_map = {}       # mapping index -> last (fn, X, i, j, tind) used on it

    # ---- setup operations (not compared) --------------------------------------------------
    def add_mesh_obj(self, m, d):
        self.pool.meshes.append({"obj": m})
        self.descr.append(d)
        i = len(self.pool.meshes) - 1
        self.pool.mappings.append({"obj": make_mapping("default", m), "recipe": {"mesh": i, "type": "default"}})
        return i

    def add_mesh(self, kind):
        m, info = M.gen_mesh(self.rng, [kind])
        if self.rng.random() < 0.5:
            m, _ = M.random_tags(self.rng, m, oriented=False)
        from .c15pool import mesh_value
        d = {"op": "add_mesh", "cls": type(m).__name__, "p": arr_to_json(m.p), "t": arr_to_json(m.t),
             "b": None if m._boundaries is None else {k: arr_to_json(v) for k, v in m._boundaries.items()},
             "s": None if m._subdomains is None else {k: arr_to_json(v) for k, v in m._subdomains.items()}}
        self.ctx.count("mesh:" + type(m).__name__)
        return self.add_mesh_obj(m, d)

    def add_elem(self, kind, recipe=None):
        recipe = recipe or elem_recipe(self.rng, kind)
        e = make_elem(recipe)
        self.pool.elems.append({"obj": e, "recipe": recipe, "kind": kind, "uses": 0})
        self.descr.append({"op": "add_elem", "recipe": recipe, "kind": kind})
        return len(self.pool.elems) - 1

    def add_solver(self, recipe):
        self.pool.solvers.append({"obj": make_solver(recipe), "recipe": recipe})
        self.descr.append({"op": "add_solver", "recipe": recipe})
        return len(self.pool.solvers) - 1

    def add_mapping(self, mi, typ):
        mp = make_mapping(typ, self.pool.mesh(mi))
        self.pool.mappings.append({"obj": mp, "recipe": {"mesh": mi, "type": typ}})
        self.descr.append({"op": "add_mapping", "mesh": mi, "type": typ})
        return len(self.pool.mappings) - 1

    # ---- generation -----------------------------------------------------------------------
    def pts(self, kind, n=None):
        """reuse a small library of point sets so that different sets of EQUAL size meet the same objects"""
        lib = self.points.setdefault(kind, [])
        if n is None:
            n = self.rng.choice([1, 2, 3, 3, 4])
        same = [X for X in lib if X.shape[1] == n]
        if same and self.rng.random() < 0.5:
            return self.rng.choice(same)
        X = ref_points(self.rng, kind, n)
        lib.append(X)
        return X

    def gen(self):
        rng, pool = self.rng, self.pool
        if self.focus is None or self.focus >= len(pool.meshes) or rng.random() < 0.06:
            self.focus = rng.randrange(len(pool.meshes))
        mi = self.focus if rng.random() < 0.6 else rng.randrange(len(pool.meshes))
        m = pool.mesh(mi)
        kind = kind_of(m)
        nt = m.nelements
        r = rng.random()
        if r < 0.10:
            what = rng.choice(["facets", "t2f", "f2t", "edges", "t2e", "f2e", "boundary_facets", "boundary_nodes",
                               "interior_nodes", "nfacets", "nedges", "boundary_edges", "param", "p2f", "p2t",
                               "interior_facets", "nvertices"])
            return {"op": "mesh_query", "mesh": mi, "what": what}
        if r < 0.24:
            return self.gen_xform(mi, m, kind)
        if r < 0.38:
            return self.gen_mapping(mi, m, kind)
        if r < 0.51:
            return self.gen_elem_eval(mi, m, kind)
        if r < 0.64 or not pool.bases:
            return self.gen_new_basis(mi, m, kind)
        bi = rng.randrange(len(pool.bases))
        onfocus = [i for i, b in enumerate(pool.bases) if b["recipe"].get("mesh") == self.focus]
        if onfocus and rng.random() < 0.5:
            bi = rng.choice(onfocus)
        if r < 0.78:
            return self.gen_basis_op(bi)
        if r < 0.86:
            return self.gen_asm(bi)
        if r < 0.92:
            if hasattr(m, "element_finder") and kind in ("line", "tri", "quad", "tet", "hex"):
                k = rng.randint(1, 3)
                lastf = self.__dict__.setdefault("last_finder", {})
                if mi in lastf and all(c < nt for c in lastf[mi]) and rng.random() < 0.6:
                    # points on the facets / at the vertices of the cells the PREVIOUS query of this mesh was
                    # answered with (all of them lie in those cells, and in their neighbours)
                    cells = lastf.pop(mi)
                    return {"op": "finder", "mesh": mi, "cells": cells,
                            "weights": [[rng.randint(1, 8) for _ in range(8)] for _ in cells],
                            "ties": True, "ties_only": True}
                cells = [rng.randrange(nt) for _ in range(k)]
                lastf[mi] = list(cells)
                return {"op": "finder", "mesh": mi, "cells": cells,
                        "weights": [[rng.randint(1, 8) for _ in range(8)] for _ in range(k)],
                        "ties": False}
            return self.gen_basis_op(bi)
        return self.gen_solve()

    def gen_xform(self, mi, m, kind):
        rng = self.rng
        nt = m.nelements
        dim = m.p.shape[0]
        cands = ["translated", "scaled", "mirrored", "with_boundaries", "with_subdomains", "restrict",
                 "remove_elements", "copy", "with_defaults", "smoothed", "morphed"]
        if nt * (2 ** dim) <= MAX_CELLS and not type(m).__name__.endswith("2"):
            cands += ["refined", "refined"]
        if kind in ("tri", "tet", "line") and nt * 4 <= MAX_CELLS and type(m).__name__.endswith("1"):
            cands += ["adaptive"]
        if kind == "quad" and type(m).__name__ == "MeshQuad1":
            cands.append("to_meshtri")
        what = rng.choice(cands)
        a = {}
        if what == "adaptive":
            a["ix"] = arr_to_json(index_variants(rng, nt)[0])
        elif what in ("translated", "mirrored"):
            a["v"] = [rng.randint(1, 4) / 4 for _ in range(dim)]
        elif what == "scaled":
            a["v"] = [rng.choice([0.5, 2.0, 1.5]) for _ in range(dim)]
        elif what == "with_boundaries":
            nf = m.nfacets
            k = rng.randint(1, min(nf, 4))
            a["tags"] = {"bx": arr_to_json(np.array(sorted(rng.sample(range(nf), k)), dtype=np.int32)),
                         "by": rng.choice(list(("lowx", "highlast", "all")))}
        elif what == "with_subdomains":
            k = rng.randint(1, min(nt, 4))
            a["tags"] = {"sx": arr_to_json(np.array(sorted(rng.sample(range(nt), k)), dtype=np.int32)),
                         "sy": rng.choice(list(("lowx", "highlast")))}
        elif what in ("restrict", "remove_elements"):
            if nt < 2:
                what = "copy"
            elif m.subdomains and rng.random() < 0.3:
                a["name"] = rng.choice(sorted(m.subdomains))
            else:
                k = rng.randint(1, nt - 1)
                a["ix"] = arr_to_json(np.array(sorted(rng.sample(range(nt), k)),
                                               dtype=rng.choice([np.int32, np.int64])))
        return {"op": "mesh_xform", "mesh": mi, "what": what, "args": a}

    def gen_mapping(self, mi, m, kind):
        rng, pool = self.rng, self.pool
        maps = [i for i, e in enumerate(pool.mappings) if e["recipe"]["mesh"] == mi]
        if len(maps) < 2 and rng.random() < 0.5 and m.bndelem is not None:
            self.add_mapping(mi, "iso")
            maps = [i for i, e in enumerate(pool.mappings) if e["recipe"]["mesh"] == mi]
        mpi = rng.choice(maps)
        fn = rng.choice(["F", "DF", "detDF", "invDF", "invF", "J", "J", "DF"])
        nt = m.nelements
        if self.pending_idx and self.pending_idx[0][0] == mpi:
            _, fn, Xj, tind = self.pending_idx.pop(0)
            return {"op": "mapping", "map": mpi, "fn": fn, "X": Xj, "tind": arr_to_json(tind), "i": 0, "j": 0}
        X = self.pts(kind)
        d = {"op": "mapping", "map": mpi, "fn": fn, "X": arr_to_json(X), "i": rng.randrange(m.dim()),
             "j": rng.randrange(m.dim())}
        last = self.last_map.get(mpi)
        if last is not None and rng.random() < 0.5:
            # same mapping object, same function: vary ONE ingredient only
            lfn, lX, li, lj, lt = last
            d.update(fn=lfn, i=li, j=lj)
            q = rng.random()
            if q < 0.45 and lt is not None and len(lX["shape"]) == 2:
                # same points, another cell subset of the SAME length and dtype
                old = arr_from_json(lt)
                new = np.array([rng.randrange(nt) for _ in range(len(old))], dtype=old.dtype)
                d["X"], d["tind"] = lX, arr_to_json(new)
                self.last_map[mpi] = (lfn, lX, li, lj, d["tind"])
                return d
            if q < 0.8 and len(lX["shape"]) == 2:
                # same cells, another point set of the SAME size
                Xn = self.pts(kind, lX["shape"][1])
                d["X"] = arr_to_json(Xn)
                if lt is not None:
                    d["tind"] = lt
                self.last_map[mpi] = (lfn, d["X"], li, lj, lt)
                return d
        if rng.random() < 0.75:
            var = index_variants(rng, nt)
            d["tind"] = arr_to_json(var[0])
            if len(var) > 1:
                self.pending_idx.append((mpi, fn, d["X"], var[1]))
            if rng.random() < 0.25:
                # per-cell points: (dim, len(tind), n)
                Xc = np.stack([self.pts(kind, X.shape[1]) for _ in range(len(var[0]))], axis=1)
                d["X"] = arr_to_json(Xc)
                self.pending_idx = [p for p in self.pending_idx if p[0] != mpi]
        self.last_map[mpi] = (d["fn"], d["X"], d["i"], d["j"], d.get("tind"))
        if rng.random() < 0.15 and m.bndelem is not None and kind != "wedge":
            # facet maps
            bk = {"tri": "line", "quad": "line", "tet": "tri", "hex": "quad"}.get(kind)
            if bk:
                Xf = self.pts(bk)
                nf = m.nfacets
                k = rng.randint(1, min(nf, 3))
                d = {"op": "mapping", "map": mpi, "fn": rng.choice(["G", "detDG"]), "X": arr_to_json(Xf),
                     "tind": arr_to_json(np.array(sorted(rng.sample(range(nf), k)), dtype=np.int32))}
        return d

    def pick_elem(self, kind, stateful=False):
        """prefer element objects that have already been used (reuse across meshes)"""
        rng, pool = self.rng, self.pool
        have = [i for i, e in enumerate(pool.elems) if e["kind"] == kind]
        if stateful and (kind in LEGENDRE or kind in GLOBAL_ELEMS):
            # the elements that keep state on the element object
            names = set(GLOBAL_ELEMS.get(kind, [])) | ({LEGENDRE[kind]} if kind in LEGENDRE else set())
            st = [i for i in have if pool.elems[i]["recipe"]["name"] in names]
            if st and rng.random() < 0.8:
                return rng.choice(st)
            if kind in LEGENDRE and (kind not in GLOBAL_ELEMS or rng.random() < 0.6):
                return self.add_elem(kind, {"name": LEGENDRE[kind], "p": rng.randint(1, 4)})
            return self.add_elem(kind, {"name": rng.choice(GLOBAL_ELEMS[kind])})
        if have and rng.random() < 0.75:
            return rng.choice(have)
        return self.add_elem(kind)

    def gen_elem_eval(self, mi, m, kind):
        rng, pool = self.rng, self.pool
        last = getattr(self, "last_eval", None)
        if last is not None and rng.random() < 0.5:
            # the SAME element object and basis function at another point set of the SAME size
            d = dict(last)
            k = EL.KIND_OF_REFDOM[pool.elem(d["elem"]).refdom.__name__]
            d["X"] = arr_to_json(self.pts(k, d["X"]["shape"][1]))
            self.last_eval = d
            return dict(d)
        ei = self.pick_elem(kind, stateful=rng.random() < 0.6)
        e = pool.elem(ei)
        n = rng.choice([2, 3, 3])
        X = self.pts(kind, n)
        nb = getattr(e, "_bfun_counts", None)
        try:
            from skfem.assembly import Dofs  # noqa
            nbfun = int(sum(e._bfun_counts())) if nb else 3
        except Exception:
            nbfun = 3
        i = rng.randrange(max(1, nbfun))
        if hasattr(e, "lbasis") and EL.family(e) in ("h1", "hdiv", "hcurl") and rng.random() < 0.5:
            d = {"op": "lbasis", "elem": ei, "X": arr_to_json(X), "i": i}
            self.last_eval = d
            return dict(d)
        maps = [k for k, en in enumerate(pool.mappings) if en["recipe"]["mesh"] == mi]
        d = {"op": "gbasis", "elem": ei, "map": rng.choice(maps), "X": arr_to_json(X), "i": i}
        if rng.random() < 0.5:
            d["tind"] = arr_to_json(index_variants(rng, m.nelements)[0])
        self.last_eval = d
        return dict(d)

    def gen_new_basis(self, mi, m, kind):
        rng, pool = self.rng, self.pool
        if len(pool.bases) >= 2 and rng.random() < 0.12:
            # composite of two bases on the same mesh / quadrature
            groups = {}
            for i, b in enumerate(pool.bases):
                r = b["recipe"]
                if r["type"] in ("cell", "facet") and r.get("sub") is None and r.get("subname") is None:
                    groups.setdefault((r["type"], r["mesh"], r["intorder"]), []).append(i)
            g = [v for v in groups.values() if len(v) >= 2]
            if g:
                pair = rng.sample(rng.choice(g), 2)
                return {"op": "new_basis", "recipe": {"type": "composite", "bases": pair}}
        ei = self.pick_elem(kind)
        typ = rng.choice(["cell", "cell", "cell", "facet", "ifacet"])
        rec = {"type": typ, "mesh": mi, "elem": ei, "intorder": rng.choice([2, 3, 4])}
        md = int(getattr(pool.elem(ei), "maxdeg", 9))
        if typ == "cell" and rng.random() < 0.4 and 2 * md <= 8:
            rec["intorder"] = 2 * md        # exact mass matrix: the basis is eligible for solve / eig operations
        if typ == "cell" and rng.random() < 0.35 and m.nelements > 1:
            if m.subdomains and rng.random() < 0.4:
                rec["subname"] = rng.choice(sorted(m.subdomains))
            else:
                rec["sub"] = arr_to_json(index_variants(rng, m.nelements)[0])
        if typ == "facet" and rng.random() < 0.3 and m.boundaries:
            rec["subname"] = rng.choice(sorted(m.boundaries))
        if typ == "ifacet":
            rec["side"] = rng.randint(0, 1)
        return {"op": "new_basis", "recipe": rec}

    def gen_basis_op(self, bi):
        rng, pool = self.rng, self.pool
        b = pool.basis(bi)
        rec = pool.bases[bi]["recipe"]
        m = getattr(b, "mesh", None) or b.bases[0].mesh
        cell_like = rec["type"] == "cell" and rec.get("sub") is None and rec.get("subname") is None
        cands = ["doflocs", "get_dofs", "interpolate", "default_parameters", "element_dofs", "interpolate"]
        if cell_like:
            cands += ["probes", "interpolator", "probes", "project", "refinterp", "boundary"]
        if rec["type"] == "composite":
            cands = ["interpolate", "element_dofs", "split", "default_parameters"]
        what = rng.choice(cands)
        d = {"op": "basis_op", "basis": bi, "what": what, "salt": rng.randint(0, 3)}
        if what == "get_dofs":
            q = rng.random()
            if q < 0.3 and m.boundaries:
                d["facets"] = rng.choice(sorted(m.boundaries))
            elif q < 0.5:
                nf = m.nfacets
                d["facets"] = arr_to_json(np.array(sorted(rng.sample(range(nf), rng.randint(1, min(nf, 4)))),
                                                   dtype=rng.choice([np.int32, np.int64])))
            elif q < 0.65:
                nt = m.nelements
                d["elements"] = arr_to_json(np.array(sorted(rng.sample(range(nt), rng.randint(1, min(nt, 3)))),
                                                     dtype=np.int32))
        if what == "project":
            d["fun"] = rng.choice(["sin", "poly", "one"])
        if what in ("probes", "interpolator"):
            nq = int(b.X.shape[-1])
            k = rng.choice([1, 2, nq, nq, 5])
            d["cells"] = [rng.randrange(m.nelements) for _ in range(k)]
            d["weights"] = [[rng.randint(1, 8) for _ in range(8)] for _ in range(k)]
        return d

    def gen_asm(self, bi):
        rng, pool = self.rng, self.pool
        rec = pool.bases[bi]["recipe"]
        form = rng.choice(["mass", "stiff", "xweighted", "param", "load", "lparam", "functional"])
        d = {"op": "asm", "form": form, "basis": bi, "salt": rng.randint(0, 3), "interp": rng.random() < 0.6}
        if rec["type"] == "composite":
            d["form"] = rng.choice(["mass", "stiff", "load"])
        if rng.random() < 0.3:
            same = [i for i, b in enumerate(pool.bases)
                    if all(b["recipe"].get(k) == rec.get(k) for k in ("type", "mesh", "intorder", "sub", "subname",
                                                                       "side"))
                    and b["recipe"]["type"] != "composite"]
            if same and rec["type"] != "composite":
                d["basis2"] = rng.choice(same)
        return d

    def gen_solve(self):
        rng, pool = self.rng, self.pool
        ok = [i for i, b in enumerate(pool.bases)
              if b["recipe"]["type"] == "cell" and b["recipe"].get("sub") is None
              and b["recipe"].get("subname") is None and is_scalar_grad(b["obj"])
              and 2 * int(getattr(pool.elem(b["recipe"]["elem"]), "maxdeg", 99)) <= b["recipe"]["intorder"]
              and EL.family(pool.elem(b["recipe"]["elem"])) in ("h1", "global")
              and 3 <= b["obj"].N - len(b["obj"].get_dofs().all())]
        if not ok or (len(ok) < 3 and rng.random() < 0.4):
            # make a basis that is eligible for solves: low-order continuous element, exact mass matrix
            mi = rng.randrange(len(pool.meshes))
            kind = kind_of(pool.mesh(mi))
            have = [i for i, e in enumerate(pool.elems)
                    if e["kind"] == kind and e["recipe"]["name"] in SCALAR_H1[kind][:2] + ["ElementTriMorley"]]
            ei = rng.choice(have) if have and rng.random() < 0.7 else \
                self.add_elem(kind, {"name": rng.choice(SCALAR_H1[kind][:2])})
            md = int(pool.elem(ei).maxdeg)
            return {"op": "new_basis", "recipe": {"type": "cell", "mesh": mi, "elem": ei,
                                                  "intorder": min(8, 2 * md)}}
        bi = rng.choice(ok)
        nint = pool.basis(bi).N - len(pool.basis(bi).get_dofs().all())
        lin = [i for i, s in enumerate(pool.solvers) if "eigen" not in s["recipe"]["factory"]]
        eig = [i for i, s in enumerate(pool.solvers) if "eigen" in s["recipe"]["factory"]]
        if rng.random() < 0.25 and eig and nint >= 8:
            d = {"op": "eig", "solver": rng.choice(eig), "basis": bi, "kw": {}, "tol": 1e-8}
            if rng.random() < 0.5:
                d["kw"] = {"k": rng.choice([2, 3, 4])}
            return d
        si = rng.choice(lin)
        fac = pool.solvers[si]["recipe"]["factory"]
        d = {"op": "solve", "solver": si, "basis": bi, "bc": rng.choice(["condense", "condense", "enforce"]),
             "inhom": rng.random() < 0.5, "salt": rng.randint(0, 3), "kw": {}}
        if fac == "solver_direct_scipy" and rng.random() < 0.5:
            d["bc"] = "mpc"      # reduced matrix is not symmetric: direct backend only
        if rng.random() < 0.35:
            if fac in ("solver_iter_pcg", "solver_iter_krylov"):
                d["kw"] = rng.choice([{"rtol": 1e-3}, {"maxiter": 2}, {"rtol": 1e-12, "atol": 0.0}])
            elif fac == "solver_iter_cg":
                d["kw"] = rng.choice([{"maxiters": 2}, {"tol": 1e-2}])
            elif fac == "solver_direct_scipy":
                d["kw"] = rng.choice([{"use_umfpack": False}, {"permc_spec": "NATURAL"}])
        return d

    # ---- execution ------------------------------------------------------------------------
    def run_op(self, d):
        """execute on the pool and on fresh objects, compare, checksum; returns a violation dict or None"""
        ctx = self.ctx
        pool = self.pool
        warm = self.nops
        # pool side, with operand checksums
        before = None
        res_p = exc_p = new = None
        # operands are resolved inside execute; checksum them through a dry resolution first
        pre_ops = self.operands_of(d)
        before = checksum(pre_ops)
        try:
            res_p, ops_p, new = execute(d, pool)
        except Exception as ex:
            exc_p = ex
        ch = changed_keys(before, checksum(pre_ops))
        # literal operands created inside the operation (index arrays, vectors, assembled systems)
        ch += pool.tracked_changes()
        fresh = Fresh(pool)
        res_f = exc_f = None
        try:
            res_f, ops_f, _ = execute(d, fresh)
        except Exception as ex:
            exc_f = ex
        # the same operation once more on another set of fresh equal objects: equal results (no hidden process
        # wide state such as a generator that is never re-seeded)
        rep_diff = None
        if exc_f is None and self.rng.random() < 0.12:
            try:
                res_f2, _, _ = execute(d, Fresh(pool))
                rep_diff = differ(canon(res_f), canon(res_f2), tol=d.get("tol"))
                ctx.count("op-repeated-on-fresh-objects")
            except Exception:
                rep_diff = None
        self.nops += 1
        self.descr.append(d)
        label = d["op"] + ":" + str(d.get("what") or d.get("fn") or d.get("form") or
                                    (d.get("recipe") or {}).get("type") or "")
        ctx.count("op:" + d["op"])
        out = None
        if rep_diff:
            out = {"what": f"{d['op']}: repeating the operation on freshly built equal objects gives another result: "
                           f"{rep_diff}", "sig": {"what": "not-repeatable", "op": d["op"]}}
        if ch:
            out = {"what": f"operand arrays modified by {label}: {ch[:4]}", "sig": {"what": "operand-mutated",
                                                                                   "op": label}}
        if exc_p is not None or exc_f is not None:
            kp = exc_kind(exc_p) if exc_p is not None else None
            kf = exc_kind(exc_f) if exc_f is not None else None
            if kp != kf:
                out = out or {"what": f"{label}: pool objects -> {kp or 'result'} ({exc_p!r:.200}), "
                                      f"fresh equal objects -> {kf or 'result'} ({exc_f!r:.200})",
                              "sig": {"what": "exception-differs", "op": label}}
            else:
                ctx.count("both-raise:" + label + ":" + str(kp))
            nontrivial = False
        else:
            diff = differ(canon(res_p), canon(res_f), tol=d.get("tol"))
            if diff:
                out = out or {"what": f"{label}: result on the shared pool differs from the result on freshly "
                                      f"built equal objects: {diff}", "sig": {"what": "history-dependent",
                                                                             "op": label}}
            nontrivial = warm > 0
            # a sample of operations is re-evaluated in a new interpreter at the end of the run
            jobs = getattr(ctx, "_fresh_jobs", None)
            if jobs is not None and out is None and len(jobs) < ctx._fresh_jobs_max and self.rng.random() < 0.03:
                from .c15child import snapshot
                try:
                    jobs.append((snapshot(pool), {k: v for k, v in d.items() if k != "_adds"}, canon(res_f), label))
                except Exception:
                    pass
            # register new objects in the pool
            if new is not None and out is None:
                k, obj = new
                if k == "mesh" and obj.nelements <= MAX_CELLS and len(pool.meshes) < 12:
                    i = len(pool.meshes)
                    pool.meshes.append({"obj": obj})
                    pool.mappings.append({"obj": make_mapping("default", obj),
                                          "recipe": {"mesh": i, "type": "default"}})
                    d["_adds"] = ["mesh", i]
                elif k == "basis" and len(pool.bases) < 14:
                    pool.bases.append({"obj": obj, "recipe": d["recipe"]})
                    d["_adds"] = ["basis", len(pool.bases) - 1]
                    if "elem" in d["recipe"]:
                        pool.elems[d["recipe"]["elem"]]["uses"] += 1
        ctx.case({"h": id(self), "n": self.nops, "d": {k: v for k, v in d.items() if k != "_adds"}},
                 nontrivial=nontrivial,
                 sample={"op": label, "after_ops": warm, "descr": _short(d)} if (warm in (7, 23) and nontrivial)
                 else None)
        return out

    def operands_of(self, d):
        """pool objects (and literal arrays) an operation refers to, for the before/after checksums"""
        pool = self.pool
        ops = []
        for k, getter in (("mesh", pool.mesh), ("basis", pool.basis), ("basis2", pool.basis)):
            if d.get(k) is not None:
                ops.append(getter(d[k]))
        if d.get("map") is not None:
            ops.append(pool.mapping(d["map"]).mesh)
        rec = d.get("recipe")
        if rec:
            if "mesh" in rec:
                ops.append(pool.mesh(rec["mesh"]))
            for i in rec.get("bases", []):
                ops.append(pool.basis(i))
        if d.get("args", {}).get("other") is not None:
            ops.append(pool.mesh(d["args"]["other"]))
        return ops


def _short(d):
    import json
    s = json.dumps({k: v for k, v in d.items() if k != "_adds"}, default=str)
    return s if len(s) < 600 else s[:600] + "..."


SOLVER_RECIPES = [
    {"factory": "solver_direct_scipy", "kwargs": {}},
    {"factory": "solver_iter_pcg", "kwargs": {}},
    {"factory": "solver_iter_krylov", "kwargs": {"rtol": 1e-11}},
    {"factory": "solver_iter_cg", "kwargs": {}},
    {"factory": "solver_eigen_scipy_sym", "kwargs": {}},
    {"factory": "solver_eigen_scipy", "kwargs": {"k": 3}},
]


def new_history(ctx, rng):
    kinds_all = ["line", "tri", "quad", "tet", "hex", "wedge"]
    main = rng.choice(["tri", "tri", "quad", "quad", "line", "line", "tet", "hex", "wedge"])
    second = rng.choice(kinds_all)
    h = History(ctx, rng, [main, second])
    for k in [main, main, second]:
        h.add_mesh(k)
    if rng.random() < 0.4 and main in ("tri", "quad", "tet", "hex"):
        # a second-order mesh of the main reference domain shares its element objects
        m2, _ = M.gen_mesh(rng, [main + "2"])
        h.add_mesh_obj(m2, {"op": "add_mesh", "cls": type(m2).__name__, "p": arr_to_json(m2.p),
                            "t": arr_to_json(m2.t), "b": None, "s": None})
        ctx.count("mesh:" + type(m2).__name__)
    for rec in SOLVER_RECIPES:
        h.add_solver(rec)
    return h


def rebuild(ctx, descr):
    """replay: re-execute a recorded list of descriptions; returns the first violation or None"""
    import skfem
    from skfem.generic_utils import OrientedBoundary  # noqa
    h = History(ctx, ctx.rng, [])
    for d in descr:
        d = dict(d)
        d.pop("_adds", None)
        if d["op"] == "add_mesh":
            cls = getattr(skfem, d["cls"])
            kw = {}
            if d.get("b"):
                kw["_boundaries"] = {k: arr_from_json(v) for k, v in d["b"].items()}
            if d.get("s"):
                kw["_subdomains"] = {k: arr_from_json(v) for k, v in d["s"].items()}
            h.add_mesh_obj(cls(arr_from_json(d["p"]), arr_from_json(d["t"]), **kw), d)
        elif d["op"] == "add_elem":
            h.add_elem(d["kind"], d["recipe"])
        elif d["op"] == "add_solver":
            h.add_solver(d["recipe"])
        elif d["op"] == "add_mapping":
            h.add_mapping(d["mesh"], d["type"])
        else:
            v = h.run_op(d)
            if v:
                return v
    return None
