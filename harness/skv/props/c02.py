"""C02  Integration is exact for polynomial data on cells and facets."""
from fractions import Fraction

import numpy as np

from .. import meshes, exact, expoly
from ..core import exc_kind, qstr, unq
from ..expoly import P
from ..gens import shapes as genshapes

LAGRANGE = {
    "line": ["ElementLineP0", "ElementLineP1", "ElementLineP2"],
    "tri": ["ElementTriP0", "ElementTriP1", "ElementTriP2", "ElementTriP3", "ElementTriP4"],
    "tet": ["ElementTetP0", "ElementTetP1", "ElementTetP2"],
    "quad": ["ElementQuad0", "ElementQuad1", "ElementQuad2"],
    "hex": ["ElementHex0", "ElementHex1"],
    "wedge": ["ElementWedge1"],
}
POU = ["ElementLineP1", "ElementLineP2", "ElementTriP1", "ElementTriP2", "ElementTriP3", "ElementTriP4",
       "ElementTriCR", "ElementTetP1", "ElementTetP2", "ElementTetCR", "ElementQuad1", "ElementQuad2",
       "ElementQuadS2", "ElementHex1", "ElementHexS2", "ElementHex2", "ElementWedge1", "ElementTriP0",
       "ElementQuad0", "ElementTetP0", "ElementHex0", "ElementLineP0", "ElementTriP1DG", "ElementQuad1DG"]


def affine_mesh(rng, kind):
    """straight-sided mesh whose cells are affine images of the reference cell"""
    while True:
        m, info = meshes.gen_first_order(rng, kind, holes=(rng.random() < 0.2))
        if info.get("gen") == "tensor-jiggled":
            continue
        if m.nelements <= 16:
            return m, info


def exact_matrices(m, e, ename, fpoly, cells=None):
    """exact global mass / stiffness / load (Fractions) for a Lagrange element on an affine mesh"""
    import skfem
    kind = exact.mesh_kind(m)
    tr = genshapes.trace(e, ename)
    phis = tr["vals"]
    nb = len(phis)
    from skfem.assembly import Dofs
    ed = Dofs(m, e).element_dofs
    N = int(ed.max()) + 1
    M = [[Fraction(0)] * N for _ in range(N)]
    K = [[Fraction(0)] * N for _ in range(N)]
    b = [Fraction(0)] * N
    nref = tr["dim"]
    for k in (range(m.nelements) if cells is None else cells):
        verts = exact.cell_vertices(m, k)
        F, _ = exact.ref_map(kind, verts)
        J = [[F[i].deriv(j) for j in range(nref)] for i in range(nref)]
        assert all(c.is_const() for row in J for c in row), "cell is not affine"
        A = [[c.constant() for c in row] for row in J]
        det = exact.det_poly(F, nref).constant()
        adet = abs(det)
        # inverse transpose via adjugate
        if nref == 1:
            inv = [[1 / A[0][0]]]
        elif nref == 2:
            inv = [[A[1][1] / det, -A[0][1] / det], [-A[1][0] / det, A[0][0] / det]]
        else:
            c = lambda i, j: (A[(i + 1) % 3][(j + 1) % 3] * A[(i + 2) % 3][(j + 2) % 3]
                              - A[(i + 1) % 3][(j + 2) % 3] * A[(i + 2) % 3][(j + 1) % 3])
            inv = [[c(j, i) / det for j in range(3)] for i in range(3)]
        # global gradient of φ_i: (A^{-T} ∇̂φ̂)_a = Σ_b inv[b][a] ∂_b φ̂
        grads = [[sum((phis[i].deriv(bb) * inv[bb][a] for bb in range(nref)), P(nref)) for a in range(nref)]
                 for i in range(nb)]
        fF = exact.compose(fpoly, F)
        for i in range(nb):
            I = int(ed[i, k])
            b[I] += adet * exact.integrate_ref(kind, fF * phis[i])
            for j in range(nb):
                Jg = int(ed[j, k])
                M[I][Jg] += adet * exact.integrate_ref(kind, phis[i] * phis[j])
                K[I][Jg] += adet * exact.integrate_ref(
                    kind, sum((grads[i][a] * grads[j][a] for a in range(nref)), P(nref)))
    return M, K, b


def rel_close(a, b, tol=1e-11):
    a = np.asarray(a, dtype=float)
    b = np.asarray(b, dtype=float)
    sc = max(1.0, float(np.abs(b).max()) if b.size else 1.0)
    return a.shape == b.shape and float(np.abs(a - b).max()) <= tol * sc


def run(ctx):
    import skfem
    from skfem import Basis, FacetBasis, Functional, BilinearForm, LinearForm
    from skfem import element as E
    ctx.rule = ("random straight-sided meshes with dyadic vertices of all six cell types (affine and general convex "
                "quadrilaterals, renumbered/permuted/holes) x random integer polynomials up to the integration order "
                "x whole mesh / random cell subsets / random facet sets; exact Fraction oracle (pull-back + "
                "Dirichlet formula); Lagrange P0-P4 mass/stiffness/load against exactly computed rational matrices; "
                "mass sums for partition-of-unity elements; invariance under renumbering, cell permutation, "
                "rigid motion and refinement. distinct = (mesh, polynomial/element, region); non-trivial = >= 2 cells")
    ctx.trusted += ["Lean kernel; axioms propext/Classical.choice/Quot.sound",
                    "C08 (rule exactness for all polynomials) and C01 (assembly sums) theorems are reused",
                    "exact monomial integrals over reference cells (Dirichlet formula) and the change of variables "
                    "x = F(X) are part of the statement of 'exact integral' (independent Fraction integrator)",
                    "traced shape polynomials (C09 translator) are used to build the exact rational matrices"]
    ctx.assumptions += ["rounding is not modelled: implementation compared with exact rationals to 1e-11 relative",
                        "curved cells are outside the polynomial clause (search: bookkeeping only)"]
    if not getattr(ctx, "no_lean", False):
        ctx.prove(["SkfemVerif.Props.C02"], ["SkfemVerif/Props/C02.lean"])
    rng = ctx.rng
    # -------- (1) functionals of polynomials: cells, subsets, facets
    n1 = ctx.scale(200, 1500)
    dxreqs, dxpost = [], []
    # -------- (1w) right prisms (triangle x interval: affine cells): monomials whose degree EQUALS the integration
    # order, in particular in the extrusion direction alone (the generic loop below gives prisms `dim` orders of slack)
    from fractions import Fraction as _Fr
    P_ = exact.P
    for rep in range(ctx.scale(2, 6)):
        mw, infow = meshes.gen_first_order(rng, "wedge")
        if mw.nelements > 24:
            continue
        ew = mw.elem()
        for n in range(1, 9):
            exps = [(0, 0, n), (n, 0, 0), (0, n, 0), (1, 0, n - 1), (0, 1, n - 1)]
            for _ in range(3):
                a = rng.randint(0, n)
                b = rng.randint(0, n - a)
                exps.append((a, b, n - a - b))
            try:
                bw = Basis(mw, ew, intorder=n)
            except Exception as ex_:
                ctx.count("wedge-order-refused:%d" % n)
                continue
            for ex3 in sorted(set(exps)):
                pw = P_(3, {ex3: _Fr(1)})
                fw = exact.poly_callable(pw)
                val = Functional(lambda w: fw(w.x)).assemble(bw)
                exv = exact.mesh_integral(mw, pw)
                ctx.case({"t": mw.t.tolist(), "p": mw.p.tolist(), "poly": repr(pw), "kind": "functional-wedge-top-degree",
                          "order": n}, nontrivial=True)
                ctx.count("wedge-top-degree-monomials")
                if abs(val - float(exv)) > 1e-11 * max(1.0, abs(float(exv))):
                    ctx.violation("functional of a monomial of degree equal to the integration order differs from its "
                                  "exact integral over a mesh of right prisms",
                                  {"mesh": meshes.mesh_descr(mw), "info": infow, "poly": repr(pw), "order": n,
                                   "got": float(val), "exact": qstr(exv)},
                                  {"what": "functional-cells", "cls": "wedge"})
    for it in range(n1):
        if ctx.time_left(0.45) < 0:
            break
        kind = rng.choice(meshes.FIRST_ORDER)
        m, info = meshes.gen_first_order(rng, kind)
        if m.nelements > 24:
            continue
        dim = m.dim()
        general = info.get("gen") == "tensor-jiggled"
        deg = rng.randint(0, 4 if dim < 3 else 3)
        tensor = kind in ("quad", "hex")
        p = exact.rand_poly(rng, dim, deg, per_direction=tensor and rng.random() < 0.5)
        # integration order: the degree of the integrand on the cell (plus the Jacobian's on non-affine cells)
        pdeg = max((max(k) for k in p.t), default=0) if tensor else p.degree()
        if kind == "wedge" or general:
            # on a multilinear (non-affine) cell the pulled-back integrand has, per direction, up to the TOTAL
            # degree of p, plus the degree of the Jacobian determinant
            pdeg = p.degree()
        order = pdeg + (dim if (general or kind == "wedge") else 0)
        e = m.elem()
        descr = {"mesh": meshes.mesh_descr(m), "info": info, "poly": repr(p), "order": order}
        ctx.count("mesh:" + kind + ("(general)" if general else ""))
        ctx.case({"t": m.t.tolist(), "p": m.p.tolist(), "poly": repr(p), "kind": "functional"},
                 nontrivial=m.nelements >= 2, sample={"info": info, "poly": repr(p), "order": order} if it < 2 else None)
        f = exact.poly_callable(p)
        try:
            basis = Basis(m, e, intorder=order)
            val = Functional(lambda w: f(w.x)).assemble(basis)
            ex = exact.mesh_integral(m, p)
            if abs(val - float(ex)) > 1e-11 * max(1.0, abs(float(ex))):
                ctx.violation("functional of a polynomial differs from its exact integral over the mesh",
                              dict(descr, got=float(val), exact=qstr(ex)), {"what": "functional-cells", "cls": kind})
            # subdomain
            k = rng.randint(1, m.nelements)
            sub = sorted(rng.sample(range(m.nelements), k))
            bs = Basis(m, e, intorder=order, elements=np.array(sub, dtype=np.int32))
            val = Functional(lambda w: f(w.x)).assemble(bs)
            ex = exact.mesh_integral(m, p, sub)
            if abs(val - float(ex)) > 1e-11 * max(1.0, abs(float(ex))):
                ctx.violation("functional over a cell subset differs from the exact integral over that subdomain",
                              dict(descr, cells=sub, got=float(val), exact=qstr(ex)),
                              {"what": "functional-subdomain", "cls": kind})
            # further subsets on the SAME mesh object (the mapping is cached on the mesh): same length, same first
            # and last cell, different interior; and an unsorted, contiguous-looking ordering
            if m.nelements >= 4:
                for rep in range(2):
                    srt = sorted(rng.sample(range(m.nelements), rng.randint(3, min(m.nelements, 6))))
                    mid = [c for c in range(srt[0] + 1, srt[-1]) if c not in srt]
                    alt = list(srt)
                    if mid and len(srt) > 2:
                        alt[rng.randrange(1, len(srt) - 1)] = rng.choice(mid)
                    for sub2 in (srt, sorted(set(alt))):
                        order2 = list(sub2)
                        if rep == 1:
                            rng.shuffle(order2)
                        bs2 = Basis(m, e, intorder=order, elements=np.array(order2, dtype=np.int32))
                        val = Functional(lambda w: f(w.x)).assemble(bs2)
                        ex = exact.mesh_integral(m, p, sub2)
                        if abs(val - float(ex)) > 1e-11 * max(1.0, abs(float(ex))):
                            ctx.violation("functional over a cell subset differs from the exact integral (several "
                                          "subsets on one mesh object)", dict(descr, cells=order2, got=float(val),
                                                                             exact=qstr(ex)),
                                          {"what": "functional-subdomain", "cls": kind})
                ctx.count("subset-sequences-on-one-mesh")
            # copies made by the library AFTER the mesh has been integrated on (its mapping and tables are cached
            # on the mesh object): translated / scaled / mirrored / tagged copies integrate over THEIR geometry
            if rng.random() < 0.5:
                dimm = m.p.shape[0]
                how = rng.choice(["translated", "scaled", "mirrored", "with_subdomains+translated"])
                if how == "translated":
                    m2 = m.translated(tuple(rng.randint(-8, 8) / 4 for _ in range(dimm)))
                elif how == "scaled":
                    m2 = m.scaled(tuple(rng.choice([0.5, 2.0, 1.5, 0.25]) for _ in range(dimm)))
                elif how == "mirrored":
                    nrm = [0.0] * dimm
                    nrm[rng.randrange(dimm)] = 1.0
                    m2 = m.mirrored(tuple(nrm), tuple(rng.randint(-4, 4) / 4 for _ in range(dimm)))
                else:
                    m2 = m.with_subdomains({"s": np.array([0], dtype=np.int32)}).translated(
                        tuple(rng.randint(1, 8) / 4 for _ in range(dimm)))
                val2 = Functional(lambda w: f(w.x)).assemble(Basis(m2, m2.elem(), intorder=order))
                ex2 = exact.mesh_integral(m2, p)
                ctx.count("library-copy-after-integration:" + how)
                if abs(val2 - float(ex2)) > 1e-11 * max(1.0, abs(float(ex2))):
                    ctx.violation("functional on a copy of the mesh made by " + how + " (after integrating on the "
                                  "original) differs from the exact integral over the copy",
                                  dict(descr, copy=how, copy_mesh=meshes.mesh_descr(m2), got=float(val2), exact=qstr(ex2)),
                                  {"what": "functional-copy", "cls": kind, "how": how.split("+")[-1]})
            # a user supplied quadrature rule whose points are INTEGERS (vertex rule): same result as with floats
            if kind in ("quad", "hex", "tri", "tet", "line") and rng.random() < 0.3:
                Xv = np.array(m.elem.refdom.p if hasattr(m.elem, "refdom") else e.refdom.p)
                Xi = np.rint(Xv).astype(rng.choice([np.int32, np.int64]))
                if np.array_equal(Xi, Xv):
                    Wv = np.full(Xi.shape[1], 1.0 / Xi.shape[1])
                    vi = Functional(lambda w: f(w.x)).assemble(Basis(m, e, quadrature=(Xi, Wv)))
                    vf = Functional(lambda w: f(w.x)).assemble(Basis(m, e, quadrature=(Xv.astype(np.float64), Wv)))
                    ctx.count("integer-typed-quadrature-points")
                    if abs(vi - vf) > 1e-12 * max(1.0, abs(vf)):
                        ctx.violation("a quadrature rule given with integer-typed points gives another result than "
                                      "the same rule with floating-point points",
                                      dict(descr, points=Xi.tolist(), int_points=float(vi), float_points=float(vf)),
                                      {"what": "integer-quadrature-points", "cls": kind})
            # dx bookkeeping vs the model (|det| * W) on affine cells
            if not general and kind != "wedge" and len(dxreqs) < 40:
                dets = [qstr(abs(exact.det_poly(*exact.ref_map(kind, exact.cell_vertices(m, kk))).constant()))
                        if exact.det_poly(*exact.ref_map(kind, exact.cell_vertices(m, kk))).is_const() else None
                        for kk in range(m.nelements)]
                if all(d is not None for d in dets):
                    dxreqs.append({"op": "c02.dx", "dets": dets, "W": [qstr(w) for w in basis.W.tolist()]})
                    dxpost.append((descr, basis.dx))
            # facets
            if kind != "wedge":
                nf = m.nfacets
                fs = sorted(rng.sample(range(nf), rng.randint(1, min(nf, 6))))
                if kind == "hex":
                    pass
                fb = FacetBasis(m, e, intorder=order + (1 if general else 0), facets=np.array(fs, dtype=np.int32))
                val = Functional(lambda w: f(w.x)).assemble(fb)
                ex = sum(exact.facet_integral(m, ff, p) for ff in fs)
                if abs(val - ex) > 1e-10 * max(1.0, abs(ex)):
                    ctx.violation("functional over a facet set differs from the exact facet integral",
                                  dict(descr, facets=fs, got=float(val), exact=ex),
                                  {"what": "functional-facets", "cls": kind})
                ctx.count("facet-sets")
        except Exception as ex:
            ctx.violation("integration raised " + exc_kind(ex), dict(descr, err=repr(ex)), {"what": "raise", "cls": kind})
            continue
        # invariance: renumbering + cell permutation + rigid motion + refinement
        try:
            p2, t2, _ = meshes.renumber(rng, m.p, m.t.astype(np.int64))
            t2, _ = meshes.permute_cells(rng, t2)
            m2 = type(m)(p2, t2.astype(np.int32))
            v1 = Functional(lambda w: f(w.x)).assemble(Basis(m, e, intorder=order))
            v2 = Functional(lambda w: f(w.x)).assemble(Basis(m2, e, intorder=order))
            if abs(v1 - v2) > 1e-11 * max(1.0, abs(v1)):
                ctx.violation("integral depends on vertex numbering / cell order", dict(descr, a=float(v1), b=float(v2)),
                              {"what": "numbering", "cls": kind})
            if kind != "wedge":
                mr = m.refined(1)
                v3 = Functional(lambda w: f(w.x)).assemble(Basis(mr, e, intorder=order))
                if abs(v1 - v3) > 1e-11 * max(1.0, abs(v1)):
                    ctx.violation("integral changes under refinement of the mesh", dict(descr, a=float(v1), b=float(v3)),
                                  {"what": "refinement", "cls": kind})
            # rigid motion: translation + coordinate reflection/permutation (exact in floating point)
            shift = np.array([rng.randint(-4, 4) / 2 for _ in range(dim)])[:, None]
            perm = list(range(dim))
            rng.shuffle(perm)
            sign = np.array([rng.choice([1, -1]) for _ in range(dim)])[:, None]
            pm = (m.p[perm] * sign) + shift
            mm = type(m)(pm, m.t)
            vol1 = Functional(lambda w: 1. + 0 * w.x[0]).assemble(Basis(m, e, intorder=max(order, 1)))
            vol2 = Functional(lambda w: 1. + 0 * w.x[0]).assemble(Basis(mm, e, intorder=max(order, 1)))
            if abs(vol1 - vol2) > 1e-11 * max(1.0, abs(vol1)):
                ctx.violation("measure changes under a rigid motion (mirrored cells)", dict(descr, a=float(vol1),
                                                                                           b=float(vol2)),
                              {"what": "rigid-motion", "cls": kind})
            ctx.count("invariance-checks")
        except Exception as ex:
            ctx.violation("invariance evaluation raised " + exc_kind(ex), dict(descr, err=repr(ex)),
                          {"what": "raise-invariance", "cls": kind})
    # -------- (2) Lagrange matrices vs exact rationals
    n2 = ctx.scale(50, 300)
    for it in range(n2):
        if ctx.time_left(0.85) < 0:
            break
        kind = rng.choice(list(LAGRANGE))
        ename = rng.choice(LAGRANGE[kind])
        m, info = affine_mesh(rng, kind)
        if m.nelements > 8:
            continue
        e = getattr(E, ename)()
        dim = m.dim()
        fdeg = rng.randint(0, 2)
        fpoly = exact.rand_poly(rng, dim, fdeg)
        f = exact.poly_callable(fpoly)
        descr = {"mesh": meshes.mesh_descr(m), "info": info, "element": ename, "f": repr(fpoly)}
        ctx.case({"t": m.t.tolist(), "p": m.p.tolist(), "element": ename, "kind": "matrices"},
                 nontrivial=m.nelements >= 2, sample={"info": info, "element": ename} if it < 1 else None)
        ctx.count("lagrange:" + ename)
        try:
            Mx, Kx, bx = exact_matrices(m, e, ename, fpoly)
            basis = Basis(m, e)         # default order 2 * maxdeg
            Mi = BilinearForm(lambda u, v, w: u * v).assemble(basis).toarray()
            Ki = BilinearForm(lambda u, v, w: sum(u.grad[a] * v.grad[a] for a in range(dim))).assemble(basis).toarray()
            bl = Basis(m, e, intorder=max(2 * e.maxdeg, e.maxdeg + fdeg + (dim if kind == "wedge" else 0)))
            bi = LinearForm(lambda v, w: f(w.x) * v).assemble(bl)
            if not rel_close(Mi, [[float(v) for v in row] for row in Mx]):
                ctx.violation("mass matrix of a Lagrange element differs from the exactly computed one", descr,
                              {"what": "mass", "element": ename})
            if not rel_close(Ki, [[float(v) for v in row] for row in Kx]):
                ctx.violation("stiffness matrix of a Lagrange element differs from the exactly computed one", descr,
                              {"what": "stiffness", "element": ename})
            if not rel_close(bi, [float(v) for v in bx]):
                ctx.violation("load vector of a Lagrange element differs from the exactly computed one", descr,
                              {"what": "load", "element": ename})
            if m.nelements >= 3:
                # the same on a cell subset given in arbitrary (unsorted, possibly contiguous-looking) order
                a0 = rng.randrange(m.nelements - 1)
                blk = list(range(a0, min(m.nelements, a0 + rng.randint(2, 5))))
                sub = blk if rng.random() < 0.5 else rng.sample(range(m.nelements), rng.randint(1, m.nelements))
                sub = list(sub)
                if len(sub) > 2:
                    mid = sub[1:-1]
                    rng.shuffle(mid)
                    sub = [sub[0]] + mid + [sub[-1]]
                Ms, Ks, bs_ = exact_matrices(m, e, ename, fpoly, cells=sub)
                bsub = Basis(m, e, elements=np.array(sub, dtype=np.int32))
                Msi = BilinearForm(lambda u, v, w: u * v).assemble(bsub).toarray()
                Ksi = BilinearForm(lambda u, v, w: sum(u.grad[a] * v.grad[a] for a in range(dim))).assemble(bsub).toarray()
                if not rel_close(Msi, [[float(v) for v in row] for row in Ms]) or \
                        not rel_close(Ksi, [[float(v) for v in row] for row in Ks]):
                    ctx.violation("mass/stiffness matrix assembled on a cell subset differs from the exact one",
                                  dict(descr, cells=sub), {"what": "subset-matrices", "element": ename})
                ctx.count("lagrange-on-subset")
        except Exception as ex:
            ctx.violation("exact-matrix comparison raised " + exc_kind(ex), dict(descr, err=repr(ex)),
                          {"what": "raise-matrices", "element": ename})
    # -------- (2b) facet mass / load ENTRIES of degree-one Lagrange elements against closed forms: on a straight
    # edge with end points a, b the traces are the 1-D hat functions (also on general quadrilaterals), on a
    # triangular face the 2-D ones: M_aa = |e|/3, M_ab = |e|/6, l_a = |e|/2;  M_aa = |f|/6, M_ab = |f|/12, l_a = |f|/3
    for it in range(ctx.scale(60, 500)):
        if ctx.time_left(0.9) < 0:
            break
        kind = rng.choice(["tri", "quad", "quad", "quad", "tet"])
        m, info = meshes.gen_first_order(rng, kind)
        if m.nelements > 24:
            continue
        if kind == "quad" and rng.random() < 0.5:
            # general convex quadrilaterals next to parallelograms: move SOME vertices a little
            pp = m.p.copy()
            for v in rng.sample(range(pp.shape[1]), max(1, pp.shape[1] // 3)):
                pp[:, v] += np.array([rng.randint(-2, 2), rng.randint(-2, 2)]) / 64
            m = type(m)(pp, m.t)
            info = dict(info, gen=str(info.get("gen")) + "+moved-vertices")
        ename = {"tri": "ElementTriP1", "quad": "ElementQuad1", "tet": "ElementTetP1"}[kind]
        e = getattr(E, ename)()
        allf = list(range(m.nfacets))
        which = rng.choice(["boundary", "subset", "interior-side0", "interior-side1"])
        bset = set(int(f) for f in m.boundary_facets())
        inter = [f for f in allf if f not in bset]
        if which.startswith("interior") and not inter:
            which = "boundary"
        if which == "boundary":
            Fset = [int(f) for f in m.boundary_facets()]
            if rng.random() < 0.5:
                Fset = sorted(rng.sample(Fset, rng.randint(1, len(Fset))))
        elif which == "subset":
            Fset = sorted(rng.sample([int(f) for f in m.boundary_facets()], 1) + rng.sample(allf, rng.randint(0, 3)))
            Fset = sorted(set(f for f in Fset if f in set(int(g) for g in m.boundary_facets())))
        else:
            Fset = sorted(rng.sample(inter, rng.randint(1, len(inter))))
        Fa = np.array(Fset, dtype=np.int64)
        descr = {"mesh": meshes.mesh_descr(m), "info": info, "element": ename, "facets": Fset, "which": which}
        try:
            from skfem import InteriorFacetBasis
            if which.startswith("interior"):
                fb = InteriorFacetBasis(m, e, facets=Fa, side=int(which[-1]), intorder=4)
            else:
                fb = FacetBasis(m, e, facets=Fa, intorder=4)
            Mf = BilinearForm(lambda u, v, w: u * v).assemble(fb).toarray()
            lf = LinearForm(lambda v, w: 1. * v).assemble(fb)
            nvert = m.p.shape[1]
            Mx, lx = np.zeros((nvert, nvert)), np.zeros(nvert)
            for f in Fset:
                vs = [int(v) for v in m.facets[:, f]]
                Pv = m.p[:, vs]
                if kind == "tet":
                    meas = 0.5 * float(np.linalg.norm(np.cross(Pv[:, 1] - Pv[:, 0], Pv[:, 2] - Pv[:, 0])))
                    dg, off, ld = meas / 6, meas / 12, meas / 3
                else:
                    meas = float(np.linalg.norm(Pv[:, 1] - Pv[:, 0]))
                    dg, off, ld = meas / 3, meas / 6, meas / 2
                for a in vs:
                    lx[a] += ld
                    for b_ in vs:
                        Mx[a, b_] += dg if a == b_ else off
            ctx.case({"t": m.t.tolist(), "p": m.p.tolist(), "facets": Fset, "kind": "facet-matrices", "which": which},
                     nontrivial=len(Fset) >= 2)
            ctx.count("facet-matrices:" + kind + ":" + which)
            sc = max(1.0, float(np.abs(Mx).max()))
            if np.abs(Mf - Mx).max() > 1e-11 * sc or np.abs(lf - lx).max() > 1e-11 * sc:
                ctx.violation("facet mass / load entries of a degree-one Lagrange element differ from the closed form "
                              "(|e|/3, |e|/6, |e|/2 per edge; |f|/6, |f|/12, |f|/3 per triangular face)",
                              dict(descr, mass_error=float(np.abs(Mf - Mx).max()), load_error=float(np.abs(lf - lx).max())),
                              {"what": "facet-matrices", "kind": kind, "which": which.split("-")[0]})
        except Exception as ex:
            ctx.violation("facet matrix comparison raised " + exc_kind(ex), dict(descr, err=repr(ex)),
                          {"what": "raise-facet-matrices", "element": ename})
    # -------- (2c) hexahedra whose faces are PLANAR but not parallelograms (frusta: the surface Jacobian varies over
    # the face although the face is flat): facet functionals of polynomials against an independent Gauss rule on
    # the planar quadrilateral; and integration orders beyond the simplex tables must be refused (or be exact)
    try:
        import skfem
        from numpy.polynomial.legendre import leggauss
        gx, gw = leggauss(8)
        gx, gw = (gx + 1) / 2, gw / 2
        for rep in range(ctx.scale(6, 40)):
            nz = rng.randint(1, 2)
            zs = [0.0] + sorted(rng.sample([0.5, 1.0, 1.5, 2.0], nz))
            sc = [1.0] + [rng.choice([0.5, 0.75, 1.25]) for _ in range(nz)]
            cx, cy = rng.randint(-2, 2) / 8, rng.randint(-2, 2) / 8
            base = skfem.MeshHex1.init_tensor(np.array([0., 1.]), np.array([0., 1.]), np.array(zs))
            pp = base.p.copy()
            for j in range(pp.shape[1]):
                k = zs.index(float(pp[2, j]))
                pp[0, j] = (pp[0, j] - 0.5) * sc[k] + 0.5 + cx * pp[2, j]
                pp[1, j] = (pp[1, j] - 0.5) * sc[k] + 0.5 + cy * pp[2, j]
            mh = skfem.MeshHex1(pp, base.t)
            deg = rng.randint(0, 2)
            pl = exact.rand_poly(rng, 3, deg)
            fpl = exact.poly_callable(pl)
            fb = FacetBasis(mh, skfem.ElementHex1(), intorder=deg + 4)
            vals = Functional(lambda w: fpl(w.x)).elemental(fb)
            ctx.case({"frustum": zs, "scales": sc, "shift": [cx, cy], "poly": repr(pl)}, nontrivial=True)
            ctx.count("planar-non-parallelogram-hex-faces")
            for q, f in enumerate(fb.find):
                V = mh.p[:, mh.facets[:, f]]                                    # 3 x 4, cyclic
                tot = 0.0
                for a, wa in zip(gx, gw):
                    for b_, wb in zip(gx, gw):
                        N = np.array([(1 - a) * (1 - b_), a * (1 - b_), a * b_, (1 - a) * b_])
                        dNa = np.array([-(1 - b_), (1 - b_), b_, -b_])
                        dNb = np.array([-(1 - a), -a, a, (1 - a)])
                        x = V @ N
                        tot += wa * wb * float(np.linalg.norm(np.cross(V @ dNa, V @ dNb))) * float(fpl(x[:, None])[0])
                if abs(vals[q] - tot) > 1e-11 * max(1.0, abs(tot)):
                    ctx.violation("functional over a planar, non-parallelogram face of a hexahedron differs from the "
                                  "integral over that face", {"mesh": meshes.mesh_descr(mh), "facet": int(f),
                                                              "poly": repr(pl), "got": float(vals[q]), "want": tot},
                                  {"what": "functional-facets", "cls": "hex-frustum"})
                    break
        for kind_, cls_, el_, orders in (("tri", skfem.MeshTri1, skfem.ElementTriP1, (20, 21, 25)),
                                        ("tet", skfem.MeshTet1, skfem.ElementTetP1, (9, 10, 12)),
                                        ("wedge", None, None, ())):
            if cls_ is None:
                continue
            mm = cls_()
            for o in orders:
                ctx.count("order-beyond-the-tables")
                try:
                    bb = Basis(mm, el_(), intorder=o)
                except NotImplementedError:
                    continue
                fz = (lambda w, o=o: w.x[-1] ** o)
                got = Functional(fz).assemble(bb)
                want = 1.0 / (o + 1) if True else None            # int over the unit square / cube of z^o (y^o)
                if abs(got - want) > 1e-12:
                    ctx.violation("an integration order beyond the quadrature tables is served by a rule that is not "
                                  "exact for that order", {"cell": kind_, "intorder": o, "monomial": "last coordinate ^ order",
                                                           "got": float(got), "want": want},
                                  {"what": "order-beyond-tables", "cls": kind_})
    except Exception as ex:
        ctx.violation("frustum / order checks raised " + exc_kind(ex), {"err": repr(ex)}, {"what": "raise-matrices"})
    # -------- (3) mass matrix of a partition-of-unity element sums to the measure
    for it in range(ctx.scale(100, 500)):
        if ctx.time_left(0.97) < 0:
            break
        ename = rng.choice(POU)
        e = getattr(E, ename)()
        kind = {"RefLine": "line", "RefTri": "tri", "RefQuad": "quad", "RefTet": "tet", "RefHex": "hex",
                "RefWedge": "wedge"}[e.refdom.__name__]
        m, info = meshes.gen_first_order(rng, kind)
        if m.nelements > 20:
            continue
        descr = {"mesh": meshes.mesh_descr(m), "info": info, "element": ename}
        ctx.case({"t": m.t.tolist(), "p": m.p.tolist(), "element": ename, "kind": "pou-mass"}, nontrivial=True)
        ctx.count("pou-mass")
        try:
            general = info.get("gen") == "tensor-jiggled"
            basis = Basis(m, e, intorder=2 * max(e.maxdeg, 1) + (m.dim() if general or kind == "wedge" else 0))
            Mi = BilinearForm(lambda u, v, w: u * v).assemble(basis)
            meas = float(exact.mesh_integral(m, P.const(1, m.dim())))
            if abs(Mi.sum() - meas) > 1e-11 * max(1.0, meas):
                ctx.violation("entries of the mass matrix of a partition-of-unity element do not sum to the measure",
                              dict(descr, got=float(Mi.sum()), measure=meas), {"what": "pou-mass", "element": ename})
            if kind != "wedge":
                fb = FacetBasis(m, e, intorder=2 * max(e.maxdeg, 1) + (1 if general else 0))
                Mb = BilinearForm(lambda u, v, w: u * v).assemble(fb)
                bm = sum(exact.facet_integral(m, int(ff), P.const(1, m.dim())) for ff in m.boundary_facets())
                if abs(Mb.sum() - bm) > 1e-10 * max(1.0, bm):
                    ctx.violation("entries of the boundary mass matrix do not sum to the boundary measure",
                                  dict(descr, got=float(Mb.sum()), measure=bm), {"what": "pou-bmass", "element": ename})
        except Exception as ex:
            ctx.violation("mass-sum evaluation raised " + exc_kind(ex), dict(descr, err=repr(ex)),
                          {"what": "raise-pou", "element": ename})
    # -------- correspondence: dx = |det| * W
    if ctx.driver.available():
        if dxreqs:
            outs = ctx.driver.run(dxreqs)
            for (descr, dx), out in zip(dxpost, outs):
                ok = isinstance(out, list) and rel_close(dx, [[float(v) for v in row] for row in unq(out)], 1e-12)
                ctx.corr("basis.dx.cell", ok, descr, "model |det| * W", "implementation dx")
    else:
        ctx.broken.append({"kind": "driver-missing"})
    if ctx.tier == "thorough" and not getattr(ctx, "no_lean", False):
        ctx.leanchecker(["SkfemVerif.Props.C02"])
