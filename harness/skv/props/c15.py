"""C15  No hidden state: history-independent results, operands never mutated."""
from __future__ import annotations

import random
from unittest import mock

import numpy as np

from ..core import exc_kind, jsonable, log
from ..gens import cache as gencache
from .. import c15hist, c15pool
from ..c15pool import arr_to_json

KIND_CODE = {"i": 0, "u": 1, "f": 2, "b": 3, "c": 4}


# --------------------------------------------------------------------------- model encoding

def np_json(a):
    """array -> model NpArr (items as bit patterns in C order)"""
    if a is None:
        return None
    a = np.asarray(a)
    c = np.ascontiguousarray(a)
    w = c.dtype.itemsize
    if c.dtype.kind == "c":
        raise ValueError("complex not modelled")
    bits = c.reshape(-1).view({1: np.uint8, 2: np.uint16, 4: np.uint32, 8: np.uint64}[w])
    return {"kind": KIND_CODE[c.dtype.kind], "width": w, "shape": list(a.shape), "vals": [int(v) for v in bits]}


def arg_json(obj=0, ints=(), arrs=()):
    return {"obj": int(obj), "ints": [int(i) for i in ints], "arrs": [np_json(a) for a in arrs]}


DTYPES = [np.int8, np.int16, np.int32, np.int64, np.uint8, np.uint16, np.uint32, np.uint64, np.float32,
          np.float64, np.bool_]


def rand_array(rng, dtype=None, shape=None):
    dtype = np.dtype(dtype or rng.choice(DTYPES))
    if shape is None:
        nd = rng.choice([0, 1, 1, 1, 2, 2, 3])
        shape = tuple(rng.randint(0, 3) if rng.random() < 0.15 else rng.randint(1, 4) for _ in range(nd))
    n = int(np.prod(shape)) if shape else 1
    if dtype.kind == "b":
        v = [rng.random() < 0.5 for _ in range(n)]
    elif dtype.kind == "f":
        v = [rng.choice([0.0, 1.0, 0.5, -2.25, 1e-3, 3.0]) if rng.random() < 0.5 else rng.randint(-64, 64) / 16
             for _ in range(n)]
    else:
        lo = 0 if dtype.kind == "u" else -3
        v = [rng.choice([0, 0, 1, 1, 2, 255, 256, 65535]) if rng.random() < 0.6 else rng.randint(lo, 9)
             for _ in range(n)]
        info = np.iinfo(dtype)
        v = [min(max(x, info.min), info.max) for x in v]
    return np.array(v, dtype=dtype).reshape(shape)


def partner(rng, a):
    """an array related to `a`: same bytes under another dtype/shape, equal copy, perturbed, unrelated"""
    r = rng.random()
    c = np.ascontiguousarray(a)
    try:
        if r < 0.25 and c.size:
            # reinterpret the same bytes with another item size
            cands = [d for d in DTYPES if (c.nbytes % np.dtype(d).itemsize) == 0 and np.dtype(d) != c.dtype]
            d = rng.choice(cands)
            return np.frombuffer(c.tobytes(), dtype=d).copy()
        if r < 0.4:
            n = c.size
            shapes = [(n,), (1, n), (n, 1)] + ([(2, n // 2)] if n % 2 == 0 and n else [])
            return c.reshape(rng.choice(shapes)).copy()
        if r < 0.5:
            return c.copy()
        if r < 0.6 and c.size and c.ndim >= 1:
            return np.asfortranarray(c.T).T if c.ndim > 1 else c[::1]
        if r < 0.75 and c.size:
            b = c.copy()
            idx = rng.randrange(b.size)
            flat = b.reshape(-1)
            flat[idx] = (not flat[idx]) if b.dtype.kind == "b" else flat[idx] + 1
            return b
        if r < 0.8:
            return np.zeros((0,) * rng.randint(1, 2) + ((3,) if rng.random() < 0.5 else ()), dtype=c.dtype)
    except Exception:
        pass
    return rand_array(rng)


# --------------------------------------------------------------------------- correspondence

def corr_keys(ctx, gen):
    """cache.key: tobytes vs the model serialisation; hash_args equality vs the model key equality of the
    guard kind lifted from the source; ElementLinePp / ElementQuadP hit-or-miss vs their lifted guards"""
    from skfem.generic_utils import hash_args
    from skfem.element import ElementLinePp, ElementQuadP
    rng = ctx.rng
    hk = gen["hash_kind"] or "bytes"
    n = ctx.scale(250, 2500)
    pairs = []
    w64, w32 = np.array([1], dtype=np.int64), np.array([1, 0], dtype=np.int32)
    pairs.append((w64, w32))
    pairs.append((np.zeros((0,), dtype=np.int32), np.zeros((0, 3), dtype=np.int32)))
    for _ in range(n):
        a = rand_array(rng)
        pairs.append((a, partner(rng, a)))
    reqs = [{"op": "cache.key", "a": arg_json(arrs=[a]), "b": arg_json(arrs=[b])} for a, b in pairs]
    out = ctx.driver.run(reqs)
    for (a, b), o in zip(pairs, out):
        inp = {"a": arr_to_json(a), "b": arr_to_json(b)}
        ctx.corr("cache.key/tobytes", o.get("bytes_a") == [list(a.tobytes())] and
                 o.get("bytes_b") == [list(b.tobytes())] and o.get("valid") is True, inp, o, None)
        impl = hash_args(a) == hash_args(b)
        ctx.corr("cache.key/hash_args", o.get(hk) == impl, inp, {hk: o.get(hk)}, impl)
        ctx.count("key-pair:" + ("equal-bytes" if a.tobytes() == b.tobytes() else "other"))
    # scalar / None arguments of hash_args
    for _ in range(ctx.scale(40, 200)):
        i1, i2 = rng.randint(0, 2), rng.randint(0, 2)
        t1 = rng.choice([None, np.array([1], dtype=np.int64), np.array([1, 0], dtype=np.int32)])
        t2 = rng.choice([None, np.array([1], dtype=np.int64), np.array([1, 0], dtype=np.int32)])
        o = ctx.driver.run([{"op": "cache.key", "a": arg_json(0, [i1], [t1]), "b": arg_json(0, [i2], [t2])}])[0]
        impl = hash_args(i1, t1) == hash_args(i2, t2)
        ctx.corr("cache.key/hash_args", o.get(hk) == impl, {"i": [i1, i2], "t": [repr(t1), repr(t2)]}, o.get(hk),
                 impl)
    # point-set guards of the Legendre elements
    site = {s["name"].split(":")[0]: s for s in gen["sites"]}
    for cls, nm, dim in ((ElementLinePp, "ElementLinePp.lbasis", 1), (ElementQuadP, "ElementQuadP.lbasis", 2)):
        s = site.get(nm)
        if s is None:
            if nm in gen.get("stateless", []):
                ctx.count("stateless-anchor:" + nm)     # the cache was removed altogether: nothing to tie
            else:
                ctx.corr("cache.key/" + nm, False, None, "site not found in the live source", None)
            continue
        reqs, obs = [], []
        for _ in range(ctx.scale(60, 400)):
            npts = rng.randint(1, 4)
            X1 = np.array([[rng.randint(1, 15) / 16 for _ in range(npts)] for _ in range(dim)])
            r = rng.random()
            if r < 0.3:
                X2 = X1.copy()
            elif r < 0.6:
                X2 = X1.copy()
                X2[rng.randrange(dim), rng.randrange(npts)] += 1 / 32
            elif r < 0.8 and dim == 1:
                X2 = X1.reshape(1, 1, npts).copy()      # per-cell points, same values
            else:
                n2 = rng.randint(1, 4)
                X2 = np.array([[rng.randint(1, 15) / 16 for _ in range(n2)] for _ in range(dim)])
            e = cls(3)
            try:
                e.lbasis(X1, 0)
                tok = id(e.P) if dim == 1 else id(e.Px)
                keep = (getattr(e, "P", None), getattr(e, "Px", None))  # noqa: keep the objects alive
                e.lbasis(X2, 0)
                hit = (id(e.P) if dim == 1 else id(e.Px)) == tok
            except Exception as ex:
                ctx.count("lbasis-raises:" + exc_kind(ex))
                continue
            reqs.append({"op": "cache.key", "a": arg_json(arrs=[X1]), "b": arg_json(arrs=[X2])})
            obs.append((X1, X2, hit))
        for (X1, X2, hit), o in zip(obs, ctx.driver.run(reqs)):
            ctx.corr("cache.key/" + nm, o.get(s["guard"]) == hit, {"X1": X1.tolist(), "X2": X2.tolist()},
                     {s["guard"]: o.get(s["guard"])}, hit)


def _served(objs):
    """served-from indices from the identities of the objects each call returned"""
    first, out = {}, []
    for k, o in enumerate(objs):
        out.append(first.setdefault(id(o), k))
    return out


def corr_trace(ctx, gen):
    """cache.trace: which earlier call serves each call of a history (by object identity)"""
    from skfem import MeshQuad, MeshTri, MeshHex
    from skfem.mapping import MappingIsoparametric
    from skfem.element import ElementLinePp, ElementQuadP, ElementTriMorley, ElementQuadBFS
    rng = ctx.rng
    sites = {s["name"]: s for s in gen["sites"]}
    byfn = {s["name"].split(":")[0] + (":h" if s["name"].endswith("[h]") else ""): s for s in gen["sites"]}

    def model(site, calls):
        return ctx.driver.run([{"op": "cache.trace", "guard": site["guard"], "policy": site["policy"],
                                "calls": calls}])[0]

    # (a) MappingIsoparametric.J
    s = byfn.get("MappingIsoparametric.J:h")
    if s is None:
        if "MappingIsoparametric.J" not in gen.get("stateless", []):
            ctx.corr("cache.trace/J", False, None, "site not found", None)
    else:
        for it in range(ctx.scale(25, 200)):
            m = rng.choice([MeshQuad().refined(1), MeshTri().refined(1), MeshHex().refined(1)])
            mp = MappingIsoparametric(m, m.elem(), m.bndelem)
            dim = m.dim()
            Xs = [np.array([[rng.randint(1, 15) / 16 for _ in range(n)] for _ in range(dim)]) for n in (2, 2, 3)]
            Xs.append(Xs[0].copy())
            ts = [None, np.array([1], dtype=np.int64), np.array([1, 0], dtype=np.int32),
                  np.array([1], dtype=np.int32), np.array([2, 1], dtype=np.int32), np.array([1, 0], dtype=np.int64)]
            calls, objs = [], []
            for _ in range(rng.randint(4, 10)):
                i, j, X, t = rng.randrange(dim), rng.randrange(dim), rng.choice(Xs), rng.choice(ts)
                objs.append(mp.J(i, j, X, t))
                calls.append(arg_json(0, [i, j], [X, t]))
            ctx.corr("cache.trace/J", model(s, calls) == _served(objs), calls, None, _served(objs))
    # (b) Legendre elements
    for cls, nm, dim in ((ElementLinePp, "ElementLinePp.lbasis", 1), (ElementQuadP, "ElementQuadP.lbasis", 2)):
        s = byfn.get(nm)
        if s is None:
            continue
        for it in range(ctx.scale(25, 200)):
            e = cls(rng.randint(1, 4))
            Xs = [np.array([[rng.randint(1, 15) / 16 for _ in range(n)] for _ in range(dim)]) for n in (3, 3, 2)]
            Xs.append(Xs[1].copy())
            calls, objs = [], []
            for _ in range(rng.randint(3, 8)):
                X = rng.choice(Xs)
                e.lbasis(X, rng.randrange(2))
                objs.append(e.P if dim == 1 else e.Px)
                calls.append(arg_json(0, [], [X]))
            ctx.corr("cache.trace/" + nm, model(s, calls) == _served(objs), calls, None, _served(objs))
    # (c) ElementGlobal.V over several mesh objects (two of them EQUAL in value but distinct objects)
    s = byfn.get("ElementGlobal.gbasis")
    if s is None:
        if "ElementGlobal.gbasis" not in gen.get("stateless", []):
            ctx.corr("cache.trace/ElementGlobal.gbasis", False, None, "site not found", None)
    else:
        for it in range(ctx.scale(6, 40)):
            if rng.random() < 0.5:
                base, e = MeshTri().refined(1), ElementTriMorley()
            else:
                base, e = MeshQuad().refined(1), ElementQuadBFS()
            ms = [base, base.translated((0.5,) * 2), base.copy(), base.scaled((2.0, 0.5))]
            X = np.array([[0.25, 0.5], [0.25, 0.125]])
            calls, objs = [], []
            for _ in range(rng.randint(3, 6)):
                k = rng.randrange(len(ms))
                try:
                    e.gbasis(ms[k].mapping(), X, 0, tind=np.array([0, 1], dtype=np.int32))
                except Exception as ex:
                    ctx.count("gbasis-raises:" + exc_kind(ex))
                    break
                objs.append(e.V)
                calls.append(arg_json(k + 1, [], []))
            if calls:
                ctx.corr("cache.trace/ElementGlobal.gbasis", model(s, calls) == _served(objs), calls, None,
                         _served(objs))
    # (d) set-once attributes (unit guard): repeated access returns the object computed first
    from skfem import MeshTet, Basis, FacetBasis, ElementTriP1, ElementTriP2
    from skfem.mapping import MappingAffine
    probes = []
    mt, mq, m3 = MeshTri().refined(1), MeshQuad().refined(1), MeshTet()
    for a in ("dofs", "facets", "t2f", "f2t", "edges", "t2e", "f2e"):
        probes.append(("Mesh." + a, lambda a=a: getattr(m3, a)))
    probes.append(("Mesh._mapping", lambda: mq._mapping()))
    ma = MappingAffine(mt)
    for a in ("A", "b", "detA", "invA", "B", "c", "detB"):
        probes.append(("MappingAffine." + a, lambda a=a: getattr(ma, a)))
    cb, fb = Basis(mt, ElementTriP1(), intorder=3), FacetBasis(mt, ElementTriP1())
    comp = cb * Basis(mt, ElementTriP2(), intorder=3)
    probes += [("AbstractBasis.element_dofs", lambda: Basis(mt, ElementTriP1(), elements=[0, 1]).element_dofs is None
                or cb.element_dofs),
               ("CellBasis.global_coordinates", lambda: cb.global_coordinates()),
               ("CellBasis.mesh_parameters", lambda: cb.mesh_parameters()),
               ("FacetBasis.global_coordinates", lambda: fb.global_coordinates()),
               ("FacetBasis.mesh_parameters", lambda: fb.mesh_parameters()),
               ("CompositeBasis.element_dofs", lambda: comp.element_dofs),
               ("CompositeBasis.basis", lambda: comp.basis)]
    mt.element_finder()
    m3.element_finder()
    probes += [("MeshTri1.element_finder", lambda: (mt.element_finder(), mt._cached_tree)[1]),
               ("MeshTet1.element_finder", lambda: (m3.element_finder(), m3._cached_tree)[1])]
    for nm, get in probes:
        s = byfn.get(nm)
        if s is None:
            # a set-once attribute that is no longer cached is a harmless rewrite; the anchors are pinned by
            # C15_anchor_sites_present
            ctx.count("set-once-site-absent:" + nm)
            continue
        try:
            objs = [get() for _ in range(3)]
        except Exception as ex:
            ctx.corr("cache.trace/set-once", False, nm, None, repr(ex))
            continue
        ctx.corr("cache.trace/set-once", model(s, [arg_json()] * 3) == _served(objs), nm, None, _served(objs))


def corr_closure(ctx, gen):
    """cache.closure: the keyword dictionary handed to the backend by a history of solves (spy backend) and
    the captured dictionary afterwards (read from the closure cell)"""
    import scipy.sparse as sp
    import scipy.sparse.linalg as spl
    import skfem.utils as U
    rng = ctx.rng
    closures = {c["name"]: c for c in gen["closures"]}
    keys = ["rtol", "atol", "maxiter", "M", "x0", "k", "sigma", "which", "tol", "maxiters"]

    def enc(v):
        if sp.issparse(v) or isinstance(v, spl.LinearOperator):
            return -(v.shape[0] + 1)
        return int(v)

    def rand_kw(allow_m=True):
        ks = rng.sample([k for k in keys if allow_m or k != "M"], rng.randint(0, 3))
        return {k: rng.randint(0, 9) for k in ks}

    for name, c in closures.items():
        for it in range(ctx.scale(12, 100)):
            is_eig = "eigen" in name
            kw0 = rand_kw(allow_m=not is_eig)
            seen = []

            def spy(A, b=None, **kw):
                kw.pop("callback", None)
                if is_eig:
                    kw.pop("M", None)
                    kw.pop("mode", None)
                seen.append({k: enc(v) for k, v in kw.items()})
                if is_eig:
                    return np.zeros(1), np.zeros((A.shape[0], 1))
                if name in ("solver_iter_krylov", "solver_iter_pcg"):
                    return np.zeros(A.shape[0]), 0
                return np.zeros(A.shape[0])

            calls = [(rng.randint(2, 6), rand_kw(allow_m=not is_eig)) for _ in range(rng.randint(1, 5))]
            try:
                if name in ("solver_iter_krylov", "solver_iter_pcg"):
                    solver = getattr(U, name)(krylov=spy, **kw0)
                    cap0 = dict(kw0)
                    for (n, kw) in calls:
                        solver(sp.identity(n, format="csr") * 2.0, np.ones(n), **kw)
                elif name == "solver_direct_scipy":
                    solver = U.solver_direct_scipy(**kw0)
                    cap0 = dict(kw0)
                    with mock.patch.object(spl, "spsolve", spy):
                        for (n, kw) in calls:
                            solver(sp.identity(n, format="csr"), np.ones(n), **kw)
                elif is_eig:
                    solver = getattr(U, name)(**kw0)
                    cap0 = {"sigma": 10, "k": 5, **({"mode": "normal"} if name.endswith("sym") else {}), **kw0}
                    target = "eigsh" if name.endswith("sym") else "eigs"
                    with mock.patch.object(spl, target, spy):
                        for (n, kw) in calls:
                            solver(sp.identity(n, format="csr"), sp.identity(n, format="csr"), **kw)
                    for d in seen:
                        d.pop("mode", None)
                    cap0.pop("mode", None)
                elif name == "solver_iter_cg":
                    for dd in [kw0] + [kw for (_, kw) in calls]:
                        if "maxiters" in dd:
                            dd["maxiters"] = max(1, dd["maxiters"])
                    solver = U.solver_iter_cg(**kw0)
                    cap0 = dict(kw0)
                    for (n, kw) in calls:
                        kw.pop("x0", None)
                        solver(sp.identity(n, format="csr"), np.ones(n), **kw)
                    seen = None
                else:
                    continue
            except Exception as ex:
                ctx.corr("cache.closure/" + name, False, {"kw0": kw0, "calls": calls}, None, repr(ex))
                continue
            req = {"op": "cache.closure", "kind": c["kind"], "needsM": bool(c["needsM"]),
                   "cap": [[k, v] for k, v in cap0.items()],
                   "calls": [{"A": n, "kw": [[k, v] for k, v in kw.items()]} for (n, kw) in calls]}
            o = ctx.driver.run([req])[0]
            # captured dictionary after the history, read from the closure cells
            cells = {}
            for nm, cell in zip(solver.__code__.co_freevars, solver.__closure__ or ()):
                if nm in ("kwargs", "params") and isinstance(cell.cell_contents, dict):
                    cells = {k: enc(v) for k, v in cell.cell_contents.items() if k != "mode"}
            agree = dict(map(tuple, o["cap"])) == cells
            if seen is not None:
                agree = agree and [dict(map(tuple, x)) for x in o["out"]] == seen
            ctx.corr("cache.closure/" + name, agree, req, o, {"seen": seen, "captured": cells})


# --------------------------------------------------------------------------- search: witnesses + histories

def witnesses(ctx):
    """the Lean witnesses of the unsound key kinds, replayed on the implementation as fixed two-step
    histories (pool object vs fresh object)"""
    for grp in (_w_legendre, _w_global, _w_hash, _w_solvers, _w_twins, _w_constructors, _w_shared_mapping,
                _w_repeat, _w_finder_ties, _w_matrix_rhs):
        try:
            grp(ctx)
        except Exception as ex:
            import traceback
            ctx.violation(f"witness history {grp.__name__}: the set-up calls raised {ex!r:.200}",
                          {"group": grp.__name__, "traceback": traceback.format_exc()[-1200:]},
                          {"what": "raise", "witness": grp.__name__})


def _check(ctx, name, sig, pool_fn, fresh_fn, replay):
    try:
        rp = pool_fn()
        ep = None
    except Exception as ex:
        rp, ep = None, ex
    try:
        rf = fresh_fn()
        ef = None
    except Exception as ex:
        rf, ef = None, ex
    shown = ctx.__dict__.setdefault("_shown_witness", set())
    ctx.case({"witness": name, "input": replay}, nontrivial=True,
             sample={"witness": name, "input": replay} if sig in ("global-V", "solver-captured") and sig not in shown
             else None)
    shown.add(sig)
    ctx.count("witness")
    seen = ctx.__dict__.setdefault("_seen_witness", set())

    def report(what, signature):
        # one replay per defect class (the first failing instance); further instances are only counted
        ctx.count("witness-fails:" + sig)
        if sig not in seen:
            seen.add(sig)
            ctx.violation(what, replay, signature)

    if ep is not None or ef is not None:
        if (exc_kind(ep) if ep else None) != (exc_kind(ef) if ef else None):
            report(f"{name}: reused object -> {ep!r:.160}; fresh object -> {ef!r:.160}",
                   {"what": "exception-differs", "witness": sig})
        return
    d = c15pool.differ(c15pool.canon(rp), c15pool.canon(rf))
    if d:
        report(f"{name}: reused object differs from fresh object: {d}",
               {"what": "history-dependent", "witness": sig})


def _w_legendre(ctx):
    from skfem import (MeshLine, MeshTri, MeshQuad, Basis, ElementLinePp, ElementTriMorley, ElementQuadP,
                       ElementQuadBFS, solve, condense)
    from skfem.mapping import MappingIsoparametric
    import skfem.utils as U
    from .. import c15ops

    def check(*a):
        return _check(ctx, *a)
    XA, XB = np.array([[0.125, 0.5, 0.875]]), np.array([[0.25, 0.375, 0.75]])
    for p in (1, 2, 3, 4):
        e = ElementLinePp(p)
        e.lbasis(XA, p)
        check("F8 ElementLinePp.lbasis at two point sets of equal size", "linepp-npoints",
              lambda: [np.array(v) for v in e.lbasis(XB, p)],
              lambda: [np.array(v) for v in ElementLinePp(p).lbasis(XB, p)],
              {"elem": f"ElementLinePp({p})", "X1": XA.tolist(), "X2": XB.tolist(), "i": p})
    # probes with as many points as quadrature nodes
    m = MeshLine(np.linspace(0, 1, 5))
    b = Basis(m, ElementLinePp(3), intorder=4)
    pts = np.array([[0.11, 0.37, 0.93]])[:, :b.X.shape[1]]
    check("F8 probes with as many points as quadrature nodes (ElementLinePp)", "linepp-npoints",
          lambda: b.probes(pts), lambda: Basis(MeshLine(np.linspace(0, 1, 5)), ElementLinePp(3),
                                               intorder=4).probes(pts),
          {"mesh": "MeshLine(linspace(0,1,5))", "elem": "ElementLinePp(3)", "intorder": 4, "points": pts.tolist()})
    XA2, XB2 = np.array([[0.125, 0.5], [0.25, 0.75]]), np.array([[0.25, 0.375], [0.5, 0.125]])
    eq = ElementQuadP(3)
    eq.lbasis(XA2, 5)
    check("ElementQuadP.lbasis at two point sets of equal size", "quadp",
          lambda: [np.array(v) for v in eq.lbasis(XB2, 5)],
          lambda: [np.array(v) for v in ElementQuadP(3).lbasis(XB2, 5)], {"elem": "ElementQuadP(3)"})


def _w_global(ctx):
    from skfem import (MeshLine, MeshTri, MeshQuad, Basis, ElementLinePp, ElementTriMorley, ElementQuadP,
                       ElementQuadBFS, solve, condense)
    from skfem.mapping import MappingIsoparametric
    import skfem.utils as U
    from .. import c15ops

    def check(*a):
        return _check(ctx, *a)
    for cls, mk in ((ElementTriMorley, MeshTri), (ElementQuadBFS, MeshQuad)):
        for second in ("refined", "scaled"):
            e = cls()
            m1 = mk().refined(1)
            m2 = m1.refined(1) if second == "refined" else m1.scaled((2.0, 3.0))
            Basis(m1, e)
            check(f"F9 {cls.__name__} object reused on a second mesh ({second})", "global-V",
                  lambda: Basis(m2, e), lambda: Basis(c15pool.clone_mesh(m2), cls()),
                  {"elem": cls.__name__, "mesh1": f"{mk.__name__}().refined(1)",
                   "mesh2": "mesh1." + ("refined(1)" if second == "refined" else "scaled((2., 3.))")})


def _w_hash(ctx):
    from skfem import (MeshLine, MeshTri, MeshQuad, Basis, ElementLinePp, ElementTriMorley, ElementQuadP,
                       ElementQuadBFS, solve, condense)
    from skfem.mapping import MappingIsoparametric
    import skfem.utils as U
    from .. import c15ops

    def check(*a):
        return _check(ctx, *a)
    for mk in (MeshQuad, MeshTri):
        m = mk().refined(1)
        mp = MappingIsoparametric(m, m.elem(), m.bndelem)
        X = np.array([[0.25, 0.5], [0.5, 0.25]])
        t1, t2 = np.array([1], dtype=np.int64), np.array([1, 0], dtype=np.int32)
        mp.DF(X, tind=t1)
        check("F11 MappingIsoparametric.DF with tind int64 [1] then int32 [1, 0]", "hash-bytes",
              lambda: mp.DF(X, tind=t2), lambda: MappingIsoparametric(m, m.elem(), m.bndelem).DF(X, tind=t2),
              {"mesh": f"{mk.__name__}().refined(1)", "X": X.tolist(), "tind1": "int64 [1]", "tind2": "int32 [1, 0]"})
        mp2 = MappingIsoparametric(m, m.elem(), m.bndelem)
        e1, e2 = np.zeros((0,), dtype=np.int32), np.zeros((0, 1), dtype=np.int32)


def _w_twins(ctx):
    """every element class of the pool: ONE element object used on a mesh and then on meshes of the same
    size (renumbered vertices + permuted cells; sheared) and of another size, against a fresh element
    object on a clone of that mesh; and the mpc system tuple solved twice"""
    import skfem
    from skfem import Basis
    from .. import elements as EL, meshes as M, c15ops
    rng = random.Random(f"C15twins:{ctx.seed}")
    cls = M.CLS
    for kind, elems in EL.pool().items():
        if ctx.tier == "quick":
            # the stateful element classes always, of the others a sample
            elems = [(n, f) for (n, f) in elems
                     if any(k in n for k in ("Pp", "QuadP", "Morley", "Argyris", "BFS", "Hermite"))] + \
                rng.sample(elems, min(3, len(elems)))
        ax, ay, az = np.array([0., 0.5, 1.25]), np.array([0., 0.75, 1.]), np.array([0., 1.])
        m1 = {"line": lambda: skfem.MeshLine1(np.array([[0., 0.5, 1.25, 2.]])),
              "tri": lambda: skfem.MeshTri1.init_tensor(ax, ay),
              "quad": lambda: skfem.MeshQuad1.init_tensor(ax, ay),
              "tet": lambda: skfem.MeshTet1.init_tensor(ax[:2], ay[:2], az),
              "hex": lambda: skfem.MeshHex1.init_tensor(ax, ay[:2], az),
              "wedge": lambda: skfem.MeshTri1.init_tensor(ax[:2], ay) * skfem.MeshLine(az)}[kind]()
        p2, t2, _ = M.renumber(rng, m1.p, m1.t)
        t2, _ = M.permute_cells(rng, t2)
        twin = cls[kind](p2, t2)
        if twin.nelements != m1.nelements:
            continue
        others = [("renumbered twin", twin), ("scaled", m1.scaled(tuple([0.5, 2.0, 1.5][:m1.p.shape[0]])))]
        if kind != "wedge":
            others.append(("refined", m1.refined(1)))
        import time
        for name, fac in elems:
            for how, m2 in others:
                e = fac()
                t0 = time.time()
                try:
                    Basis(m1, e)
                except Exception:
                    break
                slow = time.time() - t0 > 0.4
                if slow and how == "refined":
                    continue
                _check(ctx, f"{name} object used on a mesh and then on its {how}", "elem-reuse:" + how.split()[0],
                       lambda: c15pool.basis_value(Basis(m2, e)),
                       lambda: c15pool.basis_value(Basis(c15pool.clone_mesh(m2), fac())),
                       {"elem": name, "how": how, "cls": type(m1).__name__, "p1": m1.p.tolist(), "t1": m1.t.tolist(),
                        "p2": m2.p.tolist(), "t2": m2.t.tolist()})
    # the tuple returned by mpc kept and solved twice
    from skfem import MeshTri, ElementTriP1, solve
    from skfem.utils import mpc
    b = Basis(MeshTri().refined(2), ElementTriP1())
    A, f = c15ops.make_form("spd").assemble(b), c15ops.make_form("f").assemble(b)
    D = b.get_dofs().all()
    I = np.setdiff1d(np.arange(b.N), D)

    def twice():
        sysm = mpc(A, f, S=D, M=I[:1])
        x0 = sysm[2].copy()
        r1 = solve(*sysm)
        k1 = r1.copy()
        r2 = solve(*sysm)
        return {"first": k1, "first_after_second": r1, "second": r2, "x_before": x0, "x_after": sysm[2]}

    def once():
        x0 = mpc(A, f, S=D, M=I[:1])[2]
        r = solve(*mpc(A, f, S=D, M=I[:1]))
        return {"first": r, "first_after_second": r, "second": solve(*mpc(A, f, S=D, M=I[:1])), "x_before": x0,
                "x_after": x0}
    _check(ctx, "system tuple of mpc() solved twice", "mpc-twice", twice, once,
           {"mesh": "MeshTri().refined(2)", "elem": "ElementTriP1", "S": "boundary DOFs", "M": "first interior DOF"})


def _w_constructors(ctx):
    """the caller's arrays handed to a mesh constructor (already of the internal dtype and layout, so that no
    conversion copy protects them) and the meshes handed to from_mesh stay bit-for-bit unchanged, also after
    operations on the constructed mesh"""
    import skfem
    from .. import meshes as M
    rng = random.Random(f"C15ctor:{ctx.seed}")

    def snap(*arrs):
        return [(a.dtype.str, a.shape, a.tobytes()) for a in arrs]

    def report(what, replay):
        ctx.count("witness-fails:ctor")
        ctx.violation(what, replay, {"what": "operand-mutated", "op": "constructor"})
    for kind in ("line", "tri", "quad", "tet", "hex", "wedge"):
        for rep in range(2 if ctx.tier == "quick" else 8):
            m0, info = M.gen_first_order(rng, kind)
            p = np.ascontiguousarray(m0.p, dtype=np.float64).copy()
            t = np.ascontiguousarray(m0.t, dtype=np.int32).copy()
            if kind in ("tri", "tet", "line"):
                # columns NOT in ascending order (the triangle class sorts them)
                for k in range(t.shape[1]):
                    col = list(t[:, k])
                    rng.shuffle(col)
                    t[:, k] = col
                if kind == "tet":
                    t = np.ascontiguousarray(m0.t, dtype=np.int32).copy()   # (orientation matters for nothing here)
            before = snap(p, t)
            ctx.case({"witness": "constructor", "cls": type(m0).__name__, "t": t.tolist()}, nontrivial=True)
            ctx.count("witness")
            try:
                m = type(m0)(p, t)
                if snap(p, t) != before:
                    report(f"{type(m0).__name__}(p, t) modified the caller's arrays",
                           {"cls": type(m0).__name__, "p": np.frombuffer(before[0][2]).tolist(),
                            "t": np.frombuffer(before[1][2], dtype=np.int32).reshape(before[1][1]).tolist()})
                    continue
                m.facets, m.t2f, m.f2t, m.boundary_nodes()
                if kind != "wedge" and m.nelements <= 40:
                    m.refined(1)
                if kind in ("tri", "tet", "line"):
                    m.refined(np.array([0], dtype=np.int64))
                m.translated(tuple(0.5 for _ in range(m.dim()))), m.with_subdomains({"s": np.array([0])})
                if snap(p, t) != before:
                    report(f"operations on {type(m0).__name__}(p, t) modified the caller's arrays",
                           {"cls": type(m0).__name__, "t": np.frombuffer(before[1][2], dtype=np.int32)
                            .reshape(before[1][1]).tolist()})
            except Exception as ex:
                ctx.count("ctor:raises:" + exc_kind(ex))
    # from_mesh chains: the source mesh and the intermediate one stay unchanged
    for cls2, mk in ((skfem.MeshTri2, lambda: skfem.MeshTri.init_sqsymmetric().refined().oriented()),
                     (skfem.MeshTri2, lambda: skfem.MeshTri().refined(2)),
                     (skfem.MeshQuad2, lambda: skfem.MeshQuad().refined(1)),
                     (skfem.MeshTet2, lambda: skfem.MeshTet().refined(1)),
                     (skfem.MeshHex2, lambda: skfem.MeshHex().refined(1))):
        try:
            m = mk()
            m.facets, m.t2f
            M2 = cls2.from_mesh(m)
            before = snap(m.p, m.t, M2.p, M2.t)
            ctx.case({"witness": "from_mesh", "cls": cls2.__name__}, nontrivial=True)
            ctx.count("witness")
            M2.refined(1)
            M2.facets, M2.boundary_nodes()
            if snap(m.p, m.t, M2.p, M2.t) != before:
                report(f"{cls2.__name__}.from_mesh(m).refined() modified m or the second-order mesh",
                       {"cls": cls2.__name__, "source": type(m).__name__})
        except Exception as ex:
            ctx.count("from_mesh:raises:" + exc_kind(ex))


def _w_shared_mapping(ctx):
    """several bases built on ONE explicit mapping object (affine and isoparametric, every first-order class,
    the 1-D discontinuous mesh class): the second basis equals a basis on a fresh mapping"""
    import skfem
    from skfem import Basis, FacetBasis
    from skfem.mapping import MappingAffine, MappingIsoparametric
    from .. import meshes as M
    rng = random.Random(f"C15map:{ctx.seed}")
    E1 = {"line": skfem.ElementLineP1, "tri": skfem.ElementTriP1, "quad": skfem.ElementQuad1,
          "tet": skfem.ElementTetP1, "hex": skfem.ElementHex1, "wedge": skfem.ElementWedge1}
    E2 = {"line": skfem.ElementLineP2, "tri": skfem.ElementTriP2, "quad": skfem.ElementQuad2,
          "tet": skfem.ElementTetP2, "hex": skfem.ElementHex2, "wedge": skfem.ElementWedge1}
    meshes_ = [(k, M.gen_first_order(rng, k)[0]) for k in ("line", "line", "tri", "quad", "tet", "hex", "wedge")]
    try:
        meshes_.append(("line", skfem.MeshLine1DG.periodic(skfem.MeshLine().refined(2), [0], [4])))
    except Exception:
        pass
    for kind, m in meshes_:
        if m.nelements > 30:
            continue
        makers = [("default", lambda m=m: m._mapping()),
                  ("isoparametric", lambda m=m, kind=kind: MappingIsoparametric(m, E1[kind](), m.bndelem))]
        if kind in ("line", "tri", "tet") and type(m).__name__.endswith("1"):
            makers.append(("affine", lambda m=m: MappingAffine(m)))
        for mname, mk in makers:
            try:
                mp = mk()
            except Exception:
                continue
            seq = [("cell", lambda mp_: Basis(m, E2[kind](), mapping=mp_)),
                   ("cell again", lambda mp_: Basis(m, E2[kind](), mapping=mp_)),
                   ("cell, other element", lambda mp_: Basis(m, E1[kind](), mapping=mp_, intorder=4))]
            if kind != "wedge" and kind != "line":
                seq.append(("facet", lambda mp_: FacetBasis(m, E1[kind](), mapping=mp_)))
                seq.append(("facet again", lambda mp_: FacetBasis(m, E1[kind](), mapping=mp_)))
            seq.append(("cell, third time", lambda mp_: Basis(m, E2[kind](), mapping=mp_)))
            for label, build in seq:
                _check(ctx, f"{label} basis on a shared {mname} mapping object ({type(m).__name__})",
                       "shared-mapping:" + mname,
                       lambda: c15pool.basis_value(build(mp)), lambda: c15pool.basis_value(build(mk())),
                       {"cls": type(m).__name__, "mapping": mname, "step": label, "p": m.p.tolist(),
                        "t": m.t.tolist()})


def _w_repeat(ctx):
    """operations with internal tie-breaking / randomisation return the same result when repeated in one process
    (no hidden generator state): adaptive refinement of tetrahedral meshes with tied longest edges and others"""
    import skfem
    cases = [("MeshTet().refined([3])", lambda: skfem.MeshTet().refined(np.array([3]))),
             ("MeshTet().refined(1).refined([0, 5, 9, 17])",
              lambda: skfem.MeshTet().refined(1).refined(np.array([0, 5, 9, 17]))),
             ("MeshTet.init_tensor(...).refined([0, 1])",
              lambda: skfem.MeshTet.init_tensor(np.array([0., 1.]), np.array([0., 1.]), np.array([0., 1., 2.]))
              .refined(np.array([0, 1]))),
             ("MeshTri().refined(1).refined([0, 3])", lambda: skfem.MeshTri().refined(1).refined(np.array([0, 3]))),
             ("MeshTri.init_circle().smoothed()", lambda: skfem.MeshTri().refined(2).smoothed())]
    for name, fn in cases:
        first = c15pool.mesh_value(fn())
        for rep in range(2):
            _check(ctx, f"{name}: repetition {rep + 2} in the same process", "repeat",
                   lambda: c15pool.mesh_value(fn()), lambda: first, {"expression": name})


def _w_matrix_rhs(ctx):
    """enforce / condense / penalize with a sparse matrix as second operand (eigenproblems): both matrices keep
    their stored arrays bit for bit"""
    import skfem
    from skfem import Basis, condense, enforce, penalize
    from .. import c15ops
    b = Basis(skfem.MeshTri1().refined(2), skfem.ElementTriP1())
    K = c15ops.make_form("spd").assemble(b)
    Mm = c15ops.make_form("m").assemble(b)
    D = b.get_dofs().all()

    def arrays():
        return {"K.data": K.data.copy(), "K.indices": K.indices.copy(), "M.data": Mm.data.copy(),
                "M.indices": Mm.indices.copy(), "M.indptr": Mm.indptr.copy()}
    before = arrays()
    for name, fn in (("enforce(K, M, D=D)", lambda: enforce(K, Mm, D=D)), ("condense(K, M, D=D)", lambda: condense(K, Mm, D=D)),
                     ("penalize(K, M, D=D)", lambda: penalize(K, Mm, D=D))):
        def run_():
            fn()
            return arrays()
        _check(ctx, f"{name}: stored arrays of both matrices afterwards", "matrix-rhs-operands", run_, lambda: before,
               {"call": name, "mesh": "MeshTri().refined(2)", "element": "ElementTriP1"})


def _w_finder_ties(ctx):
    """points on shared facets / vertices: the cell the finder returns does not depend on earlier queries"""
    import skfem
    for mk, name in ((lambda: skfem.MeshTri1().refined(2), "MeshTri().refined(2)"),
                     (lambda: skfem.MeshQuad1().refined(2), "MeshQuad().refined(2)"),
                     (lambda: skfem.MeshTet1().refined(1), "MeshTet().refined(1)"),
                     (lambda: skfem.MeshLine1().refined(3), "MeshLine().refined(3)")):
        m = mk()
        nv = m.elem.refdom.nnodes
        rng = random.Random(f"C15ties:{ctx.seed}:{name}")
        for rep in range(6):
            # the earlier query is answered with the cells whose facets / vertices are asked next
            cells = [rng.randrange(m.nelements) for _ in range(rng.randint(1, 2))]
            warm = list(cells)
            def centre(mm, c):
                return mm.p[:, mm.t[:nv, c]].mean(axis=1)
            def tie_points(mm):
                out = []
                for c in cells:
                    vs = mm.p[:, mm.t[:nv, c]]
                    out += [vs[:, 0], (vs[:, 0] + vs[:, 1]) / 2]
                return np.array(out).T
            for c in warm:                    # earlier queries on the pool mesh
                m.element_finder()(*centre(m, c)[:, None])

            def asked():
                return m.element_finder()(*tie_points(m))

            def fresh():
                mf = mk()
                return mf.element_finder()(*tie_points(mf))
            _check(ctx, f"{name}: cells returned for points on shared facets / vertices after other queries",
                   "finder-ties", asked, fresh, {"mesh": name, "earlier_queries_in_cells": warm, "cells": cells})


def _w_solvers(ctx):
    from skfem import (MeshLine, MeshTri, MeshQuad, Basis, ElementLinePp, ElementTriMorley, ElementQuadP,
                       ElementQuadBFS, solve, condense)
    from skfem.mapping import MappingIsoparametric
    import skfem.utils as U
    from .. import c15ops

    def check(*a):
        return _check(ctx, *a)
    spd, load, mass = c15ops.make_form("spd"), c15ops.make_form("f"), c15ops.make_form("m")

    def system(n):
        from skfem import ElementTriP1
        bb = Basis(MeshTri().refined(n), ElementTriP1())
        return bb, spd.assemble(bb), load.assemble(bb), mass.assemble(bb)

    for fac in ("solver_iter_pcg", "solver_iter_krylov"):
        for n2 in (3, 2):
            s = getattr(U, fac)()
            b1, A1, f1, _ = system(2)
            b2, A2, f2, _ = system(n2)
            if n2 == 2:
                A2 = A2 + 50.0 * mass.assemble(b2)     # same size, different diagonal
            solve(*condense(A1, f1, D=b1.get_dofs()), solver=s)
            check(f"F10 {fac}() reused on a second system ({'larger' if n2 == 3 else 'same size'})",
                  "solver-captured",
                  lambda: solve(*condense(A2, f2, D=b2.get_dofs()), solver=s),
                  lambda: solve(*condense(A2, f2, D=b2.get_dofs()), solver=getattr(U, fac)()),
                  {"factory": fac, "system1": "laplace+mass on MeshTri().refined(2)",
                   "system2": f"MeshTri().refined({n2})"})
    for fac, kw in (("solver_eigen_scipy_sym", {"k": 3}), ("solver_eigen_scipy", {"k": 3}),
                    ("solver_iter_cg", {"maxiters": 1}), ("solver_direct_scipy", {"permc_spec": "NATURAL"})):
        s = getattr(U, fac)()
        b1, A1, f1, M1 = system(2)
        I = b1.complement_dofs(b1.get_dofs())
        if "eigen" in fac:
            solve(*condense(A1, M1, I=I), solver=s, **kw)
            check(f"F10 {fac}(): solve-time k=3 then default", "solver-captured",
                  lambda: np.sort(np.real(solve(*condense(A1, M1, I=I), solver=s)[0])).shape,
                  lambda: np.sort(np.real(solve(*condense(A1, M1, I=I), solver=getattr(U, fac)())[0])).shape,
                  {"factory": fac, "first": kw, "second": {}})
        else:
            solve(*condense(A1, f1, I=I), solver=s, **kw)
            if fac == "solver_direct_scipy":
                # observable only through the captured dictionary
                cell = [c.cell_contents for n_, c in zip(s.__code__.co_freevars, s.__closure__) if n_ == "kwargs"]
                check(f"F10 {fac}(): solve-time kwargs kept by the closure", "solver-captured",
                      lambda: dict(cell[0]) if cell else {}, lambda: {}, {"factory": fac, "first": kw})
            else:
                check(f"F10 {fac}(): solve-time maxiters=1 then default", "solver-captured",
                      lambda: solve(*condense(A1, f1, I=I), solver=s),
                      lambda: solve(*condense(A1, f1, I=I), solver=getattr(U, fac)()),
                      {"factory": fac, "first": kw, "second": {}})


def histories(ctx):
    nh = 0
    ctx._fresh_jobs, ctx._fresh_jobs_max = [], ctx.scale(25, 150)
    maxops = ctx.scale(40, 200)
    g0 = c15pool.global_checksum()
    state0 = np.random.get_state()[1][:4].tolist()
    while ctx.time_left(0.52) > 0 and nh < ctx.scale(60, 400):
        rng = random.Random(ctx.rng.getrandbits(64))
        h = c15hist.new_history(ctx, rng)
        nh += 1
        n = rng.randint(maxops // 2, maxops)
        fails = 0
        for _ in range(n):
            if ctx.time_left(0.56) < 0:
                break
            try:
                d = h.gen()
            except Exception as ex:      # generator problem, not a finding
                ctx.count("gen-error:" + exc_kind(ex))
                continue
            if d is None:
                continue
            v = h.run_op(d)
            if v:
                ctx.violation(v["what"], {"history": h.descr, "failing_op": d}, v["sig"])
                ctx.count("history-violation:" + v["sig"]["what"] + ":" + v["sig"].get("op", ""))
                log(f"[C15] history {nh} op {h.nops}: {v['what'][:220]}")
                fails += 1
                if fails >= 1:
                    break
        ctx.count("histories")
        ctx.count("history-length", h.nops)
        ctx.count("reused-element-objects", sum(1 for e in h.pool.elems if e["uses"] >= 2))
    g1 = c15pool.global_checksum()
    bad = [k for k in g0 if g0[k] != g1.get(k)]
    if bad:
        ctx.violation(f"class-level arrays modified during the histories: {bad[:5]}", {"changed": bad},
                      {"what": "global-array-mutated"})
    ctx.notes["numpy_global_rng_touched"] = bool(np.random.get_state()[1][:4].tolist() != state0)


def fresh_interpreter(ctx):
    """the clause 'computed first in a fresh interpreter': a sample of the operations of the histories is
    evaluated on freshly built objects in a NEW Python process and compared with the in-process results"""
    import os
    import pickle
    import subprocess
    import sys
    import tempfile
    jobs = getattr(ctx, "_fresh_jobs", [])
    if not jobs:
        return
    order = list(range(len(jobs)))
    ctx.rng.shuffle(order)
    with tempfile.TemporaryDirectory() as td:
        jf, of = os.path.join(td, "jobs.pkl"), os.path.join(td, "out.pkl")
        pickle.dump([(jobs[k][0], jobs[k][1]) for k in order], open(jf, "wb"))
        p = subprocess.run([sys.executable, "-m", "skv.c15child", jf, of], stdout=subprocess.PIPE,
                           stderr=subprocess.PIPE, timeout=600)
        if p.returncode != 0 or not os.path.exists(of):
            ctx.notes["fresh_interpreter"] = "child failed: " + p.stderr.decode()[-300:]
            return
        res = pickle.load(open(of, "rb"))
    for k, r in zip(order, res):
        snap, d, mine, label = jobs[k]
        ctx.case({"fresh-interpreter": k, "d": d}, nontrivial=True)
        ctx.count("fresh-interpreter-ops")
        if r[0] != "ok":
            ctx.violation(f"{label}: raises {r[1]} ({r[2]}) in a fresh interpreter but returned a result in the "
                          f"long-lived process", {"op": d, "pool": jsonable(snap)},
                          {"what": "fresh-interpreter-differs", "op": label})
            continue
        diff = c15pool.differ(r[1], mine, tol=d.get("tol"))
        if diff:
            ctx.violation(f"{label}: result in a fresh interpreter differs from the result on fresh objects in the "
                          f"long-lived process: {diff}", {"op": d, "pool": jsonable(snap)},
                          {"what": "fresh-interpreter-differs", "op": label})


def replay(ctx, rp):
    """re-execute a recorded failing history"""
    inp = rp.get("input", {})
    if "history" in inp:
        v = c15hist.rebuild(ctx, inp["history"])
        if v:
            ctx.violation(v["what"], inp, v["sig"])
    else:
        witnesses(ctx)


def run(ctx):
    ctx.rule = ("histories: random sequences of <= 40 (quick) / <= 200 (thorough) public-API operations over a "
                "SHARED pool (3-4 meshes of two reference domains incl. second order, element objects reused "
                "across meshes - ElementGlobal family, ElementLinePp/QuadP, wrappers -, default and explicit "
                "isoparametric/affine mappings, Cell/Facet/InteriorFacet/Composite bases, shared Form objects, six "
                "solver closures; point sets of equal size; cell subsets of different dtype/shape with equal "
                "bytes); every operation is replayed on freshly constructed equal objects and compared (integers "
                "bitwise, floats 1e-12 relative, sparse as dense, exception kind), operand arrays are checksummed "
                "before/after. distinct = (history, position, operation); non-trivial = the pool was warm and the "
                "operation returned a result. Plus the Lean witnesses (F8-F11) as fixed two-step histories.")
    ctx.trusted += ["Lean kernel; axioms propext/Classical.choice/Quot.sound",
                    "translator gens/cache.py (guard / view / closure kinds lifted from the live AST; unknown guards "
                    "are emitted as the unsound corner so the instance proof breaks); tied by the correspondence "
                    "ops cache.key / cache.trace / cache.closure on every run",
                    "CPython: hash() of a tuple (shape, dtype.str, bytes) is treated as injective (64-bit hash; "
                    "collisions not modelled)"]
    ctx.assumptions += ["purity of the cached computations (they read only the view named in the generated table) "
                        "is the hypothesis of C15_all_sites_transparent; the frame scan and the pool-vs-fresh "
                        "search support it, they do not prove it",
                        "numeric `!=` on float64 point arrays is modelled as inequality of the items (signed "
                        "zeros / NaN not modelled)",
                        "np.random.seed(1337) in tetrahedral bisection and to_meshio adding keys to the caller's "
                        "dict are outside the statement (recorded in evidence: numpy_global_rng_touched)"]
    gen = None
    try:
        changed, gen = gencache.generate()
        ctx.notes["generated_files_changed"] = bool(changed)
        ctx.notes["cache_sites"] = {s["name"]: [s["guard"], s["view"], s["policy"]] for s in gen["sites"]}
        ctx.notes["closure_sites"] = {c["name"]: c["kind"] for c in gen["closures"]}
        if gen["problems"]:
            ctx.broken.append({"kind": "translator", "what": gen["problems"][:10]})
    except Exception as ex:
        ctx.broken.append({"kind": "translator", "what": "cache guards could not be lifted", "err": repr(ex)})
    if not getattr(ctx, "no_lean", False):
        ctx.prove(["SkfemVerif.Props.C15"], ["SkfemVerif/Props/C15.lean"])
    if gen is not None and ctx.driver.available():
        for fn in (corr_keys, corr_trace, corr_closure):
            try:
                fn(ctx, gen)
            except Exception as ex:
                import traceback
                ctx.broken.append({"kind": "correspondence", "op": fn.__name__, "err": repr(ex),
                                   "tb": traceback.format_exc()[-1500:]})
    elif not ctx.driver.available():
        ctx.broken.append({"kind": "driver-missing"})
    witnesses(ctx)
    histories(ctx)
    fresh_interpreter(ctx)
    if ctx.tier == "thorough" and not getattr(ctx, "no_lean", False):
        ctx.leanchecker(["SkfemVerif.Props.C15"])
