"""C18  Mesh surgery keeps geometry valid and carries tags to the same entities.

Layers: (1) Lean proofs about the model `Model/Surgery.lean`; (2) exact correspondence of the
model functions (`surgery.*` driver ops) with `_reix`, `restrict` (vertex, cell, facet maps and
tags), `remove_elements`, `_remove_duplicate_nodes`, `+`, `@`, `to_meshtri`, `to_meshtet`,
extrusion; (3) failing-input search with an exact oracle (`fractions.Fraction`: every float is
a dyadic rational, so coordinates are compared exactly) on single operations and on random
compositions of 2-4 operations.
"""
import itertools
from fractions import Fraction as Fr

import numpy as np

from .. import meshes
from ..core import exc_kind

FIRST = meshes.FIRST_ORDER
FACT = {1: 1, 2: 2, 3: 6}


# ---------------------------------------------------------------------------------------------
# exact geometry

def fpt(col):
    return tuple(Fr(float(x)) for x in col)


def points(m):
    return [fpt(m.p[:, j]) for j in range(m.p.shape[1])]


def det(M):
    n = len(M)
    if n == 1:
        return M[0][0]
    if n == 2:
        return M[0][0] * M[1][1] - M[0][1] * M[1][0]
    return (M[0][0] * (M[1][1] * M[2][2] - M[1][2] * M[2][1])
            - M[0][1] * (M[1][0] * M[2][2] - M[1][2] * M[2][0])
            + M[0][2] * (M[1][0] * M[2][1] - M[1][1] * M[2][0]))


def signed_simplex(P):
    n = len(P) - 1
    return det([[P[i + 1][d] - P[0][d] for d in range(n)] for i in range(n)]) / FACT[n]


_HEX_TETS = None


def hex_tets():
    """Kuhn triangulation of the cube along the diagonal 000-111, in the local numbering of
    RefHex (independent of the template used by MeshHex1.to_meshtet, which uses vertices 3-4)"""
    global _HEX_TETS
    if _HEX_TETS is None:
        from skfem.refdom import RefHex
        at = {tuple(int(v) for v in RefHex.p[:, i]): i for i in range(8)}
        out = []
        for perm in itertools.permutations(range(3)):
            v = [0, 0, 0]
            path = [at[tuple(v)]]
            for d in perm:
                v[d] = 1
                path.append(at[tuple(v)])
            out.append(path)
        _HEX_TETS = out
    return _HEX_TETS


WEDGE_TETS = [(0, 1, 2, 5), (0, 1, 5, 4), (0, 4, 5, 3)]


def kind_of(m):
    n = type(m).__name__
    for k, v in (("MeshLine", "line"), ("MeshTri", "tri"), ("MeshQuad", "quad"), ("MeshTet", "tet"),
                 ("MeshHex", "hex"), ("MeshWedge", "wedge")):
        if n.startswith(k):
            return v
    return None


def cell_parts(kind, P):
    """a cell as a list of simplices (vertex coordinate lists) whose |measures| add up to the cell's"""
    if kind in ("line", "tri", "tet"):
        return [P]
    if kind == "quad":
        return [[P[0], P[1], P[2]], [P[0], P[2], P[3]]]
    if kind == "hex":
        return [[P[i] for i in t] for t in hex_tets()]
    if kind == "wedge":
        return [[P[i] for i in t] for t in WEDGE_TETS]
    raise ValueError(kind)


def cell_measure(kind, P):
    """exact measure; None if the cell is degenerate or inconsistently oriented (parts of
    opposite sign: twisted vertex order)"""
    if len(P[0]) != {"line": 1, "tri": 2, "quad": 2, "tet": 3, "hex": 3, "wedge": 3}[kind]:
        return None
    vols = [signed_simplex(S) for S in cell_parts(kind, P)]
    if kind == "hex":
        # Kuhn simplices alternate in sign with the parity of the permutation
        perms = list(itertools.permutations(range(3)))
        par = [(-1) ** sum(1 for i in range(3) for j in range(i) if p[j] > p[i]) for p in perms]
        vols = [v * s for v, s in zip(vols, par)]
    if any(v == 0 for v in vols) or not (all(v > 0 for v in vols) or all(v < 0 for v in vols)):
        return None
    return abs(sum(vols))


def cell_key(P, ref_facets):
    """numbering-independent description of a cell: its vertex set and the vertex sets of its faces"""
    return (tuple(sorted(P)),
            tuple(sorted(tuple(sorted(set(P[i] for i in f))) for f in ref_facets)))


def mesh_cells(m, P=None):
    P = P if P is not None else points(m)
    return [[P[int(v)] for v in m.t[:, k]] for k in range(m.t.shape[1])]


def facet_key(m, P, f):
    return tuple(sorted(set(P[int(v)] for v in m.facets[:, f])))


def ref_facets(m):
    return [list(map(int, f)) for f in m.elem.refdom.facets]


def descr(m):
    d = {"cls": type(m).__name__, "p": m.p.tolist(), "t": m.t.tolist()}
    if m.boundaries is not None:
        d["boundaries"] = {k: np.asarray(v).tolist() for k, v in m.boundaries.items()}
    if m.subdomains is not None:
        d["subdomains"] = {k: np.asarray(v).tolist() for k, v in m.subdomains.items()}
    return d


class Bad(Exception):
    def __init__(self, what, detail=None, sig=None):
        super().__init__(what)
        self.what = what
        self.detail = detail
        self.sig = sig          # explicit signature (input class of a known finding)


def validity(m, allow_unused=False, measure=True):
    """is_valid-like, evaluated independently and exactly"""
    kind = kind_of(m)
    rd = m.elem.refdom
    if m.t.shape[0] != rd.nnodes:
        raise Bad("connectivity has a wrong number of rows", {"shape": list(m.t.shape)})
    if m.p.ndim != 2 or m.t.ndim != 2:
        raise Bad("arrays of wrong rank", {"p": list(m.p.shape), "t": list(m.t.shape)})
    if not np.issubdtype(m.t.dtype, np.integer):
        raise Bad("connectivity is not integral")
    if m.t.shape[1] == 0:
        raise Bad("no cells")
    nv = m.p.shape[1]
    if m.t.min() < 0 or m.t.max() >= nv:
        raise Bad("vertex index out of range", {"max": int(m.t.max()), "nv": nv})
    if not np.isfinite(m.p).all():
        raise Bad("non-finite coordinates")
    P = points(m)
    if len(set(P)) != len(P):
        raise Bad("duplicate vertices")
    if not allow_unused and len(np.unique(m.t)) != nv:
        raise Bad("a vertex belongs to no cell", {"unused": sorted(set(range(nv)) - set(np.unique(m.t).tolist()))})
    if measure and m.p.shape[0] == rd.dim():
        for k, C in enumerate(mesh_cells(m, P)):
            if len(set(C)) != len(C) or cell_measure(kind, C) is None:
                raise Bad("degenerate or twisted cell", {"cell": k})
    if m.p.shape[0] == rd.dim() and not allow_unused and not m.is_valid():
        raise Bad("Mesh.is_valid() is False")
    for name, tags, n in (("boundaries", m.boundaries, m.nfacets), ("subdomains", m.subdomains, m.nelements)):
        for k, v in (tags or {}).items():
            v = np.asarray(v)
            if v.ndim != 1 or (len(v) and (not np.issubdtype(v.dtype, np.integer) or v.min() < 0 or v.max() >= n)):
                raise Bad(f"{name} tag indexes outside the mesh", {"name": k, "tag": v.tolist(), "n": int(n)})
    return P


def total_measure(m, P, cells=None):
    kind = kind_of(m)
    tot = Fr(0)
    for k in (range(m.t.shape[1]) if cells is None else cells):
        v = cell_measure(kind, [P[int(i)] for i in m.t[:, k]])
        if v is None:
            return None
        tot += v
    return tot


def snap(newP, expected, tol):
    """replace every new point by the expected point it equals (exactly, or within tol if tol>0)"""
    exp = set(expected)
    out = []
    nexact = 0
    explist = None
    for x in newP:
        if x in exp:
            out.append(x)
            nexact += 1
            continue
        if tol <= 0:
            raise Bad("a vertex of the result is not at an expected position", {"point": [float(c) for c in x]})
        if explist is None:
            explist = list(exp)
        best = None
        for e in explist:
            if len(e) == len(x):
                d = max(abs(a - b) for a, b in zip(e, x))
                if best is None or d < best[0]:
                    best = (d, e)
        if best is None or best[0] > tol:
            raise Bad("a vertex of the result is not at the stated transformed position",
                      {"point": [float(c) for c in x], "distance": None if best is None else float(best[0])})
        out.append(best[1])
    return out, nexact


# ---------------------------------------------------------------------------------------------
# the property for operations that keep / move / merge whole cells

def check_cells(srcs, news, tol=0, merge=False, tags=None, allow_unused=False, skip=(False, False)):
    """srcs: list of (old mesh, kept cell indices, T) ; news: list of new meshes, news[i] holding the
    cells of srcs[i] (one new mesh for several sources when len(news)==1).
    T maps an exact old coordinate tuple to the exact expected new one.
    Returns, per new mesh, the list `cellmap[j] = (source number, old cell)` found geometrically."""
    single = len(news) == 1
    # expected points / cells
    exp_pts = []
    exp_cells = {}      # key -> (s, k)
    Told = []
    for s, (om, kept, T) in enumerate(srcs):
        oP = [T(x) for x in points(om)]
        Told.append(oP)
        rf = ref_facets(om)
        for k in kept:
            C = [oP[int(v)] for v in om.t[:, k]]
            exp_pts += C
            key = (type(om).__name__ if not single else "", cell_key(C, rf))
            if key in exp_cells:
                raise Bad("GENERATOR: two source cells coincide")
            exp_cells[key] = (s, int(k))
    if merge is False and single and len(srcs) == 1:
        pass
    cellmaps = []
    snapped = []
    for i, nm in enumerate(news):
        validity(nm, allow_unused=allow_unused or not single, measure=False)
        nP = points(nm)
        usedv = sorted(set(np.unique(nm.t).tolist()))
        sn, _ = snap([nP[v] for v in usedv], exp_pts, tol)
        for v, x in zip(usedv, sn):
            nP[v] = x
        snapped.append(nP)
        rf = ref_facets(nm)
        cm = []
        for j, C in enumerate(mesh_cells(nm, nP)):
            key = (type(nm).__name__ if not single else "", cell_key(C, rf))
            if key not in exp_cells:
                raise Bad("a cell of the result is not one of the expected cells",
                          {"mesh": i, "cell": j, "vertices": [[float(c) for c in x] for x in C]})
            s, k = exp_cells[key]
            if not single and s != i:
                raise Bad("a cell ended up in the wrong output mesh", {"mesh": i, "cell": j})
            cm.append((s, k))
        cellmaps.append(cm)
    allc = [c for cm in cellmaps for c in cm]
    if len(set(allc)) != len(allc):
        raise Bad("a cell occurs twice in the result")
    if set(allc) != set(exp_cells.values()):
        missing = sorted(set(exp_cells.values()) - set(allc))
        raise Bad("an expected cell is missing from the result", {"missing (source, cell)": missing[:5]})
    # all vertices of the union used, none duplicated (for `@` the outputs share one point array)
    if not single:
        for nm in news[1:]:
            if nm.p.shape != news[0].p.shape or not np.array_equal(nm.p, news[0].p):
                raise Bad("the joined meshes do not share one vertex array")
        used = set()
        for nm in news:
            used |= set(np.unique(nm.t).tolist())
        if len(used) != news[0].p.shape[1]:
            raise Bad("a vertex belongs to no cell of the joined meshes")
    # measure (exact when tol == 0; cells were snapped to the exact expected positions otherwise)
    for i, nm in enumerate(news):
        if nm.p.shape[0] != nm.elem.refdom.dim():
            continue
        kind = kind_of(nm)
        for j, (s, k) in enumerate(cellmaps[i]):
            om = srcs[s][0]
            a = cell_measure(kind, [snapped[i][int(v)] for v in nm.t[:, j]])
            b = cell_measure(kind, [Told[s][int(v)] for v in om.t[:, k]])
            if a is None or b is None or a != b:
                raise Bad("cell is degenerate/twisted or its measure differs from the expected one",
                          {"mesh": i, "cell": j, "got": None if a is None else float(a),
                           "want": None if b is None else float(b)})
    # shared-vertex structure
    flat = [(i, j) for i, nm in enumerate(news) for j in range(nm.t.shape[1])]
    if len(flat) <= 80:
        vs_new = {(i, j): set(news[i].t[:, j].tolist()) for (i, j) in flat}
        for a in range(len(flat)):
            ia, ja = flat[a]
            sa, ka = cellmaps[ia][ja]
            for b in range(a + 1, len(flat)):
                ib, jb = flat[b]
                sb, kb = cellmaps[ib][jb]
                got = len(vs_new[flat[a]] & vs_new[flat[b]])
                if sa == sb and not merge:
                    want = len(set(srcs[sa][0].t[:, ka].tolist()) & set(srcs[sb][0].t[:, kb].tolist()))
                else:
                    want = len(set(Told[sa][int(v)] for v in srcs[sa][0].t[:, ka])
                               & set(Told[sb][int(v)] for v in srcs[sb][0].t[:, kb]))
                if got != want:
                    raise Bad("two cells share a different number of vertices than before",
                              {"cells": [flat[a], flat[b]], "sources": [(sa, ka), (sb, kb)], "got": got,
                               "want": want})
    # tags
    if tags is not None:
        om, kept, T = srcs[0]
        nm = news[0]
        check_tags(om, Told[0], set(int(k) for k in kept), nm, snapped[0], cellmaps[0], merge, tags, skip)
    return cellmaps, snapped


def check_tags(om, oP, kept, nm, nP, cellmap, merge, which, skip=(False, False)):
    """which: subset of {"b","s"}: tags the operation carries over"""
    # subdomains
    if "s" in which:
        if om.subdomains is None or skip[1]:
            if nm.subdomains:
                raise Bad("subdomains appear from nowhere", {"new": sorted(nm.subdomains)})
        else:
            new = nm.subdomains or {}
            extra = set(new) - set(om.subdomains)
            if extra:
                raise Bad("subdomain names appear from nowhere", {"names": sorted(extra)})
            for name, ix in om.subdomains.items():
                want = sorted(set(int(k) for k in np.asarray(ix).tolist()) & kept)
                if name not in new:
                    if want:
                        raise Bad("a named subdomain with surviving cells was dropped", {"name": name})
                    continue
                gl = [int(j) for j in np.asarray(new[name]).tolist()]
                if any(j < 0 or j >= len(cellmap) for j in gl):
                    raise Bad("subdomain tag indexes outside the mesh", {"name": name, "tag": gl})
                got = sorted(cellmap[j][1] for j in gl)
                if got != want:
                    raise Bad("a carried subdomain designates other cells than before (as old cell numbers)",
                              {"name": name, "got": got, "want": want, "new tag": gl})
    if "b" in which:
        if om.boundaries is None or skip[0]:
            if nm.boundaries:
                raise Bad("boundaries appear from nowhere", {"new": sorted(nm.boundaries)})
        else:
            new = nm.boundaries or {}
            extra = set(new) - set(om.boundaries)
            if extra:
                raise Bad("boundary names appear from nowhere", {"names": sorted(extra)})
            alive = set()
            for k in kept:
                for i in range(om.t2f.shape[0]):
                    alive.add(int(om.t2f[i, k]))
            for name, ix in om.boundaries.items():
                ixl = [int(f) for f in np.asarray(ix).tolist()]
                want = sorted(facet_key(om, oP, f) for f in ixl if f in alive)
                if name not in new:
                    if want:
                        raise Bad("a named boundary with surviving facets was dropped", {"name": name})
                    continue
                gl = [int(f) for f in np.asarray(new[name]).tolist()]
                if any(f < 0 or f >= nm.facets.shape[1] for f in gl):
                    raise Bad("boundary tag indexes outside the mesh", {"name": name, "tag": gl})
                got = sorted(facet_key(nm, nP, f) for f in gl)
                if merge:
                    got, want = sorted(set(got)), sorted(set(want))
                if got != want:
                    raise Bad("a carried boundary designates other facets than before (as vertex coordinates)",
                              {"name": name, "new tag": gl, "old tag": ixl,
                               "got": [[[float(c) for c in x] for x in f] for f in got][:4],
                               "want": [[[float(c) for c in x] for x in f] for f in want][:4]})


# ---------------------------------------------------------------------------------------------
# splitting into simplices

def inside_closed(S, x):
    """barycentric test, exact: x in the closed simplex S; returns (closed, open)"""
    n = len(S) - 1
    tot = signed_simplex(S)
    if tot == 0:
        return False, False
    cl, op = True, True
    for i in range(n + 1):
        Q = list(S)
        Q[i] = x
        lam = signed_simplex(Q) / tot
        if lam < 0:
            cl = False
        if lam <= 0:
            op = False
    return cl, op


def check_split(om, nm, rng, style=None, X=None, x=None):
    """nm = om.to_meshtri(style=...) / om.to_meshtet(): children tile the parents"""
    okind, nkind = kind_of(om), kind_of(nm)
    oP = points(om)
    ocells = mesh_cells(om, oP)
    nP = validity(nm)
    nchild = {("quad", None): 2, ("quad", "x"): 4, ("hex", None): 6, ("wedge", None): 3}[(okind, style)]
    nt = om.t.shape[1]
    if nm.t.shape[1] != nchild * nt:
        raise Bad("wrong number of children", {"got": int(nm.t.shape[1]), "want": nchild * nt})
    # expected vertices: the old ones (+ centroids for the crisscross style)
    cent = {}
    if style == "x":
        for k, C in enumerate(ocells):
            cent[k] = tuple(sum(c[d] for c in C) / 4 for d in range(2))
    exp = set(oP) | set(cent.values())
    nP, _ = snap(nP, list(exp), ftol(om))
    if set(nP) != exp or len(nP) != len(exp):
        raise Bad("vertices of the split mesh are not the old vertices (and cell centroids)")
    # parent of a child: the cell whose vertex set (+ centroid) contains the child's vertices
    byv = {}
    for k, C in enumerate(ocells):
        for v in C:
            byv.setdefault(v, set()).add(k)
    for k, c in cent.items():
        byv.setdefault(c, set()).add(k)
    parent = []
    for j, C in enumerate(mesh_cells(nm, nP)):
        cand = set.intersection(*[byv.get(v, set()) for v in C])
        if len(cand) != 1:
            raise Bad("a child simplex is not spanned by the vertices of one parent cell",
                      {"child": j, "candidates": sorted(cand)})
        parent.append(next(iter(cand)))
    # tiling: measures add up exactly, random exact points of the parent are covered exactly once
    kids = {}
    for j, k in enumerate(parent):
        kids.setdefault(k, []).append(j)
    ncells = mesh_cells(nm, nP)
    for k in range(nt):
        ch = kids.get(k, [])
        if len(ch) != nchild:
            raise Bad("a parent cell does not have the right number of children", {"parent": k, "children": ch})
        mo = cell_measure(okind, ocells[k])
        ms = [abs(signed_simplex(ncells[j])) for j in ch]
        # two simplicial decompositions of a cell (the oracle's and the library's) differ exactly by
        # tetrahedra spanned by the four vertices of a quadrilateral face whose diagonal they cut
        # differently: |sum(children) - parent| <= sum over quadrilateral faces of that tetrahedron's
        # volume (the "planarity defect").  It is 0 for planar faces (then equality is exact), ~1e-16 after a
        # rounded mirror, ~1e-8 after the 8-decimal rounding of Mesh.__add__, larger only for faces that a
        # non-affine morph has really curved (where "the" measure of the cell is not defined).  A wrong
        # template is off by >= 1/6 of the cell.
        defect = Fr(0)
        if okind in ("hex", "wedge"):
            for fc in ref_facets(om):
                if len(set(fc)) == 4:
                    defect += abs(signed_simplex([ocells[k][i] for i in fc]))
        planar = defect == 0
        close = mo is not None and abs(sum(ms) - mo) <= 2 * defect and (mo is None or 12 * defect < mo)
        if mo is not None and 12 * defect >= mo:
            raise Bad("GENERATOR: cell with strongly curved faces")
        if mo is None or any(v == 0 for v in ms) or not close:
            raise Bad("children do not have the measure of the parent",
                      {"parent": k, "parent measure": None if mo is None else float(mo),
                       "children": [float(v) for v in ms]})
        for _ in range(4):
            w = [Fr(rng.randint(1, 16)) for _ in ocells[k]]
            sw = sum(w)
            x0 = tuple(sum(wi * c[d] for wi, c in zip(w, ocells[k])) / sw for d in range(len(oP[0])))
            ncl = nop = 0
            for j in ch:
                c, o = inside_closed(ncells[j], x0)
                ncl += c
                nop += o
            if (ncl < 1 and planar) or nop > 1:
                raise Bad("children overlap or leave a gap inside the parent",
                          {"parent": k, "point": [float(c) for c in x0], "closed": ncl, "open": nop})
    # shared-vertex structure: the split adds no vertex identification (vertex array = old (+centroids))
    if len(set(nP)) != len(nP):
        raise Bad("duplicate vertices")
    # tags
    if okind == "quad":
        if om.subdomains:
            new = nm.subdomains or {}
            for name, ix in om.subdomains.items():
                want = sorted(j for j in range(len(parent)) if parent[j] in set(np.asarray(ix).tolist()))
                got = sorted(int(j) for j in np.asarray(new.get(name, [])).tolist())
                if got != want:
                    raise Bad("a carried subdomain does not consist of the children of its cells",
                              {"name": name, "got": got, "want": want})
            if set(new) - set(om.subdomains):
                raise Bad("subdomain names appear from nowhere")
        elif nm.subdomains:
            raise Bad("subdomains appear from nowhere")
        if om.boundaries:
            new = nm.boundaries or {}
            for name, ix in om.boundaries.items():
                want = sorted(facet_key(om, oP, int(f)) for f in np.asarray(ix).tolist())
                gl = [int(f) for f in np.asarray(new.get(name, [])).tolist()]
                if any(f < 0 or f >= nm.facets.shape[1] for f in gl):
                    raise Bad("boundary tag indexes outside the mesh", {"name": name})
                got = sorted(facet_key(nm, nP, f) for f in gl)
                if got != want:
                    raise Bad("a boundary carried by to_meshtri designates facets with other vertex pairs",
                              {"name": name, "old tag": np.asarray(ix).tolist(), "new tag": gl})
            if set(new) - set(om.boundaries):
                raise Bad("boundary names appear from nowhere")
        elif nm.boundaries:
            raise Bad("boundaries appear from nowhere")
    else:
        # to_meshtet does not carry tags; if it ever does they must be right
        if nm.subdomains:
            for name, ix in nm.subdomains.items():
                if name not in (om.subdomains or {}):
                    raise Bad("subdomain names appear from nowhere")
                want = sorted(j for j in range(len(parent)) if parent[j] in set(np.asarray(om.subdomains[name]).tolist()))
                if sorted(int(j) for j in np.asarray(ix).tolist()) != want:
                    raise Bad("a carried subdomain does not consist of the children of its cells", {"name": name})
        if nm.boundaries:
            for name, ix in nm.boundaries.items():
                if name not in (om.boundaries or {}):
                    raise Bad("boundary names appear from nowhere")
    if X is not None:
        if len(X) != len(parent) or any(X[j] != x[parent[j]] for j in range(len(parent))):
            raise Bad("the cellwise constant function returned by to_meshtri is not the parent's value",
                      {"X": np.asarray(X).tolist(), "want": [x[k] for k in parent]})
    return parent


# ---------------------------------------------------------------------------------------------
# extrusion

def line_cells(lm):
    P = points(lm)
    return [tuple(sorted((P[int(a)][0], P[int(b)][0]))) for a, b in lm.t.T]


def has_gaps(lm):
    """a (valid) line mesh whose cells do not fill one interval"""
    return kind_of(lm) == "line" and lm.t.shape[1] < lm.p.shape[1] - 1


def check_extrude(a, b, nm):
    """nm = a * b ; a: MeshTri1 or MeshLine1, b: MeshLine1 (or a: line, b: tri)"""
    ka, kb = kind_of(a), kind_of(b)
    if ka == "line" and kb == "tri":
        a, b, ka, kb = b, a, kb, ka
    nP = validity(nm)
    want_kind = {"tri": "wedge", "line": "quad"}[ka]
    if kind_of(nm) != want_kind:
        raise Bad("extrusion returns a mesh of the wrong class", {"cls": type(nm).__name__})
    aP = points(a)
    exp = {}
    rf = ref_facets(nm)
    tot = Fr(0)
    for k, C in enumerate(mesh_cells(a, aP)):
        for l, (z0, z1) in enumerate(line_cells(b)):
            vs = tuple(sorted([c + (z0,) for c in C] + [c + (z1,) for c in C]))
            exp[vs] = (k, l)
            tot += cell_measure(ka, C) * (z1 - z0)
    got = {}
    for j, C in enumerate(mesh_cells(nm, nP)):
        vs = tuple(sorted(C))
        if vs not in exp:
            raise Bad("a cell of the extruded mesh is not the product of a cell and an interval of the factors",
                      {"cell": j, "vertices": [[float(c) for c in x] for x in C]})
        if vs in got:
            raise Bad("a product cell occurs twice", {"cell": j})
        got[vs] = j
    if len(got) != len(exp):
        raise Bad("a product cell is missing", {"got": len(got), "want": len(exp)})
    m = total_measure(nm, nP)
    if m is None or m != tot:
        raise Bad("extruded mesh has a degenerate/twisted cell or a wrong total measure",
                  {"got": None if m is None else float(m), "want": float(tot)})
    # faces of every product cell: bottom and top are copies of the base cell
    for vs, j in got.items():
        k, l = exp[vs]
        z0, z1 = line_cells(b)[l]
        C = [aP[int(v)] for v in a.t[:, k]]
        faces = set(cell_key([nP[int(v)] for v in nm.t[:, j]], rf)[1])
        for z in (z0, z1):
            if tuple(sorted(c + (z,) for c in C)) not in faces:
                raise Bad("bottom/top face of a product cell is not a copy of the base cell", {"cell": j})
    return exp, got


# ---------------------------------------------------------------------------------------------
# generators

def gen_tagged(rng, kinds=None, tag_p=0.85, **kw):
    m, info = meshes.gen_mesh(rng, kinds or FIRST, **kw)
    if rng.random() < tag_p:
        m, tags = meshes.random_tags(rng, m)
        info["tags"] = True
    return m, info


def retag(rng, m):
    m2, _ = meshes.random_tags(rng, type(m)(m.p, m.t))
    return m2


def rand_subset(rng, nt, nonempty=True, proper=False):
    if nt == 1:
        return [0]
    mode = rng.random()
    if mode < 0.1 and not proper:
        return list(range(nt))
    if mode < 0.25:
        return [rng.randrange(nt)]
    k = rng.randint(1, nt - 1)
    return sorted(rng.sample(range(nt), k))


def dy(rng, lo, hi, bits=2):
    s = 1 << bits
    return rng.randint(int(lo * s), int(hi * s)) / s


def with_duplicates(rng, m):
    """copy some vertices and let some of the cells around them use the copy"""
    p, t = m.p.copy(), m.t.astype(np.int64).copy()
    nv = p.shape[1]
    cols = [p[:, j] for j in range(nv)]
    for _ in range(rng.randint(1, 4)):
        v = rng.randrange(nv)
        users = [k for k in range(t.shape[1]) if v in t[:, k]]
        if len(users) < 2:
            continue
        mv = rng.sample(users, rng.randint(1, len(users) - 1))
        cols.append(p[:, v])
        for k in mv:
            t[t[:, k] == v, k] = len(cols) - 1
    p2 = np.array(cols).T
    # shuffle the vertex numbers so that copies are not at the end
    p2, t2, _ = meshes.renumber(rng, p2, t)
    return type(m)(p2, t2.astype(np.int32), validate=False)


def with_unused(rng, m):
    """add vertices that belong to no cell (at random positions in the numbering)"""
    p, t = m.p, m.t.astype(np.int64)
    extra = rng.randint(1, 3)
    lo = p.min() - 2
    q = np.array([[lo - i - rng.randint(0, 3) / 4 for _ in range(p.shape[0])] for i in range(extra)]).T
    p2 = np.hstack((p, q))
    p2, t2, _ = meshes.renumber(rng, p2, t)
    return type(m)(p2, t2.astype(np.int32), validate=False)


def copy_tags(rng, m):
    m2, _ = meshes.random_tags(rng, m)
    return m2


# ---------------------------------------------------------------------------------------------
# operations: each returns (new mesh, record) and raises Bad when the property fails.
# record = {"op":..., params..., "cellmap": [...], "T": function or None, "tags": carried?}

_LAST = {}


def note(rec):
    """remember the parameters of the operation being checked (for the replay of a failure)"""
    _LAST.clear()
    _LAST.update(rec)
    return rec


def ident(x):
    return x


def ftol(m, extra=0.0):
    """coordinate tolerance for operations evaluated in floating point"""
    return Fr(1, 10 ** 12) * Fr(1 + float(np.abs(m.p).max()) + float(extra))


def op_restrict(rng, m, ctx=None):
    nt = m.t.shape[1]
    sub = rand_subset(rng, nt)
    form = rng.choice(["array", "array", "unsorted", "list", "set", "name", "callable", "int", "list-of-overlapping-parts"])
    skipb, skips = rng.random() < 0.1, rng.random() < 0.1
    retmap = rng.random() < 0.5
    arg = np.array(sub, dtype=rng.choice([np.int32, np.int64]))
    if form == "unsorted":
        sh = list(sub)
        rng.shuffle(sh)
        arg = np.array(sh, dtype=np.int64)
    elif form == "list":
        arg = [int(k) for k in sub]
    elif form == "set":
        arg = set(int(k) for k in sub)
    elif form == "name":
        if m.subdomains:
            name = rng.choice(sorted(m.subdomains))
            if len(m.subdomains[name]):
                arg = name
                sub = sorted(set(int(k) for k in np.asarray(m.subdomains[name]).tolist()))
            else:
                form = "array"
        else:
            form = "array"
    elif form == "list-of-overlapping-parts":
        # a collection whose members overlap (two index arrays, or a name and an array): the union, each cell once
        cut = rng.randint(0, len(sub) - 1)
        a, b = sub[:cut + 1], sub[max(0, cut - 1):]
        members = [np.array(a, dtype=np.int64), np.array(b, dtype=np.int32)]
        if m.subdomains and rng.random() < 0.5:
            name = rng.choice(sorted(m.subdomains))
            if len(m.subdomains[name]):
                members.append(name)
                sub = sorted(set(sub) | set(int(k) for k in np.asarray(m.subdomains[name]).tolist()))
        arg = rng.choice([list, tuple])(members)
    elif form == "int":
        sub = [sub[0]]
        arg = int(sub[0])
    elif form == "callable":
        # cells whose midpoint has first coordinate below a threshold between two midpoints
        mid = m.p[:, m.t].mean(axis=1)[0]
        vals = sorted(set(mid.tolist()))
        # thresholds only in gaps that are wide compared with rounding (the library evaluates the
        # midpoints in floating point); an empty selection is outside the domain of restrict
        gaps_ = [i for i in range(len(vals) - 1) if vals[i + 1] - vals[i] > 1e-6]
        if gaps_:
            i = rng.choice(gaps_)
            thr = (vals[i] + vals[i + 1]) / 2
            arg = (lambda x, thr=thr: x[0] < thr)
            sub = [k for k in range(nt) if mid[k] < thr]
        else:
            form = "array"
    rec = note({"op": "restrict", "form": form, "elements": [int(k) for k in (arg.tolist() if isinstance(arg, np.ndarray) else sub)],
           "skip_boundaries": skipb, "skip_subdomains": skips, "return_mapping": retmap})
    out = m.restrict(arg, return_mapping=retmap, skip_boundaries=skipb, skip_subdomains=skips)
    ix = None
    if retmap:
        out, ix = out
    cms, _ = check_cells([(m, sub, ident)], [out], tags={"b", "s"}, skip=(skipb, skips))
    cm = cms[0]
    if type(out) is not type(m):
        raise Bad("restrict changes the mesh class", rec)
    if ix is not None:
        ix = np.asarray(ix)
        if ix.shape != (out.p.shape[1],) or not np.array_equal(out.p, m.p[:, ix]):
            raise Bad("returned vertex map does not relate new to old vertices (p_new != p_old[:, map])", rec)
        for j, (_, k) in enumerate(cm):
            if sorted(ix[out.t[:, j]].tolist()) != sorted(m.t[:, k].tolist()):
                raise Bad("returned vertex map does not relate new to old connectivity", dict(rec, cell=j))
    rec["cellmap"] = [k for _, k in cm]
    rec["T"] = ident
    rec["carries"] = {"b": not skipb, "s": not skips}
    return out, rec


def op_remove_elements(rng, m, ctx=None):
    nt = m.t.shape[1]
    if nt < 2:
        return None
    rem = rand_subset(rng, nt, proper=True)
    if len(rem) == nt:
        rem = rem[:-1]
    form = rng.choice(["array", "list", "unsorted"])
    arg = np.array(rem, dtype=np.int64)
    if form == "list":
        arg = [int(k) for k in rem]
    elif form == "unsorted":
        sh = list(rem)
        rng.shuffle(sh)
        arg = np.array(sh, dtype=np.int32)
    rec = note({"op": "remove_elements", "form": form, "elements": [int(k) for k in rem]})
    out = m.remove_elements(arg)
    keep = sorted(set(range(nt)) - set(rem))
    cms, _ = check_cells([(m, keep, ident)], [out], tags={"b", "s"})
    rec["cellmap"] = [k for _, k in cms[0]]
    rec["T"] = ident
    rec["carries"] = {"b": True, "s": True}
    return out, rec


def op_remove_unused(rng, m, ctx=None):
    mu = with_unused(rng, m)
    mu = copy_tags(rng, mu)
    rec = note({"op": "remove_unused_nodes", "input": descr(mu)})
    out = mu.remove_unused_nodes()
    cms, _ = check_cells([(mu, range(mu.t.shape[1]), ident)], [out], tags={"b", "s"})
    rec["cellmap"] = [k for _, k in cms[0]]
    rec["T"] = ident
    rec["restart"] = mu
    rec["carries"] = {"b": True, "s": True}
    return out, rec


def op_remove_duplicates(rng, m, ctx=None):
    md = with_duplicates(rng, m) if rng.random() < 0.8 else type(m)(m.p, m.t)
    md = copy_tags(rng, md)
    rec = note({"op": "remove_duplicate_nodes", "input": descr(md)})
    out = md.remove_duplicate_nodes()
    cms, _ = check_cells([(md, range(md.t.shape[1]), ident)], [out], merge=True, tags={"b", "s"})
    # the result has the cells of the mesh the duplicates were made from
    rec["cellmap"] = [k for _, k in cms[0]]
    rec["T"] = ident
    rec["restart"] = md
    rec["carries"] = {"b": True, "s": True}
    return out, rec


def round8(x):
    return tuple(Fr(float(np.round(float(c), decimals=8))) for c in x)


def neighbour_copy(rng, m):
    """a second mesh of the same class next to / touching / apart from m"""
    p = m.p
    ext = p.max(axis=1) - p.min(axis=1)
    mode = rng.choice(["touch", "touch", "apart", "mirror", "parts", "parts-raw"])
    d = rng.randrange(p.shape[0])
    if mode == "touch":
        sh = np.zeros(p.shape[0])
        sh[d] = ext[d]
        other = m.translated(tuple(sh))
    elif mode == "apart":
        sh = np.zeros(p.shape[0])
        sh[d] = ext[d] + 1
        other = m.translated(tuple(sh))
    elif mode == "mirror":
        n = np.zeros(p.shape[0])
        n[d] = 1
        pt = np.zeros(p.shape[0])
        pt[d] = p[d].max()
        other = m.mirrored(tuple(n), tuple(pt))
    else:
        other = None
    return mode, other


def op_add(rng, m, ctx=None):
    mode, other = neighbour_copy(rng, m)
    nt = m.t.shape[1]
    if mode == "parts":
        if nt < 2:
            return None
        a = rand_subset(rng, nt, proper=True)
        if len(a) == nt:
            a = a[:-1]
        b = sorted(set(range(nt)) - set(a))
        m1, m2 = m.restrict(np.array(a)), m.restrict(np.array(b))
    elif mode == "parts-raw":
        # the left operand keeps the whole vertex array (and two more points at its end): vertices that no
        # cell uses, also after the last used one
        if nt < 2 or not type(m).__name__.endswith("1"):
            return None
        a = rand_subset(rng, nt, proper=True)
        if len(a) == nt:
            a = a[:-1]
        b = sorted(set(range(nt)) - set(a))
        extra = m.p[:, :2] + 64.0
        m1 = type(m)(np.hstack((m.p, extra)), m.t[:, a])
        m2 = m.restrict(np.array(b))
    else:
        m1, m2 = m, other
    rec = note({"op": "add", "mode": mode, "left": descr(m1), "right": descr(m2)})
    out = m1 + m2
    if type(out) is not type(m):
        raise Bad("join changes the mesh class", rec)
    cms, _ = check_cells([(m1, range(m1.t.shape[1]), round8), (m2, range(m2.t.shape[1]), round8)], [out],
                         merge=True, allow_unused=(mode == "parts-raw"))
    if out.boundaries or out.subdomains:
        raise Bad("join invents tags", rec)
    if mode == "parts":
        # re-joining the two parts gives back the cells of the original mesh
        check_cells([(m, range(nt), round8)], [out], merge=False)
    rec["cellmap"] = None
    rec["T"] = None
    if mode == "parts-raw":
        # (the unused vertices of the left operand are legitimately still there: drop them before the result
        # goes through the generic validity checks and into the next operation)
        out = out.remove_unused_nodes()
    return out, rec


def other_class_mesh(rng, m):
    """a mesh of another class in the same space dimension, overlapping vertices with m"""
    dim = m.p.shape[0]
    kinds = {1: ["line"], 2: ["tri", "quad"], 3: ["tet", "hex", "wedge"]}[dim]
    k = rng.choice(kinds)
    o, _ = meshes.gen_mesh(rng, [k])
    # move it so that it touches m's bounding box corner: share at least the corner vertex sometimes
    sh = m.p.max(axis=1) - o.p.min(axis=1)
    if rng.random() < 0.3:
        sh = sh + 1
    return o.translated(tuple(sh))


def op_matmul(rng, m, ctx=None):
    n_other = rng.choice([1, 1, 2, 3])
    others = []
    for i in range(n_other):
        if rng.random() < 0.5:
            mode, o = neighbour_copy(rng, m)
            if o is None:
                o = other_class_mesh(rng, m)
            elif i > 0:
                # keep the copies apart from one another
                sh = np.zeros(m.p.shape[0])
                sh[-1] = (i + 1) * (m.p[-1].max() - m.p[-1].min() + 1) + 7
                o = m.translated(tuple(sh))
        else:
            o = other_class_mesh(rng, m)
            if i > 0:
                sh = np.zeros(m.p.shape[0])
                sh[0] = 20 * i
                o = o.translated(tuple(sh))
        others.append(o)
    aslist = rng.random() < 0.6
    rec = note({"op": "matmul", "self": descr(m), "others": [descr(o) for o in others],
                "form": "list" if aslist else "chained"})
    if aslist:
        outs = m @ (others if (n_other > 1 or rng.random() < 0.5) else others[0])
    else:
        outs = m
        for o in others:        # m @ o1 @ o2 ... (list @ mesh goes through __rmatmul__)
            outs = outs @ o
    ins = [m] + others
    if len(outs) != len(ins) or any(type(a) is not type(b) for a, b in zip(outs, ins)):
        raise Bad("@ does not return one mesh per operand, of the operand's class", rec)
    check_cells([(x, range(x.t.shape[1]), ident) for x in ins], list(outs), merge=True)
    rec["cellmap"] = None
    rec["T"] = None
    # continue with one operand's mesh, its foreign vertices removed again
    i = rng.randrange(len(outs))
    cont = outs[i].remove_unused_nodes()
    check_cells([(ins[i], range(ins[i].t.shape[1]), ident)], [cont])
    return cont, rec


def op_translated(rng, m, ctx=None):
    dim = m.p.shape[0]
    d = tuple(dy(rng, -3, 3) for _ in range(dim))
    form = rng.choice(["tuple", "list", "array"])
    arg = d if form == "tuple" else (list(d) if form == "list" else np.array(d))
    rec = note({"op": "translated", "diffs": list(d), "form": form})
    out = m.translated(arg)
    dd = tuple(Fr(x) for x in d)
    T = (lambda x: tuple(a + b for a, b in zip(x, dd)))
    finish_transform(m, out, T, Fr(1), rec, tol=ftol(m, max(abs(x) for x in d)))
    return out, rec


def op_scaled(rng, m, ctx=None):
    dim = m.p.shape[0]
    choices = [0.5, 2.0, 1.5, -1.0, 3.0, 0.25, -0.5, 1.0]
    if rng.random() < 0.25:
        f = rng.choice(choices)
        arg = float(f)
        fs = (f,) * dim
        form = "float"
    else:
        fs = tuple(rng.choice(choices) for _ in range(dim))
        form = rng.choice(["tuple", "array"])
        arg = fs if form == "tuple" else np.array(fs)
    rec = note({"op": "scaled", "factors": list(fs), "form": form})
    out = m.scaled(arg)
    ff = tuple(Fr(x) for x in fs)
    T = (lambda x: tuple(a * b for a, b in zip(x, ff)))
    prod = Fr(1)
    for x in ff:
        prod *= x
    finish_transform(m, out, T, abs(prod), rec, tol=ftol(m) * 4)
    return out, rec


def op_mirrored(rng, m, ctx=None):
    dim = m.p.shape[0]
    if rng.random() < 0.5:
        n = [0] * dim
        n[rng.randrange(dim)] = rng.choice([1, -1, 2])
    else:
        while True:
            n = [rng.randint(-3, 3) for _ in range(dim)]
            if any(n):
                break
    pt = None if rng.random() < 0.4 else tuple(dy(rng, -2, 2) for _ in range(dim))
    rec = note({"op": "mirrored", "normal": list(n), "point": None if pt is None else list(pt)})
    out = m.mirrored(tuple(float(x) for x in n), pt) if pt is not None else m.mirrored(tuple(float(x) for x in n))
    nn = [Fr(x) for x in n]
    p0 = [Fr(0)] * dim if pt is None else [Fr(x) for x in pt]
    n2 = sum(a * a for a in nn)

    def T(x):
        s = sum(a * (b - c) for a, b, c in zip(nn, x, p0))
        return tuple(b - 2 * s * a / n2 for a, b in zip(nn, x))
    scale = 1 + float(np.abs(m.p).max()) + (0 if pt is None else max(abs(v) for v in pt))
    finish_transform(m, out, T, Fr(1), rec, tol=Fr(1, 10 ** 12) * Fr(scale))
    # involution: mirroring twice gives the mesh back (to rounding)
    back = out.mirrored(tuple(float(x) for x in n), pt) if pt is not None else out.mirrored(tuple(float(x) for x in n))
    if not np.allclose(back.p, m.p, rtol=0, atol=1e-12 * scale) or not np.array_equal(back.t, m.t):
        raise Bad("mirroring twice does not give the mesh back", rec)
    return out, rec


MORPHS = [
    ("x+y/4", lambda p: p[0] + p[1] / 4, lambda x: x[0] + x[1] / 4),
    ("y+x/8", lambda p: p[1] + p[0] / 8, lambda x: x[1] + x[0] / 8),
    ("2x", lambda p: 2 * p[0], lambda x: 2 * x[0]),
    ("y-x/4", lambda p: p[1] - p[0] / 4, lambda x: x[1] - x[0] / 4),
    ("x+x*x/64", lambda p: p[0] + p[0] * p[0] / 64, lambda x: x[0] + x[0] * x[0] / 64),
    ("last+x/8", lambda p: p[-1] + p[0] / 8, lambda x: x[-1] + x[0] / 8),
    ("x-last/8", lambda p: p[0] - p[-1] / 8, lambda x: x[0] - x[-1] / 8),
]


def op_morphed(rng, m, ctx=None):
    dim = m.p.shape[0]
    names, fl, ex = [], [], []
    for i in range(dim):
        r = rng.random()
        if r < 0.25:
            names.append(None), fl.append(None), ex.append(None)
            continue
        # the function for coordinate i must keep the map injective on the mesh: use shears
        # x_i + (other coordinate)/k evaluated on the ORIGINAL coordinates
        others = [d for d in range(dim) if d != i]
        if not others:
            c = rng.choice([2, 4, -2])
            names.append(f"x0*{c}+1")
            fl.append(lambda p, c=c: p[0] * c + 1)
            ex.append(lambda x, c=c: x[0] * c + 1)
            continue
        o = rng.choice(others)
        c = rng.choice([4, 8, -8, 16])
        q = rng.random() < 0.3
        names.append(f"x{i}+x{o}/{c}" + ("+x%d^2/64" % o if q else ""))
        fl.append(lambda p, i=i, o=o, c=c, q=q: p[i] + p[o] / c + (p[o] * p[o] / 64 if q else 0))
        ex.append(lambda x, i=i, o=o, c=c, q=q: x[i] + x[o] / c + (x[o] * x[o] / 64 if q else 0))
    ntrail = rng.choice([0, 0, 1]) if dim > 1 else 0
    args = fl[: dim - ntrail] if ntrail and all(f is None for f in fl[dim - ntrail:]) else fl
    rec = note({"op": "morphed", "functions": names})
    out = m.morphed(*args)

    def T(x):
        return tuple(x[i] if ex[i] is None else ex[i](x) for i in range(dim))
    scale = 1 + float(np.abs(m.p).max()) ** 2
    finish_transform(m, out, T, None, rec, tol=Fr(1, 10 ** 12) * Fr(scale))
    return out, rec


def finish_transform(m, out, T, factor, rec, tol=0):
    if type(out) is not type(m):
        raise Bad("transform changes the mesh class", rec)
    if out.p.shape != m.p.shape:
        raise Bad("transform changes the number of vertices or the dimension", rec)
    cms, snapped = check_cells([(m, range(m.t.shape[1]), T)], [out], tol=tol, tags={"b", "s"},
                               allow_unused=m.p.shape[1] > len(np.unique(m.t)))
    # every vertex (also the higher-order nodes of quadratic meshes) is moved as stated
    oP = points(m)
    nP = points(out)
    for j in range(len(oP)):
        want = T(oP[j])
        if rec["op"] in ("translated", "scaled") and all(Fr(float(c)) == c for c in want):
            # one correctly rounded operation per coordinate: representable results are exact
            if nP[j] != want:
                raise Bad("transformed coordinates are not exactly as stated", dict(rec, vertex=j))
        elif max(abs(a - b) for a, b in zip(nP[j], want)) > tol:
            raise Bad("transformed coordinates are not as stated", dict(rec, vertex=j))
    if factor is not None and m.p.shape[0] == m.elem.refdom.dim():
        a = total_measure(m, oP)
        b = total_measure(out, snapped[0])
        if a is None or b is None or b != a * factor:
            raise Bad("measure is not multiplied by |product of factors|",
                      dict(rec, before=None if a is None else float(a), after=None if b is None else float(b)))
    rec["cellmap"] = [k for _, k in cms[0]]
    rec["T"] = T
    rec["tol"] = tol
    rec["carries"] = {"b": True, "s": True}


def op_oriented(rng, m, ctx=None):
    if kind_of(m) not in ("tri", "tet") or m.p.shape[0] != m.elem.refdom.dim():
        return None
    rec = note({"op": "oriented"})
    out = m.oriented()
    cms, _ = check_cells([(m, range(m.t.shape[1]), ident)], [out], tags={"b", "s"})
    P = points(out)
    for k, C in enumerate(mesh_cells(out, P)):
        if signed_simplex(C) <= 0:
            raise Bad("oriented() leaves a cell with non-positive orientation", dict(rec, cell=k))
    if sorted(out.orientation().tolist()) != [1] * out.t.shape[1]:
        raise Bad("orientation() of the oriented mesh is not +1", rec)
    rec["cellmap"] = [k for _, k in cms[0]]
    rec["T"] = ident
    rec["carries"] = {"b": True, "s": True}
    return out, rec


def op_split(rng, m, ctx=None):
    kind = kind_of(m)
    if kind not in ("quad", "hex", "wedge"):
        return None
    rec = note({"op": "split"})
    if kind == "quad":
        style = rng.choice([None, "x"])
        rec["style"] = style
        if rng.random() < 0.4:
            x = np.array([float(rng.randint(0, 9)) for _ in range(m.t.shape[1])])
            out, X = m.to_meshtri(x=x, style=style)
            rec["x"] = x.tolist()
            parent = check_split(m, out, rng, style, X, x)
        else:
            out = m.to_meshtri(style=style)
            parent = check_split(m, out, rng, style)
    else:
        out = m.to_meshtet()
        parent = check_split(m, out, rng)
    if kind == "quad" and m.boundaries is not None and rng.random() < 0.5:
        # a tag that has become empty (all its facets removed earlier) must survive the split as a
        # usable index array: the split mesh can be restricted again
        me = m.with_boundaries({"emptied": np.array([], dtype=np.int32)})
        te = me.to_meshtri(style=rec.get("style"))
        rec["with_empty_tag"] = True
        keep = rand_subset(rng, te.t.shape[1])
        r2 = te.restrict(np.array(keep))
        check_cells([(te, keep, ident)], [r2], tags={"b", "s"})
    rec["cellmap"] = parent
    rec["T"] = ident
    rec["carries"] = {"b": kind == "quad", "s": kind == "quad"}
    rec["split"] = True
    return out, rec


def gen_line(rng, gaps=False):
    from skfem import MeshLine1
    n = rng.randint(1, 4)
    x = meshes.rand_axis(rng, n, bits=2)
    p = x[None, :]
    t = np.vstack((np.arange(n), np.arange(1, n + 1)))
    info = {}
    if gaps and n >= 3:
        t = np.delete(t, rng.randint(1, n - 2), axis=1)
        info["gaps"] = True
    if rng.random() < 0.7:
        p, t, _ = meshes.renumber(rng, p, t)
    if rng.random() < 0.5:
        t = meshes.local_reorder(rng, "line", t)
    return MeshLine1(p, t.astype(np.int32)), info


def op_extrude(rng, m, ctx=None):
    kind = kind_of(m)
    if kind not in ("tri", "line") or m.p.shape[0] != m.elem.refdom.dim():
        return None
    if m.t.shape[1] > 12:
        return None
    line, linfo = gen_line(rng, gaps=rng.random() < 0.3)
    order = rng.choice(["m*line", "line*m"])
    rec = note({"op": "extrude", "order": order, "line": descr(line), "line_info": linfo})
    gapped = has_gaps(line) or has_gaps(m)
    rec["gapped_line_factor"] = gapped
    try:
        if order == "m*line":
            out = m * line
            check_extrude(m, line, out)
        else:
            out = line * m
            if kind == "line":
                check_extrude(line, m, out)
            else:
                check_extrude(m, line, out)
    except Bad as b:
        if gapped and b.what.startswith(("a cell of the extruded mesh is not the product", "a product cell")):
            # known finding: the connectivity of the line factor is ignored, holes are filled
            b.sig = {"what": "extrude-fills-gaps-of-line-factor", "op": "extrude"}
        raise
    if gapped:
        # (only reached on a tree where extrusion honours the cells of the line factor)
        pass
    rec["cellmap"] = None
    rec["T"] = None
    return out, rec


def op_trace(rng, m, ctx=None):
    """not part of compositions (the result is a surface mesh): checked on its own"""
    from skfem import MeshLine1, MeshTri1, MeshQuad1, Mesh
    kind = kind_of(m)
    nf = m.facets.shape[1]
    sel = sorted(rng.sample(range(nf), rng.randint(1, min(nf, 6))))
    form = rng.choice(["array", "unsorted", "none", "name"])
    arg = np.array(sel, dtype=np.int32)
    if form == "unsorted":
        sh = list(sel)
        rng.shuffle(sh)
        arg = np.array(sh, dtype=np.int64)
        sel = sh
    elif form == "none":
        arg = None
        sel = m.boundary_facets().tolist()
    elif form == "name" and m.boundaries:
        name = rng.choice(sorted(m.boundaries))
        if len(m.boundaries[name]):
            arg = name
            sel = np.asarray(m.boundaries[name]).tolist()
    mtype = {"tri": MeshLine1, "quad": MeshLine1, "tet": MeshTri1, "hex": MeshQuad1}.get(kind)
    use_m = mtype is not None and rng.random() < 0.7
    rec = note({"op": "trace", "facets": [int(f) for f in sel], "form": form, "mtype": mtype.__name__ if use_m else None})
    if kind == "hex" and use_m:
        # hexahedral facets are stored unsorted (cyclic order): a valid quadrilateral each
        pass
    out, facets = m.trace(arg, mtype=mtype if use_m else None)
    facets = np.asarray(facets).tolist()
    if sorted(facets) != sorted(int(f) for f in sel):
        raise Bad("trace returns other facet numbers than requested", rec)
    P = points(m)
    oP = points(out)
    if len(set(oP)) != len(oP):
        raise Bad("trace mesh has duplicate vertices", rec)
    if len(np.unique(out.t)) != out.p.shape[1]:
        raise Bad("trace mesh has unused vertices", rec)
    if out.t.shape[1] != len(facets):
        raise Bad("trace mesh has a wrong number of cells", rec)
    want_pts = set(P[int(v)] for f in facets for v in m.facets[:, f])
    if set(oP) != want_pts:
        raise Bad("trace mesh vertices are not the vertices of the facets", rec)
    for j, f in enumerate(facets):
        got = [oP[int(v)] for v in out.t[:, j]]
        want = [P[int(v)] for v in m.facets[:, f]]
        if sorted(set(got)) != sorted(set(want)):
            raise Bad("cell j of the trace mesh is not facet facets[j] of the mesh", dict(rec, cell=j))
        if kind == "hex" and got != want and sorted(got) != sorted(want):
            raise Bad("quadrilateral of the trace has other vertices than the facet", dict(rec, cell=j))
    return out, rec


TOPO_OPS = [op_restrict, op_restrict, op_remove_elements, op_remove_unused, op_remove_duplicates, op_add,
            op_matmul, op_split, op_extrude, op_oriented]
GEOM_OPS = [op_translated, op_scaled, op_mirrored, op_morphed]
ALL_OPS = TOPO_OPS + GEOM_OPS


def strip_rec(rec):
    return {k: v for k, v in rec.items() if k not in ("T", "restart", "outs", "cellmap", "tol", "carries", "split")}


# ---------------------------------------------------------------------------------------------
# compositions: end-to-end statement about tags and cells relative to the FIRST mesh of a chain

class Chain:
    """provenance of the current mesh relative to a base mesh: origin[j] = base cell of current cell j,
    Tc = composed exact coordinate map, carried = which tag kinds have been carried all along"""

    def __init__(self, base):
        self.base = base
        self.origin = list(range(base.t.shape[1]))
        self.Tc = ident
        self.tol = Fr(0)
        self.carried = {"b": base.boundaries is not None, "s": base.subdomains is not None}
        self.split = False
        self.merged = False
        self.nops = 0

    def push(self, rec):
        T, cm = rec["T"], rec["cellmap"]
        self.origin = [self.origin[k] for k in cm]
        old = self.Tc
        self.Tc = (lambda x, old=old, T=T: T(old(x)))
        self.tol = self.tol * 8 + Fr(rec.get("tol", 0))
        for k in ("b", "s"):
            self.carried[k] = self.carried[k] and rec.get("carries", {}).get(k, False)
        self.split = self.split or rec.get("split", False)
        self.merged = self.merged or rec["op"] == "remove_duplicate_nodes"
        self.nops += 1

    def check(self, cur):
        """the tags of `cur` designate the same base cells / base facets (moved by Tc)"""
        base = self.base
        bP = [self.Tc(x) for x in points(base)]
        exp_pts = [bP[int(v)] for k in set(self.origin) for v in base.t[:, k]]
        if self.split and kind_of(base) == "quad":
            # crisscross centroids
            exp_pts += [tuple(sum(bP[int(v)][d] for v in base.t[:, k]) / 4 for d in range(2)) for k in set(self.origin)]
        cP = points(cur)
        if self.tol > 0:
            for v in range(len(cP)):
                try:
                    cP[v] = snap([cP[v]], exp_pts, self.tol)[0][0]
                except Bad:
                    pass
        if self.carried["s"]:
            new = cur.subdomains or {}
            for name, ix in (base.subdomains or {}).items():
                S = set(int(k) for k in np.asarray(ix).tolist())
                want = sorted(j for j in range(len(self.origin)) if self.origin[j] in S)
                got = sorted(int(j) for j in np.asarray(new.get(name, [])).tolist())
                if got != want:
                    raise Bad("after the composition a subdomain designates other cells than the images of its "
                              "original cells", {"name": name, "got": got, "want": want})
        if self.carried["b"] and kind_of(cur) == kind_of(base) or (self.carried["b"] and self.split and kind_of(base) == "quad"):
            new = cur.boundaries or {}
            alive = set()
            for j in range(cur.facets.shape[1]):
                alive.add(facet_key(cur, cP, j))
            for name, ix in (base.boundaries or {}).items():
                want = sorted(set(facet_key(base, bP, int(f)) for f in np.asarray(ix).tolist()) & alive)
                got = sorted(set(facet_key(cur, cP, int(f)) for f in np.asarray(new.get(name, [])).tolist()))
                if got != want:
                    raise Bad("after the composition a boundary designates other facets than the images of its "
                              "original facets", {"name": name})


def run_chain(ctx, rng, m, info, length, ops=None, single=False):
    """apply `length` random operations; every step is checked against its input and the tags also
    end to end against the first mesh since they were last (re)attached"""
    steps = []
    cur = m
    chain = Chain(cur)
    first = descr(m)
    for s in range(length):
        cand = list(ops or ALL_OPS)
        rng.shuffle(cand)
        done = False
        for op in cand:
            _LAST.clear()
            try:
                res = op(rng, cur)
            except Bad as b:
                if b.what.startswith("GENERATOR"):
                    ctx.count("generator-skip")
                    continue
                steps.append(dict(_LAST) or {"op": op.__name__[3:]})
                report(ctx, b, first, info, steps, cur)
                return None
            except Exception as e:
                steps.append(dict(_LAST) or {"op": op.__name__[3:]})
                ctx.violation(f"{op.__name__[3:]} raised {exc_kind(e)}: {e!r}"[:300],
                              {"first": first, "info": info, "steps": [strip_rec(x) for x in steps],
                               "input_of_failing_step": descr(cur)},
                              {"what": "raise", "op": op.__name__[3:], "exc": exc_kind(e), "cls": type(cur).__name__})
                return None
            if res is None:
                continue
            new, rec = res
            steps.append(rec)
            ctx.count("op:" + rec["op"])
            ctx.count("class:" + type(cur).__name__)
            done = True
            break
        if not done:
            break
        if rec.get("restart") is not None:
            chain = Chain(rec["restart"])
        if rec["cellmap"] is None:
            # the operation does not carry tags by design: attach new ones and start a new chain
            try:
                cur = retag(rng, new) if rng.random() < 0.8 else new
            except Exception:
                cur = new
            chain = Chain(cur)
        else:
            chain.push(rec)
            cur = new
            if chain.nops >= 2:
                try:
                    chain.check(cur)
                    ctx.count("end-to-end-checks")
                except Bad as b:
                    report(ctx, b, first, info, steps, cur, e2e=True)
                    return None
    return steps


def report(ctx, b, first, info, steps, cur, e2e=False):
    last = steps[-1]["op"] if steps else "?"
    sig = b.sig or {"what": b.what, "op": last, "cls": type(cur).__name__}
    ctx.violation(f"{last}: {b.what}" + (" (end to end)" if e2e else ""),
                  {"first": first, "info": info, "steps": [strip_rec(x) for x in steps],
                   "input_of_failing_step": descr(cur), "detail": b.detail}, sig)


# ---------------------------------------------------------------------------------------------
# second-order meshes: coordinate transforms move every node; topological surgery is a known gap

def second_order_cases(ctx, rng, n):
    for it in range(n):
        m, info = meshes.gen_mesh(rng, meshes.SECOND_ORDER)
        m, _ = meshes.random_tags(rng, m)
        op = rng.choice(GEOM_OPS)
        try:
            # vertices-only view for the cell oracle: evaluate on the first-order skeleton, and on all nodes
            # through finish_transform's per-vertex comparison
            res = op(rng, m)
            ctx.count("second-order:" + op.__name__[3:])
            ctx.case({"second": info["kind"], "op": strip_rec(res[1]), "p": m.p.tolist()})
        except Bad as b:
            ctx.violation(f"{op.__name__[3:]} on a second-order mesh: {b.what}",
                          {"mesh": descr(m), "detail": b.detail}, {"what": b.what, "order": 2, "op": op.__name__[3:]})
        except Exception as e:
            ctx.violation(f"{op.__name__[3:]} on a second-order mesh raised {e!r}"[:300], {"mesh": descr(m)},
                          {"what": "raise", "order": 2, "op": op.__name__[3:]})
    # topological surgery on quadratic meshes
    for it in range(max(2, n // 4)):
        m, info = meshes.gen_mesh(rng, meshes.SECOND_ORDER)
        nt = m.t.shape[1]
        sub = rand_subset(rng, nt)
        for name, f in (("restrict", lambda: m.restrict(np.array(sub))),
                        ("remove_unused_nodes", lambda: m.remove_unused_nodes())):
            try:
                r = f()
                ok = r.doflocs.shape[1] == r.dofs.N
                if ok:
                    # all nodes of the kept cells at their old places
                    old = {tuple(sorted(fpt(m.doflocs[:, d]) for d in m.dofs.element_dofs[:, k])) for k in
                           (sub if name == "restrict" else range(nt))}
                    new = {tuple(sorted(fpt(r.doflocs[:, d]) for d in r.dofs.element_dofs[:, k])) for k in
                           range(r.t.shape[1])}
                    ok = old == new
            except Exception:
                ok = False
            ctx.count("second-order-surgery:" + name)
            if not ok:
                ctx.violation(f"{name} of a second-order mesh drops the higher-order nodes (result unusable)",
                              {"mesh": descr(m), "elements": sub},
                              {"what": "second-order-nodes-dropped", "order": 2})


# ---------------------------------------------------------------------------------------------

# ---------------------------------------------------------------------------------------------
# correspondence: the Lean model (driver ops surgery.*) against the implementation, exact arrays

def ipts(cols):
    """float columns -> integer tuples (common power-of-two denominator), exact"""
    P = [fpt(c) for c in cols]
    D = 1
    for x in P:
        for c in x:
            D = max(D, c.denominator)
    return [[int(c * D) for c in x] for x in P], D


def cols(a):
    return np.asarray(a).T.tolist()


def plain_tags(m):
    b = {k: np.asarray(v).astype(int).tolist() for k, v in (m.boundaries or {}).items()}
    sd = {k: np.asarray(v).astype(int).tolist() for k, v in (m.subdomains or {}).items()}
    return b, sd


def sorted_cols(a):
    return np.sort(np.asarray(a), axis=0).T.tolist()


def correspondence(ctx):
    """every model function is run on the inputs the implementation is run on; integer outputs
    must be identical"""
    from skfem import Mesh, MeshTri1, MeshLine1
    if not ctx.driver.available():
        ctx.broken.append({"kind": "driver-missing"})
        return
    rng = ctx.rng
    reqs, cmp = [], []

    def add(op, req, fn):
        reqs.append(dict(req, op=op))
        cmp.append((op, fn))

    n = ctx.scale(150, 1200)
    for it in range(n):
        if ctx.time_left(0.25) < 0:
            break
        m, info = gen_tagged(rng, tag_p=1.0)
        kind = kind_of(m)
        nt = m.t.shape[1]
        rf = ref_facets(m)
        cells = cols(m.t)
        # 1. _reix on a random index block
        sub = rand_subset(rng, nt)
        ix = m.t[:, sub]
        p2, t2, u = m._reix(ix)
        add("surgery.reix", {"cells": cols(ix)},
            lambda o, t2=t2, u=u, p2=p2, m=m: o["cells"] == cols(t2) and o["used"] == u.tolist()
            and np.array_equal(p2, m.p[:, u]))
        # 2. restrict with tags, arbitrary order of the selection
        el = list(sub)
        if rng.random() < 0.5:
            rng.shuffle(el)
        out, vm = m.restrict(np.array(el, dtype=np.int64), return_mapping=True)
        b, sd = plain_tags(m)
        bn, sn = sorted(b), sorted(sd)
        impl = {"cells": cols(out.t), "vertex_map": np.asarray(vm).tolist(),
                "used_facets": np.unique(m.t2f[:, el]).tolist(), "facets": sorted_cols(out.facets),
                "boundaries": [np.asarray(out.boundaries[k]).tolist() for k in bn] if out.boundaries is not None else [],
                "subdomains": [np.asarray(out.subdomains[k]).tolist() for k in sn] if out.subdomains is not None else []}
        add("surgery.restrict", {"cells": cells, "ref": rf, "elements": el,
                                 "boundaries": [b[k] for k in bn], "subdomains": [sd[k] for k in sn]},
            lambda o, impl=impl: all(o[k] == impl[k] for k in impl))
        # 3. remove_elements = restrict to the complement
        if nt >= 2:
            rem = rand_subset(rng, nt, proper=True)
            if len(rem) == nt:
                rem = rem[:-1]
            keep = np.setdiff1d(np.arange(nt), rem).tolist()
            out2 = m.remove_elements(np.array(rem))
            add("surgery.remove_keep", {"nt": nt, "elements": rem},
                lambda o, keep=keep, out2=out2, m=m: o == keep
                and cols(out2.t) == cols(m.restrict(np.array(keep)).t))
        # 4. _remove_duplicate_nodes
        md = with_duplicates(rng, m)
        pd, td = Mesh._remove_duplicate_nodes(md.p, md.t)
        ip, D = ipts(md.p.T)
        add("surgery.dedup", {"pts": ip, "cells": cols(md.t)},
            lambda o, pd=pd, td=td, D=D: o["cells"] == cols(td)
            and o["points"] == [[int(c * D) for c in fpt(x)] for x in pd.T])
        # 5. + (coordinates rounded to 8 decimals first, as Mesh.__add__ does)
        mode, other = neighbour_copy(rng, m)
        if other is not None:
            j = m + other
            r1, r2 = np.round(m.p, 8), np.round(other.p, 8)
            ipj, D = ipts(np.hstack((r1, r2)).T)
            n1 = m.p.shape[1]
            srt = (lambda a: sorted_cols(a)) if kind == "tri" else (lambda a: cols(a))
            add("surgery.join", {"p1": ipj[:n1], "p2": ipj[n1:], "t1": cells, "t2": cols(other.t)},
                lambda o, j=j, D=D, srt=srt: srt(np.array(o["cells"]).T) == cols(j.t)
                and o["points"] == [[int(c * D) for c in fpt(x)] for x in j.p.T])
            # 6. @ with a list of two further meshes
            sh = np.zeros(m.p.shape[0])
            sh[0] = 50
            third = m.translated(tuple(sh))
            outs = m @ [other, third]
            ipm, D = ipts(np.hstack((m.p, other.p, third.p)).T)
            n2 = other.p.shape[1]
            add("surgery.matmul", {"ps": [ipm[:n1], ipm[n1:n1 + n2], ipm[n1 + n2:]],
                                   "ts": [cells, cols(other.t), cols(third.t)]},
                lambda o, outs=outs, srt=srt: [srt(np.array(c).T) for c in o["cells"]] == [cols(x.t) for x in outs])
        # 7./8. splitting
        if kind == "quad":
            for style, tag in ((None, "quad"), ("x", "quad-x")):
                tm = m.to_meshtri(style=style)
                sname = sorted(m.subdomains)[0] if m.subdomains else None
                sub0 = np.asarray(m.subdomains[sname]).tolist() if sname else []
                add("surgery.split", {"cells": cells, "style": tag, "nv": int(m.p.shape[1]), "sub": sub0},
                    lambda o, tm=tm, sname=sname: sorted_cols(np.array(o["cells"]).T) == cols(tm.t)
                    and (sname is None or o["sub"] == np.asarray(tm.subdomains[sname]).tolist()))
                for k in sorted(m.boundaries or {}):
                    old = np.sort(np.asarray(m.boundaries[k]))
                    if len(set(old.tolist())) != len(old):
                        continue
                    add("surgery.tri_lookup", {"new_facets": cols(tm.facets), "facets": cols(m.facets[:, old])},
                        lambda o, tm=tm, k=k: o == np.asarray(tm.boundaries[k]).tolist())
        elif kind in ("hex", "wedge"):
            tm = m.to_meshtet()
            add("surgery.split", {"cells": cells, "style": kind, "nv": int(m.p.shape[1]), "sub": []},
                lambda o, tm=tm: o["cells"] == cols(tm.t))
        # 9. extrusion by a gap-free line
        if kind == "tri" and nt <= 12:
            line, _ = gen_line(rng, gaps=False)
            w = m * line
            zs = np.sort(line.p[0])
            ipb, D = ipts(np.hstack((m.p, np.vstack((zs, zs))[:, :0])).T)
            allp, D = ipts(np.hstack((np.vstack((m.p, np.zeros(m.p.shape[1]))),
                                      np.vstack((np.zeros((2, len(zs))), zs)))).T)
            base = [x[:2] for x in allp[: m.p.shape[1]]]
            zi = [x[2] for x in allp[m.p.shape[1]:]]
            add("surgery.extrude", {"nv": int(m.p.shape[1]), "cells": cells, "nlayers": len(zs) - 1,
                                    "pts": base, "zs": zi},
                lambda o, w=w, D=D: o["cells"] == cols(w.t)
                and o["points"] == [[int(c * D) for c in fpt(x)] for x in w.p.T])
        # 10. affine maps, exact rationals against the floats of the implementation
        dim = m.p.shape[0]
        P = points(m)
        qp = [[f"{c.numerator}/{c.denominator}" for c in x] for x in P]
        fs = [rng.choice([0.5, 2.0, -1.0, 1.5, 3.0]) for _ in range(dim)]
        d = [dy(rng, -3, 3) for _ in range(dim)]
        nrm = [0] * dim
        while not any(nrm):
            nrm = [rng.randint(-3, 3) for _ in range(dim)]
        pt = [dy(rng, -2, 2) for _ in range(dim)]
        q = (lambda v: [f"{Fr(x).numerator}/{Fr(x).denominator}" for x in v])
        for knd, a, bb, res in (("scaled", fs, [0] * dim, m.scaled(tuple(fs))),
                                ("translated", d, [0] * dim, m.translated(tuple(d))),
                                ("mirrored", nrm, pt, m.mirrored(tuple(float(x) for x in nrm), tuple(pt)))):
            tol = 0.0 if knd != "mirrored" else 1e-12 * (1 + float(np.abs(m.p).max()) + max(abs(v) for v in pt))
            add("surgery.affine", {"kind": knd, "pts": qp, "a": q(a), "b": q(bb)},
                lambda o, res=res, tol=tol: all(abs(float(Fr(c)) - res.p[i, j]) <= tol and (tol > 0 or Fr(c) == Fr(float(res.p[i, j])))
                                                for j, x in enumerate(o) for i, c in enumerate(x)))
        ctx.count("corr-mesh:" + kind)
    outs = ctx.driver.run(reqs)
    for (op, fn), req, o in zip(cmp, reqs, outs):
        try:
            ok = not (isinstance(o, dict) and "error" in o) and bool(fn(o))
        except Exception as e:  # a malformed answer is a mismatch, not an infrastructure error
            ok = False
        ctx.corr(op, ok, req, o, None)


def run(ctx):
    ctx.rule = ("random tagged meshes of the six first-order classes (Delaunay/tensor/refined, holes, renumbered, "
                "cells permuted, locally re-ordered) x one operation or a random composition of 2-4 operations out of "
                "restrict (7 argument forms) / remove_elements / remove_unused_nodes / remove_duplicate_nodes / + / @ "
                "/ to_meshtri (2 styles) / to_meshtet / extrusion / oriented / translated / scaled / mirrored / morphed "
                "(+ trace on its own, + the four second-order classes under the coordinate transforms); a case is one "
                "(mesh, tag set, operation sequence with its random arguments); non-trivial = at least two cells")
    ctx.trusted += ["Lean kernel; axioms propext/Classical.choice/Quot.sound",
                    "model Skv.Surgery hand-written, tied by the exact correspondence ops surgery.*",
                    "np.unique / structured np.unique / np.intersect1d / np.setdiff1d contracts (modelled, validated by "
                    "the correspondence)",
                    "np.round(x, 8) inside Mesh.__add__ is taken as the documented normalisation of joined coordinates",
                    "fractions.Fraction oracle; every float coordinate is an exact dyadic rational"]
    ctx.assumptions += ["cell subsets are non-empty and without repetitions; tag index arrays without repetitions",
                        "input meshes are valid (no duplicate / unused vertices) except where the operation is meant "
                        "to repair exactly that",
                        "mirrored() normalises the normal in floating point: coordinates compared to 1e-12",
                        "orientation flags of OrientedBoundary tags are not part of the statement (dropped by "
                        "restrict, known finding F13)"]
    if not getattr(ctx, "no_lean", False):
        ctx.prove(["SkfemVerif.Props.C18"], ["SkfemVerif/Props/C18.lean"])
    rng = ctx.rng
    correspondence(ctx)
    # single operations, every op on every class it applies to
    n1 = ctx.scale(1800, 20000)
    for it in range(n1):
        if ctx.time_left(0.45) < 0:
            break
        m, info = gen_tagged(rng)
        op = ALL_OPS[it % len(ALL_OPS)]
        steps = run_chain(ctx, rng, m, info, 1, ops=[op])
        ctx.case({"first": descr(m), "steps": [strip_rec(s) for s in (steps or [])]}, nontrivial=m.t.shape[1] >= 2,
                 sample={"info": info, "steps": [{k: v for k, v in strip_rec(s).items() if k in
                                                  ("op", "form", "elements", "style", "mode", "factors", "normal")}
                                                 for s in (steps or [])]} if it < 3 else None)
    # trace
    for it in range(ctx.scale(250, 2500)):
        if ctx.time_left(0.5) < 0:
            break
        m, info = gen_tagged(rng, ["tri", "quad", "tet", "hex", "wedge", "line"])
        try:
            _, rec = op_trace(rng, m)
            ctx.count("op:trace")
            ctx.case({"first": descr(m), "trace": rec})
        except Bad as b:
            ctx.violation("trace: " + b.what, {"first": descr(m), "detail": b.detail}, {"what": b.what, "op": "trace"})
        except Exception as e:
            ctx.violation(f"trace raised {e!r}"[:300], {"first": descr(m)}, {"what": "raise", "op": "trace"})
    # compositions
    n2 = ctx.scale(1300, 16000)
    for it in range(n2):
        if ctx.time_left(0.85) < 0:
            break
        m, info = gen_tagged(rng, tag_p=0.95)
        L = rng.randint(2, 4)
        steps = run_chain(ctx, rng, m, info, L)
        ctx.count("composition-length:%d" % len(steps or []))
        ctx.case({"first": descr(m), "steps": [strip_rec(s) for s in (steps or [])]}, nontrivial=m.t.shape[1] >= 2,
                 sample={"info": info, "ops": [s["op"] for s in (steps or [])]} if it < 3 else None)
    second_order_cases(ctx, rng, ctx.scale(80, 800))
    if ctx.tier == "thorough" and not getattr(ctx, "no_lean", False):
        ctx.leanchecker(["SkfemVerif.Props.C18"])
