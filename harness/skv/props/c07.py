"""C07  DOF lookup returns exactly the DOFs that control the selected entities.

Layers:
  1. proof: lean/SkfemVerif/Props/C07.lean over Model/Dofs.lean + Model/DofLookup.lean;
  2. correspondence: driver ops dofs.lookup / dofs.normalize / dofs.complement / dofs.or / dofs.names_of /
     elem.names / topo.expand_facets against basis.get_dofs(...), mesh.normalize_*, basis.complement_dofs,
     Element.dofnames, mesh._expand_facets (exact integer arrays / string lists);
  3. search: the statement evaluated on the implementation with oracles that use neither the per-entity DOF
     tables nor facets->vertices/edges expansion nor the selector normalisation of the library:
     the per-cell table element_dofs (C04), the cell list t, the reference cell's facet/edge tables, the
     basis functions themselves (zero-out test through FacetBasis) and the element structure for names.
"""
import numpy as np

from .. import meshes, elements
from ..core import exc_kind

KINDS = meshes.FIRST_ORDER

# --------------------------------------------------------------------------------------------
# trace type of the (conforming) elements for the zero-out test; everything else is skipped there

H1_VALUE = {"ElementLineP1", "ElementLineP2", "ElementLinePp", "ElementLineHermite", "ElementLineMini",
            "ElementTriP1", "ElementTriP2", "ElementTriP3", "ElementTriP4", "ElementTriCCR", "ElementTriArgyris",
            "ElementTriMini", "ElementTriHermite", "ElementTriP1G", "ElementTriP2G", "ElementTriP1B",
            "ElementTriP2B", "ElementQuad1", "ElementQuad2", "ElementQuadS2", "ElementQuadP",
            "ElementTetP1", "ElementTetP2", "ElementTetMini", "ElementTetCCR", "ElementHex1",
            "ElementHex2", "ElementHexS2", "ElementWedge1"}
# tensor-product polynomials in the PHYSICAL coordinates (ElementGlobal): conforming on axis-parallel cells only
H1_VALUE_AXIS_PARALLEL = {"ElementQuadBFS", "ElementHexC1", "ElementQuad2G"}
HDIV_NORMAL = {"ElementTriRT0", "ElementTriRT1", "ElementTriRT2", "ElementTriBDM1", "ElementQuadRT0",
               "ElementQuadRT1", "ElementTetRT0", "ElementTetRT1", "ElementHexRT1"}
HCURL_TANGENTIAL = {"ElementTriN1", "ElementTriN2", "ElementTriN3", "ElementQuadN1", "ElementTetN0",
                    "ElementTetN1"}


# not listed on purpose: Crouzeix-Raviart / Morley / P0 / DG / skeleton elements (no point-wise trace control)


def axis_parallel(m):
    """every facet lies in a coordinate hyperplane"""
    p = np.asarray(m.p)[:, np.asarray(m.facets)]          # dim x nverts-per-facet x nfacets
    flat = (np.abs(p - p[:, :1, :]).max(axis=1) == 0)      # dim x nfacets
    return bool(flat.any(axis=0).all())


def reset_caches(e):
    """the pinned ElementLinePp kept the Legendre values of the previous call whenever the number of points
    agreed (finding F8 of C15); start every evaluation from an empty cache (old and repaired layout of the
    cache) so that this check observes C07 only"""
    for attr in ("elems",):
        for c in getattr(e, attr, ()) or ():
            reset_caches(c)
    if hasattr(e, "elem"):
        reset_caches(e.elem)
    if type(e).__name__ == "ElementLinePp":
        e.P = np.zeros((0, 0))
        e.dP = np.zeros((0, 0, 1))
        if hasattr(e, "_X"):
            e._X = np.array([])


def trace_types(e, m=None):
    """list (one per solution component) of 'value' | 'normal' | 'tangential', or None if the zero-out test
    does not apply (non-conforming / discontinuous / cell-wise elements)"""
    from skfem.element import ElementComposite, ElementVector, ElementDG
    if isinstance(e, ElementDG):
        return None
    if isinstance(e, ElementComposite):
        out = []
        for c in e.elems:
            t = trace_types(c, m)
            if t is None or len(t) != 1:
                return None
            out += t
        return out
    if isinstance(e, ElementVector):
        t = trace_types(e.elem, m)
        return ["value"] if t == ["value"] else None
    n = type(e).__name__
    if n in H1_VALUE:
        return ["value"]
    if n in H1_VALUE_AXIS_PARALLEL and m is not None and axis_parallel(m):
        return ["value"]
    if n in HDIV_NORMAL:
        return ["normal"]
    if n in HCURL_TANGENTIAL:
        return ["tangential"]
    return None


# --------------------------------------------------------------------------------------------
# independent description of the per-cell layout and of the names

def layout(e, rd):
    """local basis functions of one cell in the order of the rows of element_dofs:
    list of (kind, local entity, local dof)"""
    out = []
    for lv in range(rd.nnodes):
        for a in range(int(e.nodal_dofs)):
            out.append(("nodal", lv, a))
    if e.dim == 3 and e.edge_dofs > 0:
        for le in range(rd.nedges):
            for b in range(int(e.edge_dofs)):
                out.append(("edge", le, b))
    if e.dim >= 2 and e.facet_dofs > 0:
        for lf in range(rd.nfacets):
            for d in range(int(e.facet_dofs)):
                out.append(("facet", lf, d))
    for g in range(int(e.interior_dofs)):
        out.append(("interior", 0, g))
    return out


class Ambiguous(Exception):
    pass


def row_names(e):
    """(kind, row) -> name for an element, derived from its structure (components of a composite, components
    of a vector element, local functions of the element cut by ElementDG) and, for plain elements, from
    `dofnames` — which is unambiguous there unless edge and facet rows coexist under different names"""
    from skfem.element import ElementComposite, ElementVector, ElementDG
    if isinstance(e, ElementComposite):
        subs = [row_names(c) for c in e.elems]
        out = {}
        for kind, attr in (("nodal", "nodal_dofs"), ("edge", "edge_dofs"), ("facet", "facet_dofs"),
                           ("interior", "interior_dofs")):
            r = 0
            for n, c in enumerate(e.elems):
                for j in range(int(getattr(c, attr))):
                    out[(kind, r)] = subs[n][(kind, j)] + "^" + str(n + 1)
                    r += 1
        return out
    if isinstance(e, ElementVector):
        sub = row_names(e.elem)
        out = {}
        for (kind, j), nm in sub.items():
            for comp in range(e.dim):
                out[(kind, j * e.dim + comp)] = nm + "^" + str(comp + 1)
        return out
    if isinstance(e, ElementDG):
        sub = row_names(e.elem)
        lay = layout(e.elem, e.elem.refdom)
        return {("interior", g): sub[(kind, row)] for g, (kind, ent, row) in enumerate(lay)}
    nn, ne, nf, ni = int(e.nodal_dofs), int(e.edge_dofs), int(e.facet_dofs), int(e.interior_dofs)
    if e.dim != 3:
        ne = 0
    dn = list(e.dofnames)
    if len(dn) < nn + ne + nf + ni:
        raise Ambiguous("dofnames has %d entries for %d rows" % (len(dn), nn + ne + nf + ni))
    # (a longer list is tolerated: the lookups read the first nn + nf + ne + ni positions only, e.g. ElementTriN3)
    mid = dn[nn:nn + ne + nf]
    if ne and nf and (mid[:nf] + mid[nf:] != mid[ne:] + mid[:ne]):
        # facet-first and edge-first readings differ: a plain element does not tell which one is meant
        raise Ambiguous("edge and facet rows with different names in a plain element")
    out = {}
    for a in range(nn):
        out[("nodal", a)] = dn[a]
    for d in range(nf):
        out[("facet", d)] = mid[d]           # facet-first reading (equal to the other one, see above)
    for b in range(ne):
        out[("edge", b)] = mid[nf + b]
    for g in range(ni):
        out[("interior", g)] = dn[nn + ne + nf + g]
    return out


def component_of(e, lay):
    """for composite / vector elements: the solution component each local basis function lives in
    (from the structure), used to confront the names with the basis functions themselves"""
    from skfem.element import ElementComposite, ElementVector
    if isinstance(e, ElementComposite):
        comp = []
        for (kind, ent, row) in lay:
            attr = {"nodal": "nodal_dofs", "edge": "edge_dofs", "facet": "facet_dofs",
                    "interior": "interior_dofs"}[kind]
            r = row
            for n, c in enumerate(e.elems):
                k = int(getattr(c, attr))
                if r < k:
                    comp.append(n)
                    break
                r -= k
        return comp
    if isinstance(e, ElementVector):
        return [row % e.dim for (kind, ent, row) in lay]
    return None


class Tables:
    """everything the oracles need, computed from t, the reference cell and element_dofs only"""

    def __init__(self, m, e, basis):
        rd = m.elem.refdom
        self.m, self.e = m, e
        self.N = int(basis.N)
        self.ed = np.asarray(basis.element_dofs)
        self.lay = layout(e, rd)
        self.ok = len(self.lay) == self.ed.shape[0]
        t = np.asarray(m.t)
        nt = t.shape[1]
        self.nt = nt
        # facet numbering as defined by m.facets (vertex sets)
        fkey = {}
        for f, col in enumerate(np.asarray(m.facets).T):
            fkey[tuple(sorted(set(int(v) for v in col)))] = f
        self.nf = len(fkey)
        # closure of the local facets in the reference cell
        self.loc_facet_vertices = [sorted(set(int(v) for v in loc)) for loc in rd.facets]
        if rd.edges is not None:
            self.loc_facet_edges = [[le for le, ed_ in enumerate(rd.edges) if set(int(v) for v in ed_) <= set(fv)]
                                    for fv in self.loc_facet_vertices]
        else:
            self.loc_facet_edges = [[] for _ in self.loc_facet_vertices]
        # (cell, local facet) -> global facet
        self.cell_facet = np.zeros((len(rd.facets), nt), dtype=np.int64)
        count = np.zeros(self.nf, dtype=np.int64)
        for k in range(nt):
            for j, fv in enumerate(self.loc_facet_vertices):
                f = fkey[tuple(sorted(set(int(t[v, k]) for v in fv)))]
                self.cell_facet[j, k] = f
                count[f] += 1
        self.boundary = sorted(int(f) for f in np.nonzero(count == 1)[0])
        # midpoints as the library defines them: mean of the listed vertices
        self.fmid = np.asarray(m.p)[:, np.asarray(m.facets)].mean(axis=1)
        self.cmid = np.asarray(m.p)[:, t].mean(axis=1)
        # name / kind of every global DOF
        self.name_error = None
        try:
            rn = row_names(e)
            lname = [rn[(kind, row)] for (kind, ent, row) in self.lay] if self.ok else None
        except Ambiguous as ex:
            lname = None
            self.name_error = str(ex)
        except KeyError as ex:
            lname = None
            self.name_error = "row without a name: %r" % (ex,)
        self.lname = lname
        self.dname, self.dkind = {}, {}
        self.name_clash = None
        if self.ok:
            for i, (kind, ent, row) in enumerate(self.lay):
                for k in range(nt):
                    d = int(self.ed[i, k])
                    self.dkind[d] = kind
                    if lname is not None:
                        if self.dname.setdefault(d, lname[i]) != lname[i]:
                            self.name_clash = d

    # ---- oracles (sets of global DOF numbers)
    def facet_dofs(self, S):
        S = set(int(f) for f in S)
        out = set()
        for k in range(self.nt):
            for j in range(self.cell_facet.shape[0]):
                if int(self.cell_facet[j, k]) not in S:
                    continue
                vs = set(self.loc_facet_vertices[j])
                es = set(self.loc_facet_edges[j])
                for i, (kind, ent, row) in enumerate(self.lay):
                    if (kind == "nodal" and ent in vs) or (kind == "edge" and ent in es) or \
                            (kind == "facet" and ent == j):
                        out.add(int(self.ed[i, k]))
        return out

    def element_dofs(self, S):
        S = sorted(set(int(k) for k in S))
        return set(int(v) for v in self.ed[:, S].flatten()) if S else set()

    def node_dofs(self, S):
        S = set(int(v) for v in S)
        t = np.asarray(self.m.t)
        out = set()
        for i, (kind, ent, row) in enumerate(self.lay):
            if kind != "nodal":
                continue
            for k in range(self.nt):
                if int(t[ent, k]) in S:
                    out.add(int(self.ed[i, k]))
        return out


# --------------------------------------------------------------------------------------------
# helpers

def aslist(a):
    return [int(v) for v in np.asarray(a).flatten()]


def rows_list(r, n):
    if isinstance(r, slice):
        return list(range(n))[r]
    return aslist(r)


def view_fields(v):
    d = v.obj
    return {"nodal_ix": aslist(v.nodal_ix), "facet_ix": aslist(v.facet_ix), "edge_ix": aslist(v.edge_ix),
            "interior_ix": aslist(v.interior_ix),
            "nodal_rows": rows_list(v.nodal_rows, d.nodal_dofs.shape[0]),
            "facet_rows": rows_list(v.facet_rows, d.facet_dofs.shape[0]),
            "edge_rows": rows_list(v.edge_rows, d.edge_dofs.shape[0]),
            "interior_rows": rows_list(v.interior_rows, d.interior_dofs.shape[0]),
            "flat": aslist(v.flatten())}


def byname_list(d):
    return [[str(k), aslist(a)] for k, a in d.items()]


def topo_json(m, e):
    three = m.dim() == 3
    return {"dim": int(e.dim), "nverts": int(m.nvertices), "nedges": int(m.edges.shape[1]) if three else 0,
            "nfacets": int(m.nfacets), "nt": int(m.nelements), "t": m.t.tolist(),
            "t2e": m.t2e.tolist() if three else [], "t2f": m.t2f.tolist()}


def with_edges(m):
    return bool(m.dim() == 3 and m.bndelem is not None)


def keyset(cols):
    return set(tuple(float(x) for x in c) for c in np.asarray(cols).T)


def member_pred(keys):
    """callable selecting exactly the columns whose coordinates are in `keys`"""
    def pred(x):
        x = np.asarray(x)
        return np.array([tuple(float(v) for v in c) in keys for c in x.T], dtype=bool)
    return pred


def halfspace(rng, pts):
    """a geometric predicate with its truth table computed here"""
    d = rng.randrange(pts.shape[0])
    vals = sorted(set(float(v) for v in pts[d]))
    c = rng.choice(vals)
    mode = rng.choice(["le", "ge", "eq"])
    if mode == "le":
        return (lambda x: x[d] <= c), [bool(v <= c) for v in pts[d]], f"x[{d}]<={c}"
    if mode == "ge":
        return (lambda x: x[d] >= c), [bool(v >= c) for v in pts[d]], f"x[{d}]>={c}"
    return (lambda x: x[d] == c), [bool(v == c) for v in pts[d]], f"x[{d}]=={c}"


def rand_subset(rng, pool, allow_empty=True):
    pool = list(pool)
    if not pool:
        return []
    r = rng.random()
    if r < 0.08 and allow_empty:
        return []
    if r < 0.2:
        return [rng.choice(pool)]
    if r < 0.3:
        return sorted(pool)
    k = rng.randint(1, max(1, min(len(pool), 7)))
    return sorted(rng.sample(pool, k))


def messy_array(rng, S):
    """the same set as an index array in random order, sometimes with a repetition, random integer dtype"""
    S = list(S)
    rng.shuffle(S)
    if S and rng.random() < 0.4:
        S.append(rng.choice(S))
    return np.array(S, dtype=rng.choice([np.int32, np.int64]))


class Case:
    def __init__(self, ctx, m, tags, e, ename, info):
        self.ctx, self.m, self.tags, self.e, self.ename, self.info = ctx, m, tags, e, ename, info

    def replay(self, **kw):
        d = {"mesh": meshes.mesh_descr(self.m), "tags": self.tags, "element": self.ename}
        d.update(kw)
        return d

    def viol(self, what, sig, **kw):
        self.ctx.violation(what, self.replay(**kw), dict(sig, element_family=elements.family(self.e)))


# --------------------------------------------------------------------------------------------

def check_result(case, T, v, want, what, sel_descr):
    """v: DofsView; want: oracle set.  sortedness / duplicate freeness / range / exactness / equivalent getters"""
    flat = np.asarray(v.flatten())
    fl = aslist(flat)
    ok = True
    if any(b <= a for a, b in zip(fl, fl[1:])):
        case.viol(what + ": result is not strictly ascending (sorted, duplicate free)",
                  {"what": "not-sorted", "query": what}, selector=sel_descr, got=fl)
        ok = False
    if fl and (fl[0] < 0 or fl[-1] >= T.N):
        case.viol(what + ": result contains numbers outside 0..N-1", {"what": "out-of-range", "query": what},
                  selector=sel_descr, got=fl, N=T.N)
        ok = False
    if set(fl) != want:
        case.viol(what + ": returned DOFs differ from the DOFs attached to the selected entities and their "
                  "sub-entities", {"what": "inexact", "query": what}, selector=sel_descr,
                  missing=sorted(want - set(fl))[:20], spurious=sorted(set(fl) - want)[:20])
        ok = False
    alt = [aslist(np.asarray(v)), aslist(v.all())]
    if any(a != fl for a in alt) or len(v) != len(fl):
        case.viol(what + ": flatten() / all() / __array__ / len disagree", {"what": "getters", "query": what},
                  selector=sel_descr)
        ok = False
    return ok


def same(case, a, b, what, sel_a, sel_b):
    fa, fb = aslist(a.flatten()), aslist(b.flatten())
    if fa != fb:
        case.viol(f"{what}: two ways of naming the same subset return different DOFs",
                  {"what": "selector-forms", "query": what}, selector_a=sel_a, selector_b=sel_b,
                  got_a=fa[:40], got_b=fb[:40])
        return False
    return True


def name_checks(case, T, basis, v, query_kw, sel_descr):
    """keep / drop / all / skip / by-name views against the name oracle"""
    ctx = case.ctx
    rng = ctx.rng
    if T.lname is None or T.name_clash is not None:
        ctx.count("names:oracle-unavailable")
        return
    flat = aslist(v.flatten())
    allnames = sorted(set(T.dname.values()))
    present = sorted(set(T.dname[d] for d in flat))
    pool = allnames + ["does_not_exist"]
    singles = present if len(present) <= 3 else rng.sample(present, 3)
    trials = [[nm] for nm in singles]
    k = rng.randint(1, max(1, min(3, len(pool))))
    trials.append(rng.sample(pool, k))
    for names in trials:
        arg = names[0] if (len(names) == 1 and rng.random() < 0.5) else list(names)
        want_keep = [d for d in flat if T.dname[d] in names]
        want_drop = [d for d in flat if T.dname[d] not in names]
        try:
            got = {"keep": aslist(v.keep(arg).flatten()), "all": aslist(v.all(arg)),
                   "drop": aslist(v.drop(arg).flatten()),
                   "skip": aslist(basis.get_dofs(skip=list(names), **query_kw).flatten()),
                   "keep.keep": aslist(v.keep(list(names) + ["zzz"]).keep(arg).flatten()),
                   "drop.keep": aslist(v.drop(arg).keep(arg).flatten())}
        except Exception as ex:
            case.viol("name filter raised " + exc_kind(ex), {"what": "raise-names"}, selector=sel_descr,
                      names=names, err=repr(ex))
            return
        want = {"keep": want_keep, "all": want_keep, "drop": want_drop, "skip": want_drop, "keep.keep": want_keep,
                "drop.keep": []}
        ctx.count("name-filter-evaluations", len(got))
        for op in got:
            if got[op] != want[op]:
                case.viol(f"name filter {op}({names}) does not select exactly the DOFs with these names",
                          {"what": "name-filter", "op": op}, selector=sel_descr, names=names,
                          got=got[op][:40], want=want[op][:40],
                          names_of_got=[T.dname.get(d) for d in got[op][:12]])
                break
    # by-name dictionaries of the view and of a filtered view
    byname_check(case, T, v, sel_descr, "")
    if present:
        nm = rng.choice(present)
        try:
            w = rng.choice([v.drop(nm), v.keep([n for n in present if n != nm] or [nm]),
                            basis.get_dofs(skip=[nm], **query_kw)])
        except Exception as ex:
            case.viol("name filter raised " + exc_kind(ex), {"what": "raise-names"}, selector=sel_descr, err=repr(ex))
            return
        byname_check(case, T, w, sel_descr, " after a name filter")


def byname_check(case, T, v, sel_descr, suffix):
    try:
        flat = aslist(v.flatten())
        dicts = {"nodal": v.nodal, "facet": v.facet, "edge": v.edge, "interior": v.interior}
    except Exception as ex:
        case.viol("by-name view raised " + exc_kind(ex), {"what": "raise-byname"}, selector=sel_descr, err=repr(ex))
        return
    for kind, dct in dicts.items():
        mine = {}
        for d in flat:
            if T.dkind[d] == kind:
                mine.setdefault(T.dname[d], set()).add(d)
        got = {str(k): set(aslist(a)) for k, a in dct.items()}
        got_nonempty = {k: s for k, s in got.items() if s}
        if got_nonempty != mine:
            case.viol(f"by-name view .{kind}{suffix} does not map each name to the DOFs of that kind carrying it",
                      {"what": "by-name", "kind": kind}, selector=sel_descr,
                      got={k: sorted(s)[:20] for k, s in got.items()},
                      want={k: sorted(s)[:20] for k, s in mine.items()})
            break
    case.ctx.count("by-name-evaluations", 4)


def families(e):
    out = {elements.family(e)}
    for c in getattr(e, "elems", ()) or ():
        out |= families(c)
    if hasattr(e, "elem"):
        out |= families(e.elem)
    return out


def trace_arrays(fb, types, fields):
    """list of arrays (one per component) holding the relevant trace component, shape (..., nfacets, nqp)"""
    n = np.asarray(fb.normals.value)
    out = []
    for typ, f in zip(types, fields):
        val = np.asarray(f.value)
        if typ == "value":
            out.append(val.reshape((-1,) + val.shape[-2:]))
        elif typ == "normal":
            out.append(np.einsum("i...,i...->...", val, n)[None])
        else:
            vn = np.einsum("i...,i...->...", val, n)
            out.append(val - vn[None] * n)
    return out


def zero_out(case, T, basis, S, got, types, sel_descr):
    """ZERO-OUT TEST: a coefficient vector supported outside the returned set has vanishing trace on the
    selected facets (both sides of interior facets); per-function version: a local basis function with a
    non-zero trace on a selected facet has its DOF in the returned set"""
    from skfem import FacetBasis
    ctx = case.ctx
    rng = ctx.rng
    m, e = case.m, case.e
    S = sorted(S)
    if not S:
        return
    interior = [f for f in S if f not in set(T.boundary)]
    sides = [(0, S)] + ([(1, interior)] if interior else [])
    gotset = set(got)
    x = np.array([0.0 if d in gotset else rng.randint(1, 16) / 8 * rng.choice([-1, 1]) for d in range(T.N)])
    xall = np.array([rng.randint(1, 16) / 8 * rng.choice([-1, 1]) for d in range(T.N)])
    for side, facets in sides:
        try:
            reset_caches(e)
            # sample points only: a moderate rule suffices and exists for every facet shape
            fb = FacetBasis(m, e, facets=np.array(facets, dtype=np.int32), side=side,
                            intorder=max(2, min(2 * int(e.maxdeg), 6)))
            u = fb.interpolate(x)
            ua = fb.interpolate(xall)
        except Exception as ex:
            ctx.count("zero-out:unavailable:" + type(m).__name__ + ":" + exc_kind(ex))
            return
        us = u if isinstance(u, tuple) else (u,)
        uas = ua if isinstance(ua, tuple) else (ua,)
        if len(us) != len(types):
            ctx.count("zero-out:component-mismatch")
            return
        tr = trace_arrays(fb, types, us)
        tra = trace_arrays(fb, types, uas)
        # ElementGlobal inverts a (badly conditioned) Vandermonde matrix per cell: allow its rounding
        # (observed up to 1.4e-6 of the size of an unrestricted function for the quintic Argyris element)
        rtol = 1e-4 if "global" in families(e) else 1e-9
        for c, (a, b) in enumerate(zip(tr, tra)):
            scale = max(1.0, float(np.abs(b).max()) if b.size else 1.0)
            if a.size and float(np.abs(a).max()) > rtol * scale:
                q = int(np.unravel_index(np.abs(a).argmax(), a.shape)[-2])
                case.viol("zero-out test: a discrete function whose coefficients vanish on the returned DOFs has a "
                          f"non-zero {types[c]} trace on a selected facet",
                          {"what": "zero-out", "trace": types[c]}, selector=sel_descr, side=side,
                          facet=int(facets[q]), max_trace=float(np.abs(a).max()), scale=scale,
                          returned=sorted(gotset)[:60])
                return
        ctx.count("zero-out:evaluations")
        # per-function version
        ed = T.ed
        tind = np.asarray(fb.tind)
        influencing = set()
        ftol = rtol * max(1.0, max((float(np.abs(np.asarray(f.value)).max()) for i in range(ed.shape[0])
                                    for f in fb.basis[i] if np.asarray(f.value).size), default=1.0))
        for i in range(ed.shape[0]):
            arrs = trace_arrays(fb, types, fb.basis[i])
            nz = np.zeros(len(facets), dtype=bool)
            for a in arrs:
                if a.size:
                    nz |= (np.abs(a).reshape((-1,) + a.shape[-2:]).max(axis=(0, 2)) > ftol)
            for q in np.nonzero(nz)[0]:
                d = int(ed[i, tind[q]])
                influencing.add(d)
                if d not in gotset:
                    case.viol("a basis function with non-zero trace on a selected facet has its DOF outside the "
                              "returned set", {"what": "zero-out-function"}, selector=sel_descr, side=side,
                              facet=int(facets[q]), dof=d, local_index=i)
                    return
        ctx.count("zero-out:returned-dofs", len(gotset))
        ctx.count("zero-out:returned-dofs-with-nonzero-trace", len(influencing & gotset))


def nature_check(case, T, basis):
    """the component a name's suffix announces is the component the basis function lives in"""
    e = case.e
    comp = component_of(e, T.lay)
    if comp is None or T.lname is None:
        return
    from skfem.element import ElementComposite
    for i, n in enumerate(comp):
        fields = basis.basis[i]
        if isinstance(e, ElementComposite):
            nonzero = [j for j, f in enumerate(fields)
                       if any(a is not None and np.any(np.asarray(a) != 0) for a in f.astuple)]
        else:
            val = np.asarray(fields[0].value)
            nonzero = [j for j in range(val.shape[0]) if np.any(val[j] != 0)]
        if nonzero and nonzero != [n]:
            case.viol("local basis function lives in another solution component than the layout predicts",
                      {"what": "component-layout"}, local_index=i, predicted=n, nonzero=nonzero)
            return
        if not T.lname[i].endswith("^" + str(n + 1)):
            case.viol("name suffix of a row does not announce the component of its basis function",
                      {"what": "name-suffix"}, local_index=i, name=T.lname[i], component=n)
            return
    case.ctx.count("nature-checks")


# --------------------------------------------------------------------------------------------

def wrapper_name_requests(e):
    """elem.names requests for the wrappers occurring in e (outermost first); list of (request, impl names)"""
    from skfem.element import ElementComposite, ElementVector, ElementDG
    out = []

    def cn(c):
        return {"counts": elements.counts(c), "names": list(c.dofnames)}
    if isinstance(e, ElementComposite):
        out.append(({"op": "elem.names", "wrapper": "composite", "comps": [cn(c) for c in e.elems]},
                    list(e.dofnames)))
        for c in e.elems:
            out += wrapper_name_requests(c)
    elif isinstance(e, ElementVector):
        out.append(({"op": "elem.names", "wrapper": "vector", "dim": int(e.dim), "names": list(e.elem.dofnames)},
                    list(e.dofnames)))
        out += wrapper_name_requests(e.elem)
    elif isinstance(e, ElementDG):
        rd = e.elem.refdom
        out.append(({"op": "elem.names", "wrapper": "dg", "elem": cn(e.elem), "nnodes": int(rd.nnodes),
                     "nedges": int(rd.nedges), "nfacets": int(rd.nfacets)}, list(e.dofnames)))
        out += wrapper_name_requests(e.elem)
    return out


def extra_element(rng, kind):
    """wrappers the shared generator produces rarely: composites mixing edge- and facet-based components,
    vector elements of elements with edge and facet DOFs, cut composites"""
    from skfem import element as E
    from skfem.element import ElementComposite, ElementVector, ElementDG
    if kind == "tet":
        edgey = ["ElementTetP2", "ElementTetN0", "ElementTetCCR"]
        facety = ["ElementTetRT0", "ElementTetCR", "ElementTetCCR"]
        other = ["ElementTetP1", "ElementTetP0", "ElementTetMini"]
        vec = ["ElementTetCCR", "ElementTetP2"]
    elif kind == "hex":
        edgey = ["ElementHexS2", "ElementHex2"]
        facety = ["ElementHexRT1", "ElementHex2"]
        other = ["ElementHex1", "ElementHex0"]
        vec = ["ElementHex2", "ElementHexS2"]
    else:
        return None
    r = rng.random()
    if r < 0.6:
        names = [rng.choice(edgey), rng.choice(facety)]
        if rng.random() < 0.4:
            names.append(rng.choice(other))
        rng.shuffle(names)
        comps = [getattr(E, n)() for n in names]
        if rng.random() < 0.25:
            j = rng.randrange(len(comps))
            if trace_types(comps[j]) == ["value"]:
                comps[j] = ElementVector(comps[j])
                names[j] = f"ElementVector({names[j]})"
        e = ElementComposite(*comps)
        name = "ElementComposite(" + ",".join(names) + ")"
        if rng.random() < 0.15:
            return ElementDG(e), f"ElementDG({name})"
        return e, name
    n = rng.choice(vec)
    if r < 0.8:
        return ElementVector(getattr(E, n)()), f"ElementVector({n})"
    return ElementDG(getattr(E, n)()), f"ElementDG({n})"


# --------------------------------------------------------------------------------------------

def explore(ctx, m, tags, e, ename, info, pending, deep=True):
    """all clauses of the statement on one (mesh, element)"""
    from skfem import Basis
    from skfem.element import ElementComposite, ElementDG
    rng = ctx.rng
    case = Case(ctx, m, tags, e, ename, info)
    try:
        reset_caches(e)
        basis = Basis(m, e, intorder=3)
    except Exception as ex:
        case.viol("Basis() raised " + exc_kind(ex), {"what": "raise-basis", "element": ename}, err=repr(ex))
        return
    T = Tables(m, e, basis)
    if not T.ok:
        ctx.count("layout-mismatch(C04)")
        return
    if T.name_error:
        ctx.count("names:ambiguous-plain-element")
    if T.name_clash is not None:
        case.viol("a DOF carries two different names in two cells", {"what": "name-clash"}, dof=T.name_clash)
    nature_check(case, T, basis)
    N = T.N
    nfac, nt, nv = T.nf, T.nt, int(m.nvertices)
    bnames = list(tags["boundaries"])
    snames = list(tags["subdomains"])
    types = trace_types(e, m)
    tj = topo_json(m, e)
    base_req = dict(tj, counts=elements.counts(e), facets=m.facets.tolist(),
                    f2e=m.f2e.tolist() if with_edges(m) else [], with_edges=with_edges(m),
                    dofnames=list(e.dofnames))
    mtags = {"facets": [[k, aslist(m.boundaries[k])] for k in (m.boundaries or {})],
             "elements": [[k, aslist(m.subdomains[k])] for k in (m.subdomains or {})], "nodes": []}
    nsel = {"facets": nfac, "elements": nt, "nodes": nv}

    def corr_normalize(kind, sel, seljson):
        """model normalisation against Mesh.normalize_*"""
        if isinstance(sel, np.ndarray) and sel.dtype == bool:
            return      # a mask is handed through unchanged; it selects by NumPy indexing (compared on the DOFs)
        fn = {"facets": m.normalize_facets, "elements": m.normalize_elements, "nodes": m.normalize_nodes}[kind]
        try:
            impl = {"raises": False, "ix": aslist(fn(sel))}
        except Exception as ex:
            impl = {"raises": True, "exc": exc_kind(ex)}
        pending.append(("normalize", {"op": "dofs.normalize", "kind": kind, "tags": mtags[kind],
                                      "bnd": aslist(m.boundary_facets()), "n": nsel[kind], "sel": seljson},
                        impl, {"element": ename, "selector": seljson, "kind": kind}))

    def corr_lookup(kind, sel_kw, ix, skip, steps, views):
        req = dict(base_req, op="dofs.lookup", kind=kind, ix=aslist(ix), skip=list(skip or []), steps=steps)
        impl = []
        for v in views:
            f = view_fields(v)
            f.update(nodal=byname_list(v.nodal), facet=byname_list(v.facet), edge=byname_list(v.edge),
                     interior=byname_list(v.interior))
            impl.append(f)
        pending.append(("lookup", req, impl, {"element": ename, "mesh": meshes.mesh_descr(m), "kind": kind,
                                              "ix": aslist(ix), "skip": skip, "steps": steps}))

    def query(what, sel_descr, **kw):
        try:
            return basis.get_dofs(**kw)
        except Exception as ex:
            case.viol(f"get_dofs({what}) raised {exc_kind(ex)} on a valid selector", {"what": "raise", "query": what},
                      selector=sel_descr, err=repr(ex))
            return None

    allnames = sorted(set(T.dname.values())) if T.lname is not None else []

    # ------------------------------------------------------------------ facets
    fsets = [("boundary", T.boundary)]
    nsub = 3 if deep else 1
    for _ in range(nsub):
        pool = range(nfac) if rng.random() < 0.6 else T.boundary
        fsets.append(("subset", rand_subset(rng, pool)))
    for bn in bnames:
        fsets.append(("tag:" + bn, list(tags["boundaries"][bn][0])))
    for label, S in fsets:
        S = sorted(set(int(f) for f in S))
        want = T.facet_dofs(S)
        arr = messy_array(rng, S)
        sel_descr = {"kind": "facets", "set": S, "label": label}
        ctx.count("facet-sets:" + ("empty" if not S else "all" if len(S) == nfac else label.split(":")[0]))
        v = query("facets=index array", sel_descr, facets=arr)
        if v is None:
            continue
        check_result(case, T, v, want, "facet query", sel_descr)
        ctx.case({"cls": type(m).__name__, "t": m.t.tolist(), "element": ename, "facets": S},
                 nontrivial=bool(S) and N > 1)
        forms = []
        # predicate selecting exactly that set (through the midpoints)
        keys = keyset(T.fmid[:, S]) if S else set()
        Spred = [f for f in range(nfac) if tuple(float(x) for x in T.fmid[:, f]) in keys]
        pred = member_pred(keys)
        if Spred == S:
            forms.append(("predicate", pred, {"pred": [f in set(S) for f in range(nfac)]}))
        else:
            ctx.count("facet-midpoint-collisions")
        if label == "boundary":
            forms.append(("None", None, {"none": True}))
            w0 = query("no argument", sel_descr)
            if w0 is not None:
                same(case, v, w0, "argument-free query", dict(sel_descr, form="boundary facets recomputed from t"),
                     {"form": "get_dofs()"})
                ctx.count("facet-selector-form:no-argument")
        if label.startswith("tag:"):
            forms.append(("tag", label[4:], {"tag": label[4:]}))
        if len(S) == 1:
            forms.append(("int", int(S[0]), {"int": int(S[0])}))
        if S:
            # a boolean mask over all facets (NumPy indexing accepts it wherever an index array is accepted)
            fmask = np.zeros(nfac, dtype=bool)
            fmask[S] = True
            forms.append(("bool-mask", fmask, {"idx": list(S)}))
        if S:
            # collections: split the set in two or three parts given in different forms
            cut = rng.randint(0, len(S))
            A, B = S[:cut], S[cut:]
            partA = messy_array(rng, A)
            keysB = keyset(T.fmid[:, B]) if B else set()
            okB = [f for f in range(nfac) if tuple(float(x) for x in T.fmid[:, f]) in keysB] == B
            partB = member_pred(keysB) if okB else messy_array(rng, B)
            jB = {"pred": [f in set(B) for f in range(nfac)]} if okB else {"idx": aslist(partB)}
            maker = rng.choice([list, tuple])
            forms.append(("collection", maker([partA, partB]), {"coll": [{"idx": aslist(partA)}, jB]}))
            if label.startswith("tag:") or (label == "boundary" and bnames):
                # nested collection with tag names / ints (hashable members: also as a set)
                bn = label[4:] if label.startswith("tag:") else rng.choice(bnames)
                tagged = set(tags["boundaries"][bn][0])
                rest = sorted(set(S) - tagged) if label == "boundary" else []
                if label != "boundary" or tagged <= set(S):
                    members = [bn] + [int(f) for f in rest]
                    jm = [{"tag": bn}] + [{"int": int(f)} for f in rest]
                    forms.append(("set-of-names-and-ints", set(members), {"coll": jm}))
                    forms.append(("nested-list", [[bn], tuple(int(f) for f in rest)] if rest else [[bn]],
                                  {"coll": [{"coll": [{"tag": bn}]}] + ([{"coll": [{"int": int(f)} for f in rest]}]
                                                                         if rest else [])}))
        for fname, sel, seljson in forms:
            w = query("facets=" + fname, dict(sel_descr, form=fname), facets=sel)
            ctx.count("facet-selector-form:" + fname)
            if w is None:
                continue
            same(case, v, w, "facet query", dict(sel_descr, form="index array"), dict(sel_descr, form=fname))
            corr_normalize("facets", sel, seljson)
            if allnames and rng.random() < 0.7:
                # the same selector on the SAME basis object with a name restriction, then without again,
                # then with another one: each against the index-array form with the same restriction
                for sk in (rng.sample(allnames, 1), [], rng.sample(allnames, rng.randint(1, min(2, len(allnames))))):
                    kw = {"skip": sk} if sk else {}
                    a = query("facets=index array" + (", skip" if sk else ""), sel_descr, facets=arr, **kw)
                    b = query("facets=" + fname + (", skip" if sk else ""), dict(sel_descr, form=fname),
                              facets=sel, **kw)
                    ctx.count("facet-selector-form-with-skip:" + fname)
                    if a is not None and b is not None:
                        same(case, a, b, "facet query" + (f" with skip={sk}" if sk else " after a query with skip"),
                             dict(sel_descr, form="index array", skip=sk), dict(sel_descr, form=fname, skip=sk))
                        if T.lname is not None and T.name_clash is None:
                            wantsk = {d for d in want if T.dname[d] not in sk}
                            if set(aslist(b.flatten())) != wantsk:
                                case.viol("facet query restricted by DOF name does not return exactly the DOFs of "
                                          "the set without the skipped names",
                                          {"what": "name-filter", "op": "skip-sequence"},
                                          selector=dict(sel_descr, form=fname), skip=sk,
                                          got=aslist(b.flatten())[:40], want=sorted(wantsk)[:40])
        corr_normalize("facets", arr, {"idx": aslist(arr)})
        # dict form (deprecated): callable and raw arrays
        if S and rng.random() < 0.5:
            try:
                dd = basis.get_dofs({"a": arr, "b": pred})
                for key in ("a", "b"):
                    if key == "b" and Spred != S:
                        continue
                    if aslist(dd[key].flatten()) != aslist(v.flatten()):
                        case.viol("dict form of get_dofs returns other DOFs than the direct query",
                                  {"what": "selector-forms", "query": "dict"}, selector=sel_descr, key=key)
                ctx.count("facet-selector-form:dict")
            except Exception as ex:
                case.viol("get_dofs(dict) raised " + exc_kind(ex), {"what": "raise", "query": "dict"},
                          selector=sel_descr, err=repr(ex))
        # geometric predicate with the truth table computed here
        if label == "subset" and rng.random() < 0.7:
            fn, tt, txt = halfspace(rng, T.fmid)
            Sg = [f for f in range(nfac) if tt[f]]
            w = query("facets=geometric predicate", {"kind": "facets", "pred": txt}, facets=fn)
            if w is not None:
                check_result(case, T, w, T.facet_dofs(Sg), "facet query (predicate on midpoints)",
                             {"kind": "facets", "pred": txt, "set": Sg})
                corr_normalize("facets", fn, {"pred": tt})
                ctx.count("facet-selector-form:geometric-predicate")
        # correspondence of the view itself + expansion
        skipn = []
        steps = []
        views = [v]
        if allnames and rng.random() < 0.6:
            skipn = rng.sample(allnames, rng.randint(1, min(2, len(allnames))))
            v2 = query("facets, skip", sel_descr, facets=arr, skip=skipn)
            if v2 is not None:
                views = [v2]
        if allnames and rng.random() < 0.6:
            nm = rng.sample(allnames + ["nope"], rng.randint(1, min(2, len(allnames) + 1)))
            op = rng.choice(["keep", "drop"])
            steps.append({op: nm})
            views.append(getattr(views[-1], op)(nm))
        corr_lookup("facets", None, arr, skipn, steps, views)
        try:
            ve, ee = m._expand_facets(arr)
            pending.append(("expand", {"op": "topo.expand_facets", "facets": m.facets.tolist(),
                                       "f2e": m.f2e.tolist() if with_edges(m) else [], "ix": aslist(arr),
                                       "with_edges": with_edges(m)},
                            {"vertices": aslist(ve), "edges": aslist(ee)}, {"mesh": meshes.mesh_descr(m)}))
        except Exception as ex:
            case.viol("_expand_facets raised " + exc_kind(ex), {"what": "raise-expand"}, err=repr(ex))
        # names
        if label in ("boundary", "subset") and S:
            name_checks(case, T, basis, v, {"facets": arr}, sel_descr)
        # complement
        try:
            fl = aslist(v.flatten())
            wantc = [d for d in range(N) if d not in set(fl)]
            half = basis.get_dofs(facets=np.array(S[:len(S) // 2], dtype=np.int32))
            rest = basis.get_dofs(facets=np.array(S[len(S) // 2:], dtype=np.int32))
            comps = {"view": aslist(basis.complement_dofs(v)), "array": aslist(basis.complement_dofs(v.flatten())),
                     "dict": aslist(basis.complement_dofs({"x": half, "y": rest})),
                     "two": aslist(basis.complement_dofs(rest, half.flatten()))}
            for key, got in comps.items():
                if got != wantc:
                    case.viol("complement_dofs is not the ascending set complement in 0..N-1",
                              {"what": "complement", "form": key}, selector=sel_descr, got=got[:40], want=wantc[:40])
                    break
            ctx.count("complement-evaluations", 4)
            pending.append(("complement", {"op": "dofs.complement", "N": N, "D": [fl]}, comps["view"],
                            {"element": ename}))
        except Exception as ex:
            case.viol("complement_dofs raised " + exc_kind(ex), {"what": "raise-complement"}, err=repr(ex))
        # zero-out
        if types is not None and S and label in ("boundary", "subset") and ctx.time_left(0.9) > 0:
            zero_out(case, T, basis, S, aslist(v.flatten()), types, sel_descr)
        elif types is None and label == "boundary":
            ctx.count("zero-out:not-applicable:" + ename.split("(")[0])
    # union of two views and complement with several arguments
    if len(fsets) >= 3:
        try:
            A = sorted(set(fsets[1][1]))
            B = sorted(set(fsets[2][1]))
            va = basis.get_dofs(facets=np.array(A, dtype=np.int32))
            vb = basis.get_dofs(facets=np.array(B, dtype=np.int32))
            vu = va | vb
            wantu = sorted(T.facet_dofs(A) | T.facet_dofs(B))
            if aslist(vu.flatten()) != wantu:
                case.viol("union (a | b) of two views is not the union of their DOFs", {"what": "union"},
                          a=A, b=B, got=aslist(vu.flatten())[:40], want=wantu[:40])
            gotc = aslist(basis.complement_dofs(va, vb))
            if gotc != [d for d in range(N) if d not in set(wantu)]:
                case.viol("complement_dofs(a, b) is not the complement of the union", {"what": "complement",
                                                                                      "form": "two"}, a=A, b=B)
            ctx.count("union-evaluations")
            pending.append(("or", dict(tj, op="dofs.or", counts=elements.counts(e), dofnames=list(e.dofnames),
                                       a=view_fields(va), b=view_fields(vb)), view_fields(vu),
                            {"element": ename, "a": A, "b": B}))
            pending.append(("complement", {"op": "dofs.complement", "N": N,
                                           "D": [aslist(va.flatten()), aslist(vb.flatten())]}, gotc,
                            {"element": ename}))
        except Exception as ex:
            case.viol("view union raised " + exc_kind(ex), {"what": "raise-union"}, err=repr(ex))

    # ---- complement on RESTRICTED bases (boundary facet basis, a cell subset): still the complement in 0..N-1
    try:
        from skfem import FacetBasis, CellBasis
        Sx = sorted(set(rand_subset(rng, T.boundary, allow_empty=False))) if T.boundary else []
        if Sx:
            Dx = set(T.facet_dofs(Sx))
            wantc = sorted(set(range(N)) - Dx)
            rbases = [("cell subset", lambda: CellBasis(m, e, elements=np.array(sorted(rng.sample(range(nt), max(1, nt // 2))),
                                                                                 dtype=np.int64), intorder=3))]
            if m.brefdom is not None or hasattr(m, "bndelem") and m.bndelem is not None:
                rbases.append(("boundary facet basis", lambda: FacetBasis(m, e, intorder=3)))
            for lab, mkb in rbases:
                try:
                    reset_caches(e)
                    rb = mkb()
                except Exception:
                    continue
                gotc = aslist(rb.complement_dofs(rb.get_dofs(facets=np.array(Sx, dtype=np.int64))))
                ctx.count("complement-on-restricted-basis:" + lab.split()[0])
                if gotc != wantc:
                    case.viol("complement_dofs on a " + lab + " is not the complement in 0..N-1",
                              {"what": "complement", "basis": lab.split()[0]}, facets=Sx,
                              missing=sorted(set(wantc) - set(gotc))[:20], spurious=sorted(set(gotc) - set(wantc))[:20])
            reset_caches(e)
    except Exception as ex:
        case.viol("complement on a restricted basis raised " + exc_kind(ex), {"what": "raise-complement"}, err=repr(ex))
    # ---- a tag name defined AGAIN (with_boundaries / with_subdomains on a mesh that already has the name):
    # the name designates the new set, in every selector form
    if bnames and rng.random() < 0.5:
        try:
            bn = rng.choice(bnames)
            oldS = sorted(int(f) for f in tags["boundaries"][bn][0])
            newS = sorted(rand_subset(rng, range(nfac), allow_empty=False))
            if newS != oldS:
                how = rng.choice(["array", "predicate"])
                keys = keyset(T.fmid[:, newS])
                if how == "predicate" and \
                        [f for f in range(nfac) if tuple(float(x) for x in T.fmid[:, f]) in keys] == newS:
                    m2 = m.with_boundaries({bn: member_pred(keys)}, boundaries_only=False)
                else:
                    how = "array"
                    m2 = m.with_boundaries({bn: np.array(newS, dtype=np.int64)})
                reset_caches(e)
                b2 = Basis(m2, e, intorder=3)
                want2 = T.facet_dofs(newS)
                ctx.count("retagged-boundary:" + how)
                for form, sel in (("tag", bn), ("set-of-names", {bn}), ("list", [bn])):
                    got2 = set(aslist(b2.get_dofs(sel).flatten()))
                    if got2 != want2:
                        case.viol("a boundary name defined again does not designate the new facet set",
                                  {"what": "retag", "kind": "facets", "form": form}, name=bn, old=oldS, new=newS,
                                  how=how, missing=sorted(want2 - got2)[:20], spurious=sorted(got2 - want2)[:20])
                        break
                reset_caches(e)
        except Exception as ex:
            case.viol("re-tagging raised " + exc_kind(ex), {"what": "raise-retag"}, err=repr(ex))
    if snames and rng.random() < 0.5:
        try:
            sn = rng.choice(snames)
            oldC = sorted(int(k) for k in tags["subdomains"][sn])
            newC = sorted(rand_subset(rng, range(nt), allow_empty=False))
            if newC != oldC:
                m2 = m.with_subdomains({sn: np.array(newC, dtype=np.int64)})
                reset_caches(e)
                b2 = Basis(m2, e, intorder=3)
                want2 = T.element_dofs(newC)
                got2 = set(aslist(b2.get_dofs(elements=sn).flatten()))
                ctx.count("retagged-subdomain")
                if got2 != want2:
                    case.viol("a subdomain name defined again does not designate the new cell set",
                              {"what": "retag", "kind": "elements"}, name=sn, old=oldC, new=newC,
                              missing=sorted(want2 - got2)[:20], spurious=sorted(got2 - want2)[:20])
                reset_caches(e)
        except Exception as ex:
            case.viol("re-tagging raised " + exc_kind(ex), {"what": "raise-retag"}, err=repr(ex))

    # ------------------------------------------------------------------ cells
    csets = [("subset", rand_subset(rng, range(nt))) for _ in range(2 if deep else 1)]
    for sn in snames:
        csets.append(("tag:" + sn, list(tags["subdomains"][sn])))
    for label, S in csets:
        S = sorted(set(int(k) for k in S))
        want = T.element_dofs(S)
        arr = messy_array(rng, S)
        sel_descr = {"kind": "elements", "set": S, "label": label}
        v = query("elements=index array", sel_descr, elements=arr)
        if v is None:
            continue
        check_result(case, T, v, want, "cell query", sel_descr)
        ctx.case({"cls": type(m).__name__, "t": m.t.tolist(), "element": ename, "cells": S}, nontrivial=bool(S))
        forms = []
        keys = keyset(T.cmid[:, S]) if S else set()
        if [k for k in range(nt) if tuple(float(x) for x in T.cmid[:, k]) in keys] == S:
            forms.append(("predicate", member_pred(keys), {"pred": [k in set(S) for k in range(nt)]}))
        if label.startswith("tag:"):
            forms.append(("tag", label[4:], {"tag": label[4:]}))
        if len(S) == 1:
            forms.append(("int", int(S[0]), {"int": int(S[0])}))
        if len(S) == nt:
            forms.append(("True", True, {"all": True}))
        if S:
            cmask = np.zeros(nt, dtype=bool)
            cmask[S] = True
            forms.append(("bool-mask", cmask, {"idx": list(S)}))
        if S:
            cut = rng.randint(0, len(S))
            partA, partB = messy_array(rng, S[:cut]), messy_array(rng, S[cut:])
            mk = rng.choice([list, tuple])
            members = [partA, partB]
            jm = [{"idx": aslist(partA)}, {"idx": aslist(partB)}]
            if label.startswith("tag:"):
                members.append(label[4:])
                jm.append({"tag": label[4:]})
            forms.append(("collection", mk(members), {"coll": jm}))
            if len(S) <= 4:
                forms.append(("set-of-ints", set(S), {"coll": [{"int": k} for k in S]}))
        for fname, sel, seljson in forms:
            w = query("elements=" + fname, dict(sel_descr, form=fname), elements=sel)
            ctx.count("cell-selector-form:" + fname)
            if w is None:
                continue
            same(case, v, w, "cell query", dict(sel_descr, form="index array"), dict(sel_descr, form=fname))
            corr_normalize("elements", sel, seljson)
            if allnames and rng.random() < 0.5:
                for sk in (rng.sample(allnames, 1), [], rng.sample(allnames, rng.randint(1, min(2, len(allnames))))):
                    kw = {"skip": sk} if sk else {}
                    a = query("elements=index array" + (", skip" if sk else ""), sel_descr, elements=arr, **kw)
                    b = query("elements=" + fname + (", skip" if sk else ""), dict(sel_descr, form=fname),
                              elements=sel, **kw)
                    ctx.count("cell-selector-form-with-skip:" + fname)
                    if a is not None and b is not None:
                        same(case, a, b, "cell query" + (f" with skip={sk}" if sk else " after a query with skip"),
                             dict(sel_descr, form="index array", skip=sk), dict(sel_descr, form=fname, skip=sk))
        if label == "subset" and rng.random() < 0.6:
            fn, tt, txt = halfspace(rng, T.cmid)
            Sg = [k for k in range(nt) if tt[k]]
            w = query("elements=geometric predicate", {"kind": "elements", "pred": txt}, elements=fn)
            if w is not None:
                check_result(case, T, w, T.element_dofs(Sg), "cell query (predicate on midpoints)",
                             {"kind": "elements", "pred": txt, "set": Sg})
                corr_normalize("elements", fn, {"pred": tt})
        skipn, steps, views = [], [], [v]
        if allnames and rng.random() < 0.5:
            skipn = rng.sample(allnames, 1)
            v2 = query("elements, skip", sel_descr, elements=arr, skip=skipn)
            if v2 is not None:
                views = [v2]
        if allnames and rng.random() < 0.5:
            nm = rng.sample(allnames, rng.randint(1, min(2, len(allnames))))
            op = rng.choice(["keep", "drop"])
            steps.append({op: nm})
            views.append(getattr(views[-1], op)(nm))
        corr_lookup("elements", None, arr, skipn, steps, views)
        if S and label == "subset":
            name_checks(case, T, basis, v, {"elements": arr}, sel_descr)

    # ------------------------------------------------------------------ vertices
    p = np.asarray(m.p)
    for _ in range(2 if deep else 1):
        S = sorted(set(rand_subset(rng, range(nv))))
        want = T.node_dofs(S)
        arr = messy_array(rng, S)
        sel_descr = {"kind": "nodes", "set": S}
        v = query("nodes=index array", sel_descr, nodes=arr)
        if v is None:
            continue
        check_result(case, T, v, want, "vertex query", sel_descr)
        ctx.case({"cls": type(m).__name__, "t": m.t.tolist(), "element": ename, "nodes": S}, nontrivial=bool(S))
        forms = []
        keys = keyset(p[:, S]) if S else set()
        forms.append(("predicate", member_pred(keys), {"pred": [q in set(S) for q in range(p.shape[1])]}))
        if S:
            cut = rng.randint(0, len(S))
            partA, partB = messy_array(rng, S[:cut]), S[cut:]
            keysB = keyset(p[:, partB]) if partB else set()
            forms.append(("list", [partA, member_pred(keysB)],
                          {"coll": [{"idx": aslist(partA)}, {"pred": [q in set(partB) for q in range(p.shape[1])]}]}))
        if S:
            nmask = np.zeros(p.shape[1], dtype=bool)
            nmask[S] = True
            forms.append(("bool-mask", nmask, {"idx": list(S)}))
        if len(S) == 1:
            pt = tuple(float(x) for x in p[:, S[0]])
            forms.append(("point-tuple", pt, {"pred": [q == S[0] for q in range(p.shape[1])]}))
        for fname, sel, seljson in forms:
            w = query("nodes=" + fname, dict(sel_descr, form=fname), nodes=sel)
            ctx.count("vertex-selector-form:" + fname)
            if w is None:
                continue
            same(case, v, w, "vertex query", dict(sel_descr, form="index array"), dict(sel_descr, form=fname))
            corr_normalize("nodes", sel, seljson)
        corr_lookup("nodes", None, arr, [], [], [v])
        if S and e.nodal_dofs > 0:
            name_checks(case, T, basis, v, {"nodes": arr}, sel_descr)

    # ------------------------------------------------------------------ names: model vs oracle, wrappers
    if T.lname is not None and T.name_clash is None:
        alld = sorted(T.dname)
        pending.append(("names_of", dict(tj, op="dofs.names_of", counts=elements.counts(e),
                                         dofnames=list(e.dofnames), dofs=alld),
                        [T.dname[d] for d in alld], {"element": ename}))
    for req, impl in wrapper_name_requests(e):
        pending.append(("elem.names", req, impl, {"element": ename}))
    # error cases of the normalisation
    if rng.random() < 0.3:
        corr_normalize("facets", "no_such_boundary", {"tag": "no_such_boundary"})
        corr_normalize("elements", "no_such_subdomain", {"tag": "no_such_subdomain"})
        corr_normalize("facets", [], {"coll": []})


def run(ctx):
    from skfem import MeshTet, ElementTetP2, ElementTetRT1
    ctx.rule = ("random first-order meshes of all six cell types (irregular, renumbered, cells permuted, locally "
                "re-ordered, holes) with random named boundaries (interior facets, oriented) and subdomains x random "
                "exported element or ElementVector/ElementDG/ElementComposite wrapper (incl. composites mixing edge- "
                "and facet-based components) x facet / cell / vertex subsets (empty, single, all, boundary, tagged, "
                "random) each given as unsorted index array with repetitions, predicate, tag name, int, nested "
                "list/tuple/set, dict, None/True; a case is one (mesh, element, subset); non-trivial = non-empty "
                "subset")
    ctx.trusted += ["Lean kernel; axioms propext/Classical.choice/Quot.sound",
                    "models Skv.facetView/elementView/vertexView/View.keep/drop/or/byName/complementDofs/normalize/"
                    "compositeNames/vectorNames/dgNames/dofName hand-written, tied by exact correspondence ops dofs.* / "
                    "elem.names / topo.expand_facets",
                    "per-cell table element_dofs (C04) and facets/t2f/f2e/f2t (C11) as inputs of the model",
                    "NumPy unique/union1d/intersect1d/setdiff1d/fancy indexing contracts (modelled, validated by "
                    "correspondence)"]
    ctx.assumptions += ["callables enter the model through their truth table on the midpoints (evaluated by the harness)",
                        "trace control is proved relative to the locality of the element's basis functions (C03); the "
                        "zero-out test on the implementation covers the conforming H1 / H(div) / H(curl) elements",
                        "no element declares edge DOFs in 2-D; plain elements with both edge and facet DOFs use one name"]
    if not getattr(ctx, "no_lean", False):
        ctx.prove(["SkfemVerif.Props.C07"], ["SkfemVerif/Props/C07.lean"])
    pending = []
    rng = ctx.rng
    # the witness of finding F12 first
    try:
        m0, tags0 = meshes.random_tags(rng, MeshTet(), nb=1, ns=1)
        explore(ctx, m0, tags0, ElementTetP2() * ElementTetRT1(), "ElementTetP2*ElementTetRT1",
                {"kind": "tet", "gen": "default"}, pending)
        ctx.count("mesh:tet")
    except Exception as ex:
        ctx.violation("the check of Basis(MeshTet(), ElementTetP2()*ElementTetRT1()) raised " + exc_kind(ex),
                      {"err": repr(ex)}, {"what": "raise-witness"})
    n = ctx.scale(600, 6000)
    search_share = 0.55 if ctx.tier == "quick" else 0.75
    for it in range(n):
        if ctx.time_left(search_share) < 0:
            break
        m, info = meshes.gen_mesh(rng, KINDS)
        kind = info["kind"]
        try:
            m, tags = meshes.random_tags(rng, m)
        except Exception as ex:
            ctx.violation("with_boundaries/with_subdomains raised " + exc_kind(ex),
                          {"mesh": meshes.mesh_descr(m), "err": repr(ex)}, {"what": "raise-tags"})
            continue
        try:
            extra = extra_element(rng, kind) if rng.random() < 0.45 else None
            # ElementHexC1 (64 functions per cell through a Vandermonde inverse) costs ~10 s per case
            excl = ("HexC1",) if rng.random() > ctx.scale(0.03, 0.08) else ()
            e, ename = extra if extra is not None else elements.gen_element(rng, kind, exclude=excl)
        except Exception as ex:
            ctx.violation("element construction raised " + exc_kind(ex), {"kind": kind, "err": repr(ex)},
                          {"what": "raise-element"})
            continue
        ctx.count("mesh:" + kind)
        ctx.count("family:" + elements.family(e))
        if info.get("holes"):
            ctx.count("mesh-with-holes")
        if it < 3:
            ctx.samples.append({"info": info, "element": ename, "counts": elements.counts(e),
                                "boundaries": {k: v[0] for k, v in tags["boundaries"].items()}})
        try:
            explore(ctx, m, tags, e, ename, info, pending, deep=(it % 3 != 2))
        except Exception as ex:
            import traceback
            ctx.violation("checking one (mesh, element) raised " + exc_kind(ex) + " inside the library or the harness",
                          {"mesh": meshes.mesh_descr(m), "element": ename, "err": repr(ex),
                           "trace": traceback.format_exc()[-1500:]}, {"what": "raise-explore", "element": ename})
    # ---- correspondence
    if not ctx.driver.available():
        ctx.broken.append({"kind": "driver-missing"})
        return
    outs = ctx.driver.run([p[1] for p in pending])
    for (kind, req, impl, inp), out in zip(pending, outs):
        if isinstance(out, dict) and "error" in out:
            ctx.corr("dofs." + kind, False, inp, out, impl)
            continue
        if kind == "normalize":
            if impl["raises"]:
                ok = out.get("raises") is True
            else:
                ok = out.get("raises") is False and sorted(set(out.get("ix", [-1]))) == sorted(set(impl["ix"]))
                ctx.count("corr:normalize-identical-array" if out.get("ix") == impl["ix"]
                          else "corr:normalize-same-set-other-array")
            ctx.corr("dofs.normalize(" + req["kind"] + ")", ok, inp, out, impl)
        elif kind == "lookup":
            # exact: flattened array, row selections; as sets: the entity index fields and the by-name values
            # (their order / repetitions are representation, the property fixes the flattened result)
            ok = len(out) == len(impl)
            exact = ok
            if ok:
                for mo, im in zip(out, impl):
                    for key in im:
                        if mo.get(key) != im[key]:
                            exact = False
                        if key.endswith("_ix"):
                            if sorted(set(mo.get(key, [-1]))) != sorted(set(im[key])):
                                ok = False
                        elif key in ("nodal", "facet", "edge", "interior"):
                            if {k: sorted(set(a)) for k, a in mo.get(key, [])} != {k: sorted(set(a)) for k, a in im[key]}:
                                ok = False
                        elif mo.get(key) != im[key]:
                            ok = False
            ctx.count("corr:lookup-identical-representation" if exact else "corr:lookup-other-representation")
            ctx.corr("dofs.lookup(" + req["kind"] + ")", ok, inp, out, impl)
        elif kind == "expand":
            ctx.corr("topo.expand_facets", all(sorted(set(out.get(k, [-1]))) == sorted(set(impl[k])) for k in impl),
                     inp, out, impl)
        elif kind == "complement":
            ctx.corr("dofs.complement", out == impl, inp, out, impl)
        elif kind == "or":
            ok = all((sorted(set(out.get(k, [-1]))) == sorted(set(impl[k]))) if k.endswith("_ix")
                     else out.get(k) == impl[k] for k in impl)
            ctx.corr("dofs.or", ok, inp, out, impl)
        elif kind == "names_of":
            ctx.corr("dofs.names_of", out == impl, inp, out, impl)
        elif kind == "elem.names":
            ctx.corr("elem.names(" + req["wrapper"] + ")", out.get("names") == impl, inp, out, impl)
    if ctx.tier == "thorough" and not getattr(ctx, "no_lean", False):
        ctx.leanchecker(["SkfemVerif.Props.C07"])
