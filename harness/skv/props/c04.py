"""C04  DOF numbering: gap-free, shared exactly along shared entities; local matrices."""
import numpy as np
from skfem.element import ElementVector

from .. import meshes, elements, fields
from ..core import exc_kind

KINDS = meshes.FIRST_ORDER


def topo_json(m, e):
    dim = int(e.refdom.dim())     # Dofs uses the dimension of the reference domain (FC19b)
    edges = m.edges if (m.dim() == 3) else None
    return {
        "dim": dim, "nverts": int(m.nvertices), "nedges": int(edges.shape[1]) if edges is not None else 0,
        "nfacets": int(m.nfacets), "nt": int(m.nelements), "t": m.t.tolist(),
        "t2e": m.t2e.tolist() if edges is not None else [], "t2f": m.t2f.tolist(),
    }


def tab(a):
    a = np.asarray(a)
    return a.tolist() if a.size else []


def oracle(m, e, dofs):
    """independent check of the statement on the implementation's tables; list of failures"""
    bad = []
    ed = dofs.element_dofs
    N = int(dofs.N)
    nt = m.nelements
    used = set(int(v) for v in ed.flatten())
    if used != set(range(N)):
        bad.append(("global DOF numbers are not the contiguous range 0..N-1",
                    {"N": N, "missing": sorted(set(range(N)) - used)[:10]}))
    # entity of every DOF, from the per-entity tables
    owner = {}
    tables = [("vertex", dofs.nodal_dofs, m.t), ("edge", dofs.edge_dofs, m.t2e if m.dim() == 3 else None),
              ("facet", dofs.facet_dofs, m.t2f), ("cell", dofs.interior_dofs, np.arange(nt)[None, :])]
    for kind, table, conn in tables:
        table = np.asarray(table)
        if table.size == 0:
            continue
        for a in range(table.shape[0]):
            for ent in range(table.shape[1]):
                d = int(table[a, ent])
                if d in owner:
                    bad.append(("a DOF number is attached to two entities", {"dof": d}))
                owner[d] = (kind, ent, conn)
    if set(owner) != used and not bad:
        # DOFs of entities not referenced by any cell would be 'unused'
        extra = sorted(set(owner) - used)[:5]
        missing = sorted(used - set(owner))[:5]
        bad.append(("per-entity tables and per-cell numbering disagree on the set of DOFs",
                    {"in tables only": extra, "in cells only": missing}))
    cells_of = {}
    for j in range(ed.shape[0]):
        for k in range(nt):
            cells_of.setdefault(int(ed[j, k]), set()).add(k)
    for d, (kind, ent, conn) in owner.items():
        want = set(int(k) for k in np.nonzero((np.asarray(conn) == ent).any(axis=0))[0])
        if cells_of.get(d, set()) != want:
            bad.append(("a DOF is referenced by a cell that does not contain its entity (or missed by one "
                        "that does)", {"dof": d, "kind": kind, "entity": ent,
                                       "cells": sorted(cells_of.get(d, set())), "want": sorted(want)}))
            break
    # per-cell layout: vertex rows, edge rows, facet rows, interior rows in the order of the local basis
    row = 0
    for kind, table, conn in tables:
        table = np.asarray(table)
        if table.size == 0:
            continue
        if kind == "facet" and int(e.refdom.dim()) < 2:
            continue     # (1-D: the facets are the vertices)
        for itr in range(np.asarray(conn).shape[0]):
            for a in range(table.shape[0]):
                want = table[a, np.asarray(conn)[itr]]
                if row >= ed.shape[0] or (ed[row] != want).any():
                    bad.append(("per-cell numbering disagrees with the per-entity table",
                                {"row": row, "kind": kind, "slot": itr, "local dof": a}))
                    return bad
                row += 1
    if row != ed.shape[0]:
        bad.append(("per-cell numbering has unexpected number of rows", {"rows": int(ed.shape[0]), "want": row}))
    return bad


def dofloc_incidence(m, b):
    """each non-NaN DOF location must lie in the affine hull and the bounding box of its entity's vertices"""
    dl = b.doflocs
    dofs = b.dofs
    ents = [("vertex", dofs.nodal_dofs, np.arange(m.p.shape[1])[None, :]),
            ("edge", dofs.edge_dofs, m.edges if m.dim() == 3 else None),
            ("facet", dofs.facet_dofs, m.facets), ("cell", dofs.interior_dofs, m.t)]
    for kind, table, verts in ents:
        table = np.asarray(table)
        if table.size == 0 or verts is None:
            continue
        for a in range(table.shape[0]):
            for ent in range(table.shape[1]):
                x = dl[:, table[a, ent]]
                if np.isnan(x).any():
                    continue
                V = m.p[:, np.unique(verts[:, ent])]
                lo, hi = V.min(axis=1), V.max(axis=1)
                tol = 1e-9 * max(1.0, float(np.abs(V).max()))
                if (x < lo - tol).any() or (x > hi + tol).any():
                    return {"kind": kind, "entity": int(ent), "location": x.tolist(), "reason": "outside bounding box"}
                if V.shape[1] > 1:
                    D = V[:, 1:] - V[:, :1]
                    lam, res, rk, _ = np.linalg.lstsq(D, x - V[:, 0], rcond=None)
                    if np.abs(D @ lam - (x - V[:, 0])).max() > tol:
                        return {"kind": kind, "entity": int(ent), "location": x.tolist(),
                                "reason": "not in the affine hull of the entity"}
    return None


_DUAL = None


def nodal_duality(e, ename):
    """for (wrappers of) elements whose reference functions are dual to point evaluation at their DOF
    locations (frozen list gens/shape_expect.json: 'dual'): function j is 1 at location j (in its own
    component for vector wrappers) and 0 at every other location.  Returns a description of the first
    failure or None; None also when the element makes no such claim."""
    global _DUAL
    import json
    import re
    from pathlib import Path
    if _DUAL is None:
        exp = json.loads((Path(__file__).resolve().parents[1] / "gens" / "shape_expect.json").read_text())
        _DUAL = {k for k, v in exp.items() if isinstance(v, dict) and v.get("dual")}
    mt = re.fullmatch(r"(?:(ElementDG|ElementVector)\()?(Element\w+)(?:,(\d))?\)?", ename)
    if not mt or mt.group(2) not in _DUAL:
        return None
    wrapper, ncomp = mt.group(1), (int(mt.group(3)) if mt.group(3) else None)
    locs = np.asarray(e.doflocs, dtype=float)
    if np.isnan(locs).any():
        return None
    nb = locs.shape[0]
    X = locs.T.copy()
    vec = wrapper == "ElementVector"
    dim = int(e.dim) if vec else 1
    # evaluate through gbasis on the one-cell mesh that IS the reference cell (wrappers have no lbasis)
    kind = elements.KIND_OF_REFDOM[e.refdom.__name__]
    try:
        mref = meshes.CLS[kind].init_refdom()
    except Exception:
        return None
    mp = mref.mapping()
    if not np.allclose(mp.F(X)[:, 0, :], X, atol=1e-14):
        return None
    for j in range(nb):
        val = np.asarray(e.gbasis(mp, X, j)[0].value)
        val = val[:, 0, :] if vec else val[0, :]
        if vec:
            comp = j % dim
            want = np.zeros((dim, nb))
            # locations are repeated per component: function j is 1 at all `dim` copies of its node
            want[comp] = (np.arange(nb) // dim == j // dim).astype(float)
        else:
            want = (np.arange(nb) == j).astype(float)
        if val.shape != want.shape or not np.allclose(val, want, atol=1e-9):
            return {"function": j, "values_at_locations": np.round(val, 6).tolist(), "expected": want.tolist()}
    ctx_counter["n"] = ctx_counter.get("n", 0) + 1
    return None


ctx_counter = {}


def run(ctx):
    from skfem import Basis, BilinearForm
    from skfem.assembly import Dofs
    ctx.rule = ("random first-order meshes of all six cell types (renumbered, permuted, locally re-ordered, holes) x "
                "random exported element, ElementVector/ElementDG/ElementComposite wrappers; a case is one "
                "(mesh, element); distinct by (class, t, element name); non-trivial = >= 2 cells and N > nt")
    ctx.trusted += ["Lean kernel; axioms propext/Classical.choice/Quot.sound",
                    "model Skv.elementDofs etc. hand-written, tied by exact correspondence op dofs.init",
                    "NumPy reshape(order='F')/vstack/fancy indexing contract (modelled, validated by correspondence)"]
    ctx.assumptions += ["'no unused vertex' is a hypothesis of gap-freeness (mesh validity)",
                        "doflocs single-valuedness is checked (search) for elements with at most one DOF per "
                        "edge/facet or on per-cell sorted meshes"]
    if not getattr(ctx, "no_lean", False):
        ctx.prove(["SkfemVerif.Props.C04"], ["SkfemVerif/Props/C04.lean"])
    n = ctx.scale(400, 3000)
    pending = []
    for it in range(n):
        if ctx.time_left(0.75) < 0:
            break
        m, info = meshes.gen_mesh(ctx.rng, KINDS)
        kind = info["kind"]
        try:
            e, ename = elements.gen_element(ctx.rng, kind)
        except Exception as ex:
            ctx.violation("element construction raised " + exc_kind(ex), {"kind": kind, "err": repr(ex)},
                          {"what": "raise-element"})
            continue
        if elements.family(e) == "h1" and not elements.is_skeleton(ename) and ctx.rng.random() < 0.15:
            # vector wrapper with an explicit number of components (may differ from the mesh dimension)
            ncomp = ctx.rng.choice([1, 2, 3])
            e, ename = ElementVector(e, ncomp), f"ElementVector({ename},{ncomp})"
            ctx.count("vector-wrapper-explicit-dim")
        ctx.count("mesh:" + kind)
        ctx.count("family:" + elements.family(e))
        descr = {"cls": kind, "t": m.t.tolist(), "element": ename}
        try:
            dofs = Dofs(m, e)
        except Exception as ex:
            ctx.violation("Dofs() raised " + exc_kind(ex),
                          {"mesh": meshes.mesh_descr(m), "element": ename, "err": repr(ex)},
                          {"what": "raise", "element": ename})
            continue
        ctx.case(descr, nontrivial=m.nelements >= 2 and dofs.N > m.nelements,
                 sample={"info": info, "element": ename, "counts": elements.counts(e), "N": int(dofs.N)}
                 if it < 3 else None)
        for what, detail in oracle(m, e, dofs):
            ctx.violation(what, {"mesh": meshes.mesh_descr(m), "element": ename, "detail": detail},
                          {"what": what, "element": ename})
        req = {"op": "dofs.init", "counts": elements.counts(e)}
        req.update(topo_json(m, e))
        pending.append((m, ename, info, req, dofs))
        # matrix shape and sparsity (every 5th case; needs a Basis)
        if (m.nelements <= 12 and elements.family(e) != "global") or (it % 10 == 0):
            try:
                b = Basis(m, e, intorder=2)
                A = BilinearForm(fields.generic_bilinear()).assemble(b)
                ed = b.element_dofs
                if A.shape != (b.N, b.N):
                    ctx.violation("assembled matrix has wrong shape", {"shape": A.shape, "N": int(b.N)},
                                  {"what": "shape"})
                co = np.zeros((b.N, b.N), dtype=bool)
                for k in range(ed.shape[1]):
                    co[np.ix_(ed[:, k], ed[:, k])] = True
                nz = A.toarray() != 0
                if (nz & ~co).any():
                    i, j = np.argwhere(nz & ~co)[0]
                    ctx.violation("matrix nonzero at (i,j) although DOFs i,j share no cell",
                                  {"mesh": meshes.mesh_descr(m), "element": ename, "i": int(i), "j": int(j)},
                                  {"what": "sparsity", "element": ename})
                ctx.count("sparsity-checks")
                # local matrices: tolocal()[k] scattered through the per-cell table gives the assembled matrix; for a SUM
                # of elemental data tolocal() is either refused or scatters to the sum
                try:
                    c1 = BilinearForm(fields.generic_bilinear()).elemental(b)
                    for lab, cc, wantA in (("elemental data", c1, A.toarray()), ("sum of two elemental data", c1 + c1,
                                                                                 2 * A.toarray())):
                        try:
                            L = cc.tolocal()
                        except NotImplementedError:
                            ctx.count("local-matrices:refused:" + lab.split()[0])
                            continue
                        S = np.zeros(wantA.shape)
                        okL = L.ndim == 3 and L.shape[1:] == (ed.shape[0], ed.shape[0]) and L.shape[0] % ed.shape[1] == 0
                        if okL:
                            for kk in range(L.shape[0]):
                                k = kk % ed.shape[1]
                                S[np.ix_(ed[:, k], ed[:, k])] += L[kk]
                            okL = np.allclose(S, wantA, rtol=1e-12, atol=1e-12 * max(1.0, float(np.abs(wantA).max())))
                        ctx.count("local-matrices:checked:" + lab.split()[0])
                        if not okL:
                            ctx.violation("local matrices (tolocal) of " + lab + " do not scatter through the per-cell "
                                          "table to the assembled matrix", {"mesh": meshes.mesh_descr(m), "element": ename},
                                          {"what": "local-matrices", "of": lab.split()[0]})
                    # rectangular local matrices: trial = this element, test = the vertex element of the mesh
                    if elements.family(e) != "global":
                        vb_ = Basis(m, m.elem(), intorder=2)
                        Fr = BilinearForm(fields.generic_bilinear())
                        cr = Fr.elemental(b, vb_)
                        Ar = Fr.assemble(b, vb_).toarray()
                        Lr = cr.tolocal()
                        edv = vb_.element_dofs
                        okR = Lr.shape == (ed.shape[1], edv.shape[0], ed.shape[0])
                        if okR:
                            Sr = np.zeros(Ar.shape)
                            for k in range(ed.shape[1]):
                                Sr[np.ix_(edv[:, k], ed[:, k])] += Lr[k]
                            okR = np.allclose(Sr, Ar, rtol=1e-12, atol=1e-12 * max(1.0, float(np.abs(Ar).max())))
                        ctx.count("local-matrices:rectangular")
                        if not okR:
                            ctx.violation("rectangular local matrices (tolocal, trial and test of different local size) do "
                                          "not have shape (cells, Nbfun_test, Nbfun_trial) or do not scatter to the "
                                          "assembled matrix", {"mesh": meshes.mesh_descr(m), "element": ename,
                                                               "shape": list(Lr.shape)},
                                          {"what": "local-matrices", "of": "rectangular"})
                except Exception as ex:
                    ctx.violation("local matrices raised " + exc_kind(ex), {"element": ename, "err": repr(ex)},
                                  {"what": "raise-basis", "element": ename})
                # the per-cell table against the two public read-outs of it: DOFs of a cell set (index array and
                # boolean mask) and, for vector wrappers, the splitting into components (local function j carries
                # component j % ncomp)
                sel = sorted(ctx.rng.sample(range(m.nelements), ctx.rng.randint(1, m.nelements)))
                mask = np.zeros(m.nelements, dtype=bool)
                mask[sel] = True
                want_sel = sorted(set(int(v) for v in ed[:, sel].flatten()))
                for form, arg in (("index array", np.array(sel, dtype=np.int64)), ("boolean mask", mask)):
                    got_sel = sorted(int(v) for v in b.get_dofs(elements=arg).flatten())
                    if got_sel != want_sel:
                        ctx.violation("get_dofs(elements=<" + form + ">) is not the set of DOFs of these cells in the "
                                      "per-cell table", {"mesh": meshes.mesh_descr(m), "element": ename, "cells": sel,
                                                         "missing": sorted(set(want_sel) - set(got_sel))[:12],
                                                         "spurious": sorted(set(got_sel) - set(want_sel))[:12]},
                                      {"what": "cell-dofs", "form": form, "element": ename.split("(")[0]})
                ctx.count("cell-dofs-readout")
                # restriction by DOF name given as a BARE STRING (not a list): exactly the DOFs whose name is that string
                try:
                    allv = b.get_dofs(elements=np.array(sel, dtype=np.int64))
                    names_here = sorted(set(e.dofnames)) if hasattr(e, "dofnames") else []
                    lname = list(e.dofnames) if hasattr(e, "dofnames") else []
                    cnts = elements.counts(e)
                    rd_ = e.refdom
                    per_row = []
                    per_row += [lname[r % cnts[0]] if cnts[0] else None for r in range(rd_.nnodes * cnts[0])]
                    off = cnts[0]
                    if m.dim() == 3:
                        per_row += [lname[off + r % cnts[1]] if cnts[1] else None for r in range(rd_.nedges * cnts[1])]
                    off += cnts[1]
                    per_row += [lname[off + r % cnts[2]] if cnts[2] else None for r in range(rd_.nfacets * cnts[2])]
                    off += cnts[2]
                    per_row += [lname[off + r] for r in range(cnts[3])]
                    if len(per_row) == ed.shape[0] and len(lname) == sum(cnts) \
                            and elements.family(e) in ("h1", "hdiv", "hcurl", "global"):     # plain elements
                        dname = {}
                        clash = False
                        for r in range(ed.shape[0]):
                            for k in range(ed.shape[1]):
                                if dname.setdefault(int(ed[r, k]), per_row[r]) != per_row[r]:
                                    clash = True
                        if not clash:
                            for nm in names_here[:3]:
                                flat = [int(v) for v in allv.flatten()]
                                want_k = sorted(d for d in flat if dname[d] == nm)
                                want_d = sorted(d for d in flat if dname[d] != nm)
                                got_k = sorted(int(v) for v in allv.keep(nm).flatten())
                                got_d = sorted(int(v) for v in allv.drop(nm).flatten())
                                got_s = sorted(int(v) for v in b.get_dofs(elements=np.array(sel, dtype=np.int64),
                                                                          skip=nm).flatten()) if len(nm) > 1 else want_d
                                ctx.count("name-restriction-bare-string")
                                if (got_k, got_d) != (want_k, want_d) or got_s != want_d:
                                    ctx.violation("restriction of a DOF view by a name given as a bare string (keep / drop / "
                                                  "skip) is not exactly the DOFs with that name",
                                                  {"mesh": meshes.mesh_descr(m), "element": ename, "name": nm,
                                                   "names": names_here}, {"what": "name-bare-string",
                                                                          "element": ename.split("(")[0]})
                                    break
                except Exception as ex:
                    ctx.count("name-restriction:raises:" + exc_kind(ex))
                # the per-cell table of a basis restricted to a cell list (any order, repetitions, full length) is
                # the whole table gathered by that list
                lists = [list(sel)]
                perm = list(range(m.nelements))
                ctx.rng.shuffle(perm)
                lists.append(perm)
                if m.nelements >= 3:
                    lists.append([0] + [c for c in perm if c not in (0, m.nelements - 1)] + [m.nelements - 1])
                    rep = list(range(m.nelements))
                    rep[ctx.rng.randrange(1, m.nelements - 1)] = rep[ctx.rng.randrange(1, m.nelements - 1)]
                    lists.append(rep)                      # full length, starts with 0, ends with nt-1, one repeated
                    k0 = ctx.rng.randrange(m.nelements - 1)
                    lists.append([k0, k0, k0 + 1][::ctx.rng.choice([1, -1])])
                for lst in lists:
                    if ctx.rng.random() < 0.5:
                        lst = list(lst)
                        ctx.rng.shuffle(lst)
                    arr = np.array(lst, dtype=ctx.rng.choice([np.int32, np.int64]))
                    br = Basis(m, e, intorder=2, elements=arr)
                    ctx.count("restricted-basis-table")
                    if br.element_dofs.shape != (ed.shape[0], len(lst)) or not np.array_equal(br.element_dofs, ed[:, lst]):
                        ctx.violation("the per-cell table of a basis restricted to a cell list is not the whole table "
                                      "gathered by that list", {"mesh": meshes.mesh_descr(m), "element": ename,
                                                                "cells": [int(c) for c in lst]},
                                      {"what": "restricted-table", "element": ename.split("(")[0]})
                        break
                if isinstance(e, ElementVector):
                    ncomp = int(e.dim)
                    parts = b.split_indices()
                    okp = len(parts) == ncomp
                    for c in range(ncomp if okp else 0):
                        okp = okp and sorted(int(v) for v in parts[c]) == sorted(set(int(v) for v in ed[c::ncomp].flatten()))
                    ctx.count("vector-split-readout")
                    if not okp:
                        ctx.violation("split_indices() of a vector wrapper is not the set of DOFs of the local functions "
                                      "of each component in the per-cell table",
                                      {"mesh": meshes.mesh_descr(m), "element": ename},
                                      {"what": "vector-split", "element": ename.split("(")[0]})
                # DOF location table
                # (several DOFs of one edge/facet at DIFFERENT locations are seen in different orders by the
                # neighbouring cells; the components of a vector wrapper share their location)
                cnt_e = elements.counts(e.elem) if isinstance(e, ElementVector) else elements.counts(e)
                if getattr(b, "doflocs", None) is not None and hasattr(e, "doflocs") \
                        and max(cnt_e[1:3]) <= 1:
                    mp = m.mapping()
                    for j in range(ed.shape[0]):
                        X = np.asarray(e.doflocs[j], dtype=float)[:, None]
                        if np.isnan(X).any():
                            continue   # "NA" locations (bubbles, modal functions)
                        x = mp.F(X)[:, :, 0]
                        if not np.allclose(b.doflocs[:, ed[j]], x, atol=1e-12):
                            ctx.violation("DOF location table disagrees with the mapped reference location",
                                          {"mesh": meshes.mesh_descr(m), "element": ename, "local": j},
                                          {"what": "doflocs", "element": ename})
                            break
                    ctx.count("doflocs-checks")
                    bad_dual = nodal_duality(e, ename)
                    if bad_dual:
                        ctx.violation("local DOF location table is not in the order of the local basis functions "
                                      "(function j does not take the value 1 at location j and 0 at the others)",
                                      {"element": ename, "detail": bad_dual},
                                      {"what": "doflocs-duality", "element": ename.split("(")[0]})
                    # independent geometric incidence: the location of a DOF lies in the closure of ITS entity
                    # (vertex / edge / facet / cell, as the per-entity tables say)
                    bad_inc = dofloc_incidence(m, b)
                    if bad_inc:
                        ctx.violation("DOF location does not lie on the entity the DOF is attached to",
                                      {"mesh": meshes.mesh_descr(m), "element": ename, "detail": bad_inc},
                                      {"what": "doflocs-incidence", "element": ename.split("(")[0]})
            except Exception as ex:
                ctx.violation("Basis/assembly raised " + exc_kind(ex),
                              {"mesh": meshes.mesh_descr(m), "element": ename, "err": repr(ex)},
                              {"what": "raise-basis", "element": ename})
    if ctx.driver.available():
        outs = ctx.driver.run([p[3] for p in pending])
        for (m, ename, info, req, dofs), out in zip(pending, outs):
            impl = {"nodal": tab(dofs.nodal_dofs), "edge": tab(dofs.edge_dofs), "facet": tab(dofs.facet_dofs),
                    "interior": tab(dofs.interior_dofs), "element_dofs": tab(dofs.element_dofs), "N": int(dofs.N)}
            if "error" in out:
                ctx.corr("dofs.init", False, {"element": ename, "req": req}, out, impl)
                continue
            model = {k: out[k] for k in impl}
            # empty tables: model returns [] or list of empty rows
            for k in ("nodal", "edge", "facet", "interior"):
                if all(len(r) == 0 for r in model[k]):
                    model[k] = []
            ctx.corr("dofs.init", model == impl, {"element": ename, "mesh": meshes.mesh_descr(m), "info": info},
                     model, impl)
            if out["total"] != out["N"]:
                ctx.corr("dofs.total==N", False, {"element": ename, "mesh": meshes.mesh_descr(m)}, out["total"], out["N"])
    else:
        ctx.broken.append({"kind": "driver-missing"})
    if ctx.tier == "thorough" and not getattr(ctx, "no_lean", False):
        ctx.leanchecker(["SkfemVerif.Props.C04"])
