"""C09  Shape functions: derivatives are true derivatives; duality; partition of unity."""
from fractions import Fraction

import numpy as np

from .. import meshes, elements, expoly
from ..core import exc_kind, qstr
from ..gens import shapes as genshapes


def fd_check_gbasis(ctx, m, e, ename, info, ncells=2):
    """mapped derivatives: declared grad/div/curl/hess vs central differences of the declared
    value (resp. gradient) field in GLOBAL coordinates on real cells"""
    mp = m.mapping()
    dim = m.dim()
    nb = None
    rng = ctx.rng
    cells = rng.sample(range(m.nelements), min(ncells, m.nelements))
    # an interior reference point
    rd = m.elem.refdom
    P = np.asarray(rd.p, dtype=float)
    # several DIFFERENT interior points evaluated in one call (per-point quantities must not be shared)
    wts = np.array([[rng.randint(1, 5) for _ in range(P.shape[1])] for _ in range(3)], dtype=float)
    wts /= wts.sum(axis=1)[:, None]
    X0 = (wts @ P.T).T                            # (dim, 3)
    hscale = 1e-3
    # the power basis of globally defined elements is not scaled to the cell: the inverse Vandermonde
    # matrix loses several digits on degree-5 elements, so their finite differences are compared more loosely
    rtol = 2e-3 if elements.family(e) == "global" else 1e-4
    bad = None
    try:
        from skfem.assembly import Dofs
        nb = Dofs(m, e).element_dofs.shape[0]
    except Exception as ex:
        return ("Dofs raised " + exc_kind(ex), repr(ex))
    for k in cells:
        tind = np.array([k])
        x0 = mp.F(X0, tind=tind)                  # (dim, 1, 1)
        size = float(np.abs(m.p[:, m.t[:, k]].max(axis=1) - m.p[:, m.t[:, k]].min(axis=1)).max()) or 1.0
        h = hscale * size
        pts = {}
        for j in range(dim):
            for sgn in (+1, -1, +2, -2):
                xs = x0.copy()
                xs[j] += sgn * h
                pts[(j, sgn)] = mp.invF(xs, tind=tind)      # (dim, 1, 1)
        Xc = mp.invF(x0, tind=tind)
        for i in range(nb):
            try:
                f0 = e.gbasis(mp, Xc, i, tind=tind)
                fpm = {key: e.gbasis(mp, X, i, tind=tind) for key, X in pts.items()}
            except Exception as ex:
                return ("gbasis raised " + exc_kind(ex), {"i": i, "err": repr(ex)})
            for fno in range(len(f0)):
                fld = f0[fno]
                val = np.asarray(fld)
                if val.ndim < 2:
                    continue
                order = val.ndim - 2            # tensor order of the value

                def d_dx(getter, j):
                    # fourth-order central difference (exact for polynomials up to degree 4)
                    return (8 * (getter(fpm[(j, +1)][fno]) - getter(fpm[(j, -1)][fno]))
                            - (getter(fpm[(j, +2)][fno]) - getter(fpm[(j, -2)][fno]))) / (12 * h)

                def cmp(declared, fd, what):
                    declared = np.asarray(declared, dtype=float)
                    fd = np.asarray(fd, dtype=float)
                    sc = max(1.0, float(np.abs(declared).max()), float(np.abs(fd).max()))
                    if declared.shape != fd.shape or float(np.abs(declared - fd).max()) > rtol * sc:
                        return (f"declared {what} is not the derivative of the declared value after mapping",
                                {"i": i, "cell": int(k), "field": fno, "declared": declared.tolist(),
                                 "finite-difference": fd.tolist()})
                    return None
                if fld.grad is not None:
                    fd = np.array([d_dx(lambda f: np.asarray(f), j) for j in range(dim)])
                    # grad layout: value index first, derivative index last before (cells, pts)
                    fd = np.moveaxis(fd, 0, order)
                    r = cmp(fld.grad, fd, "grad")
                    if r:
                        return r
                if fld.div is not None and order >= 1:
                    fd = sum(d_dx(lambda f, j=j: np.asarray(f)[..., j, :, :] if False else np.asarray(f)[j], j)
                             for j in range(dim)) if order == 1 else None
                    if fd is not None:
                        r = cmp(fld.div, fd, "div")
                        if r:
                            return r
                if fld.curl is not None and order == 1:
                    v = lambda a: (lambda f: np.asarray(f)[a])
                    if dim == 2:
                        fd = d_dx(v(1), 0) - d_dx(v(0), 1)
                    else:
                        fd = np.array([d_dx(v(2), 1) - d_dx(v(1), 2), d_dx(v(0), 2) - d_dx(v(2), 0),
                                       d_dx(v(1), 0) - d_dx(v(0), 1)])
                    r = cmp(fld.curl, fd, "curl")
                    if r:
                        return r
                if order == 0:
                    # value, grad, hess, grad3, grad4, ...: each is the derivative of the previous one, the new
                    # direction being the LAST tensor index
                    chain = ["grad", "hess", "grad3", "grad4", "grad5", "grad6"]
                    for a, b in zip(chain, chain[1:]):
                        if getattr(fld, a, None) is None or getattr(fld, b, None) is None:
                            break
                        prev = np.asarray(getattr(fld, a))
                        k = prev.ndim - 2
                        fd = np.array([d_dx(lambda f, a=a: np.asarray(getattr(f, a)), j) for j in range(dim)])
                        fd = np.moveaxis(fd, 0, k)
                        r = cmp(getattr(fld, b), fd, b)
                        if r:
                            return r
    return None


def warped(rng, m, kind):
    """make EVERY cell of a quadrilateral / hexahedral mesh non-affine by a global multilinear map with
    dyadic coefficients (cells stay valid: the perturbation is small against the cell sizes)"""
    p = m.p.copy()
    p = p - p.min(axis=1)[:, None]
    c = rng.choice([1 / 16, 1 / 8, -1 / 16])
    if kind == "quad":
        q = p.copy()
        q[0] = p[0] + c * p[0] * p[1]
        q[1] = p[1] + (c / 2) * p[0] * p[1]
    else:
        q = p.copy()
        q[0] = p[0] + c * p[1] * p[2]
        q[1] = p[1] + (c / 2) * p[0] * p[2]
        q[2] = p[2] + (c / 2) * p[0] * p[1]
    return type(m)(q, m.t)


def ref_fd_check(e, ename, rng):
    """reference-cell derivative of lbasis by central differences (for the untraceable elements)"""
    dim = e.refdom.dim()
    P = np.asarray(e.refdom.p, dtype=float)
    npts = 4
    W = np.array([[rng.randint(1, 6) for _ in range(P.shape[1])] for _ in range(npts)], dtype=float)
    W /= W.sum(axis=1)[:, None]
    X = (W @ P.T).T                      # (dim, npts) interior points
    h = 1e-6
    nb = int(e._bfun_counts().sum())
    for i in range(nb):
        out = e.lbasis(X, i)
        phi, dphi = np.asarray(out[0], dtype=float), np.asarray(out[1], dtype=float)
        if phi.ndim != 1:
            continue
        for j in range(dim):
            Xp, Xm = X.copy(), X.copy()
            Xp[j] += h
            Xm[j] -= h
            fd = (np.asarray(e.lbasis(Xp, i)[0], dtype=float) - np.asarray(e.lbasis(Xm, i)[0], dtype=float)) / (2 * h)
            sc = max(1.0, float(np.abs(fd).max()))
            if np.abs(fd - dphi[j]).max() > 1e-6 * sc:
                return {"i": i, "direction": j, "declared": dphi[j].tolist(), "finite-difference": fd.tolist()}
    return None


def global_duality(m, e):
    """globally defined elements: vertex functionals (value and derivatives named by `dofnames`)
    of the delivered basis are the Kronecker delta"""
    mp = m.mapping()
    from skfem.assembly import Dofs
    nb = Dofs(m, e).element_dofs.shape[0]
    nn = int(e.nodal_dofs)
    names = list(e.dofnames)[:nn]
    P = np.asarray(m.elem.refdom.p, dtype=float)
    nv = P.shape[1]
    key = {"u": ("value", ()), "u_x": ("grad", (0,)), "u_y": ("grad", (1,)), "u_z": ("grad", (2,)),
           "u_xx": ("hess", (0, 0)), "u_xy": ("hess", (0, 1)), "u_yy": ("hess", (1, 1))}
    if not all(n in key for n in names):
        return None
    k = 0
    tind = np.array([k])
    M = np.zeros((nv * nn, nb))
    for i in range(nb):
        for v in range(nv):
            f = e.gbasis(mp, P[:, v:v + 1], i, tind=tind)[0]
            for a, nm in enumerate(names):
                attr, idx = key[nm]
                arr = np.asarray(f) if attr == "value" else np.asarray(getattr(f, attr))
                M[v * nn + a, i] = arr[idx + (0, 0)]
    want = np.zeros_like(M)
    for r in range(nv * nn):
        want[r, r] = 1.0
    sc = max(1.0, np.abs(M).max())
    if np.abs(M - want).max() > 1e-5 * sc:
        r, c = np.unravel_index(np.abs(M - want).argmax(), M.shape)
        return {"functional": int(r), "basis function": int(c), "value": float(M[r, c])}
    return False


def run(ctx):
    ctx.rule = ("(1) every traceable exported element: value/derivative polynomials of every local basis function "
                "extracted by running the real lbasis on exact symbolic polynomials (translator, re-run every time) "
                "and kernel-checked; (2) every exported element incl. the untraceable ones x random affine / "
                "multilinear cells: declared grad/div/curl/hess of gbasis vs central differences in GLOBAL "
                "coordinates; reference derivative by differences for the untraceable; vertex-functional duality of "
                "globally defined elements; power-basis coefficients for i, dx <= 12. distinct = (element, mesh); "
                "non-trivial = element has >= 2 local functions")
    ctx.trusted += ["Lean kernel (decide +kernel); axioms propext/Classical.choice/Quot.sound",
                    "translator gens/shapes.py (symbolic execution of the live lbasis with an exact polynomial "
                    "class; float literals read as the simple rational within 2^-40, distance reported); the traced "
                    "polynomials are re-evaluated against the live lbasis on random points on every run",
                    "frozen expectation file gens/shape_expect.json (which duality/PoU facts each element claims)",
                    "Mathlib MvPolynomial.pderiv as the meaning of 'true derivative' of a polynomial"]
    ctx.assumptions += ["ElementLinePp/ElementQuadP (NumPy Legendre objects, irrational scaling), skeleton elements "
                        "(piecewise) and the mesh-dependent functionals of globally defined elements are not traced: "
                        "covered by the numerical search only",
                        "mapped derivatives: the pull-back / Piola FORMULAS are proved (Props/C09b.lean: chain rule, "
                        "gradient, Hessian, div, 2-D curl on affine cells); that gbasis implements these formulas "
                        "is checked numerically (4th-order finite differences, 1e-4 relative)"]
    changed = False
    try:
        changed = genshapes.generate()
        rep = genshapes.generate.report
        ctx.notes["traced_elements"] = len(rep.get("traced", []))
        ctx.notes["untraceable_elements"] = rep.get("untraceable", {})
        ctx.notes["float_literal_snap_worst"] = rep.get("snap_worst")
        if rep.get("unexpected"):
            ctx.notes["facts_holding_but_not_claimed"] = rep["unexpected"]
    except Exception as ex:
        ctx.broken.append({"kind": "translator", "what": "shape functions could not be traced", "err": repr(ex)})
    ctx.notes["generated_files_changed"] = bool(changed)
    if not getattr(ctx, "no_lean", False):
        ctx.prove(["SkfemVerif.Props.C09", "SkfemVerif.Props.C09b"],
                  ["SkfemVerif/Props/C09.lean", "SkfemVerif/Props/C09b.lean"],
                  extra_theorem_files=["SkfemVerif/Gen/ShapeFacts.lean"])
    rng = ctx.rng
    # ---- gen-selfcheck: traced polynomials vs the live lbasis at random points; Python outcome of the checks
    pool = dict(sum(elements.pool().values(), []))
    expect = {}
    try:
        import json
        expect = json.loads(genshapes.EXPECT.read_text())
    except Exception:
        pass
    poly_reqs, poly_post = [], []
    for name, fac in pool.items():
        e = fac()
        try:
            tr = genshapes.trace(e, name)
        except Exception:
            continue
        dim = tr["dim"]
        X = np.array([[rng.randint(1, 15) / 16 for _ in range(3)] for _ in range(dim)])
        ok = True
        for i in range(tr["nb"]):
            out = e.lbasis(X, i)
            v = np.asarray(out[0], dtype=float)
            pv = tr["vals"][i]
            comps = [pv] if genshapes.is_scalar(pv) else [c for c in (pv if all(genshapes.is_scalar(c) for c in pv)
                                                          else [c for row in pv for c in row])]
            vv = v.reshape(len(comps), -1)
            for c, poly in enumerate(comps):
                for q in range(X.shape[1]):
                    ex = float(poly([Fraction(float(t)) for t in X[:, q]]))
                    if abs(ex - vv[c, q]) > 1e-12 * max(1.0, abs(ex)):
                        ok = False
            if i == 0 and genshapes.is_scalar(pv) and len(poly_reqs) < 40:
                pt = [Fraction(float(t)) for t in X[:, 0]]
                poly_reqs.append({"op": "poly.eval", "poly": [[qstr(cf), list(k)] for k, cf in pv.sorted_terms()],
                                  "x": [qstr(t) for t in pt]})
                poly_post.append((name, pv(pt)))
        ctx.corr("gen-selfcheck(lbasis)", ok, {"element": name}, "traced polynomials", "live lbasis")
        # the statement evaluated on the implementation (failing-input search for the generated facts)
        outcomes = genshapes.py_checks(tr, e, name)
        for k, v in outcomes.items():
            claimed = expect.get(name, {}).get(k)
            if k in ("grad", "div", "curl2", "curl3"):
                claimed = True
            if claimed and not v:
                what = {"grad": "declared gradient is not the derivative of the declared value (reference cell)",
                        "div": "declared divergence is not the divergence of the declared value",
                        "curl2": "declared curl is not the curl of the declared value",
                        "curl3": "declared curl is not the curl of the declared value",
                        "dual": "nodal basis is not dual to its DOF locations",
                        "pou": "value-type basis functions do not sum to one",
                        "moments": "facet fluxes / edge circulations are not dual to the basis"}[k]
                ctx.violation(what, {"element": name, "check": k}, {"what": k, "element": name})
        ctx.case({"element": name, "traced": True}, nontrivial=tr["nb"] >= 2)
        ctx.count("traced:" + tr["family"])
    # ---- Lean model of eval vs Python polynomial class; power basis
    if ctx.driver.available():
        pb = [(i, dx) for i in range(0, 13) for dx in range(0, 7)]
        outs = ctx.driver.run(poly_reqs + [{"op": "poly.pbasis", "i": i, "dx": dx} for (i, dx) in pb])
        for (name, want), out in zip(poly_post, outs[:len(poly_reqs)]):
            ctx.corr("poly.eval", isinstance(out, str) and Fraction(out) == want, {"element": name}, out, str(want))
        from skfem.element import ElementTriMorley
        eg = ElementTriMorley()
        for (i, dx), out in zip(pb, outs[len(poly_reqs):]):
            try:
                f = eg._pbasis_create(i=i, dx=dx)
                c = f(1)
                v2 = f(2)
                ex = 0 if c == 0 else int(round(np.log2(v2 / c)))
                ok = (out.get("coef") == int(c)) and (c == 0 or out.get("exp") == ex)
                # 2-D product rule: coefficient of d^dx_x d^dy_y x^i y^j is the product
                g = eg._pbasis_create(i=i, j=3, dx=dx, dy=1)
                ok = ok and g(1, 1) == int(c) * 3
            except Exception as ex:
                ok = False
            ctx.corr("poly.pbasis", ok, {"i": i, "dx": dx}, out, None)
    else:
        ctx.broken.append({"kind": "driver-missing"})
    # ---- search on the implementation: mapped derivatives for every element
    n_mesh = ctx.scale(2, 4)
    for kind in meshes.FIRST_ORDER:
        for name, fac in elements.pool()[kind]:
            if ctx.time_left(0.85) < 0:
                break
            if "Skeleton" in name:
                continue        # facet-only functions: not differentiable across the cell
            reps = n_mesh + (2 if elements.family(fac()) in ("hdiv", "hcurl") else 0)
            for rep in range(reps):
                m, info = meshes.gen_first_order(rng, kind, holes=False)
                if kind in ("quad", "hex") and rep % 2 == 1 and elements.family(fac()) != "global":
                    m = warped(rng, m, kind)          # general (non-affine) cells: Jacobian varies inside the cell
                    info = dict(info, gen="warped")
                    ctx.count("mapped:warped-" + kind)
                e = fac()
                ctx.count("mapped:" + kind)
                descr = {"element": name, "mesh": meshes.mesh_descr(m)}
                ctx.case({"element": name, "t": m.t.tolist(), "p": m.p.tolist()}, nontrivial=True,
                         sample={"element": name, "mesh": info} if (name, rep) == ("ElementTriP2", 0) else None)
                try:
                    r = fd_check_gbasis(ctx, m, e, name, info)
                except Exception as ex:
                    r = ("derivative check raised " + exc_kind(ex), repr(ex))
                if r:
                    ctx.violation(r[0], dict(descr, detail=r[1]), {"what": "mapped-derivative", "element": name})
                if elements.family(e) == "global":
                    try:
                        g = global_duality(m, fac())
                        if g:
                            ctx.violation("defining vertex functionals of a globally defined element are not dual "
                                          "to the delivered basis", dict(descr, detail=g),
                                          {"what": "global-dual", "element": name})
                        elif g is False:
                            ctx.count("global-duality-checked")
                    except Exception as ex:
                        ctx.violation("global element evaluation raised " + exc_kind(ex), dict(descr, err=repr(ex)),
                                      {"what": "raise-global", "element": name})
            if name.startswith(("ElementLinePp", "ElementQuadP")):
                try:
                    r = ref_fd_check(fac(), name, rng)
                    if r:
                        ctx.violation("declared reference derivative is not the derivative of the declared value",
                                      {"element": name, "detail": r}, {"what": "grad", "element": name})
                    ctx.count("reference-fd:" + name.split("(")[0])
                except Exception as ex:
                    ctx.violation("lbasis raised " + exc_kind(ex), {"element": name, "err": repr(ex)},
                                  {"what": "raise-lbasis", "element": name})
    # ---- wrappers: ElementVector / ElementDG / ElementComposite deliver the wrapped function and ITS derivative
    from skfem import ElementVector, ElementDG, ElementComposite
    for it in range(ctx.scale(12, 80)):
        if ctx.time_left(0.97) < 0:
            break
        kind = rng.choice(["line", "tri", "quad", "tet", "hex"])
        cands = [(n, f) for (n, f) in elements.pool()[kind] if "Skeleton" not in n
                 and elements.family(f()) in ("h1", "hdiv", "hcurl")]
        (n1, f1), (n2, f2) = rng.choice(cands), rng.choice(cands)
        w = rng.choice(["vector", "dg", "composite"])
        try:
            if w == "vector" and elements.family(f1()) == "h1":
                e, name = ElementVector(f1()), f"ElementVector({n1})"
            elif w == "dg":
                e, name = ElementDG(f1()), f"ElementDG({n1})"
            else:
                e, name = ElementComposite(f1(), f2()), f"ElementComposite({n1},{n2})"
            m, info = meshes.gen_first_order(rng, kind, holes=False)
            ctx.case({"element": name, "t": m.t.tolist(), "p": m.p.tolist()}, nontrivial=True)
            ctx.count("mapped-wrapper:" + w)
            r = fd_check_gbasis(ctx, m, e, name, info, ncells=1)
        except Exception as ex:
            r = ("derivative check of a wrapper raised " + exc_kind(ex), repr(ex))
        if r:
            ctx.violation(r[0], {"element": name, "mesh": meshes.mesh_descr(m), "detail": r[1]},
                          {"what": "mapped-derivative", "element": name.split("(")[0]})
    # ---- ElementVector around EVERY family (globally defined, H(div), H(curl) too): slot by slot the wrapper delivers
    # the inner element's field in component n and zeros elsewhere, and no field where the inner element has none
    # (a derivative field that moves to another slot is no longer the derivative of the delivered value)
    for it in range(ctx.scale(40, 300)):
        if ctx.time_left(0.985) < 0:
            break
        kind = rng.choice(["line", "tri", "quad", "tet", "hex"])
        cands = [(n, f) for (n, f) in elements.pool()[kind] if "Skeleton" not in n]
        special = [(n, f) for (n, f) in cands if elements.family(f()) in ("global", "hdiv", "hcurl")]
        n1, f1 = rng.choice(special) if special and rng.random() < 0.5 else rng.choice(cands)
        name = f"ElementVector({n1})"
        try:
            inner = f1()
            if elements.family(inner) == "global" and kind in ("quad", "hex"):
                continue
            ncomp = rng.choice([None, 1, 2, 3])
            e = ElementVector(inner) if ncomp is None else ElementVector(inner, ncomp)
            m, info = meshes.gen_first_order(rng, kind, holes=False)
            mp = m.mapping()
            X = exact_points(rng, kind, 3) if "exact_points" in globals() else None
            if X is None:
                from ..c15hist import ref_points
                X = ref_points(rng, kind, 3)
            nb = int(sum(inner._bfun_counts()))
            i = rng.randrange(nb * e.dim)
            ind, comp = i // e.dim, i % e.dim
            tind = np.array([rng.randrange(m.nelements)], dtype=np.int64)
            fin = inner.gbasis(mp, X, ind, tind)[0].astuple
            fout = e.gbasis(mp, X, i, tind)[0].astuple
            ctx.case({"element": name, "ncomp": ncomp, "i": i, "t": m.t.tolist()}, nontrivial=True)
            ctx.count("vector-wrapper-slots:" + elements.family(inner))
            bad = None
            if len(fin) != len(fout):
                bad = "number of field slots differs"
            for k, (a, b_) in enumerate(zip(fin, fout)):
                if bad:
                    break
                if (a is None) != (b_ is None):
                    bad = f"slot {k}: inner element {'has no' if a is None else 'has a'} field, wrapper " \
                          f"{'has none' if b_ is None else 'has one'}"
                elif a is not None:
                    a, b_ = np.asarray(a), np.asarray(b_)
                    want = np.zeros((e.dim,) + a.shape)
                    want[comp] = a
                    if b_.shape != want.shape or not np.array_equal(b_, want):
                        bad = f"slot {k}: wrapper field is not the inner field in component {comp}"
            if bad:
                ctx.violation("ElementVector does not deliver the wrapped element's fields slot by slot",
                              {"element": name, "components": ncomp, "basis_function": i, "detail": bad,
                               "mesh": meshes.mesh_descr(m)},
                              {"what": "vector-wrapper-slots", "element": n1.split("(")[0]})
        except Exception as ex:
            ctx.violation("gbasis of a vector wrapper raised " + exc_kind(ex), {"element": name, "err": repr(ex)},
                          {"what": "raise-gbasis", "element": name})
    # ---- normal-derivative DOFs (u_n) of the globally defined plate elements on BOUNDARY facets: the derivative
    # of the associated basis function along the OUTWARD normal at the facet midpoint is +1 (cells with one, two
    # or three boundary facets; any numbering)
    import skfem as _sk
    from skfem import FacetBasis as _FB, Basis as _B
    for it in range(ctx.scale(10, 80)):
        if ctx.time_left(0.99) < 0:
            break
        ecls = rng.choice([_sk.ElementTriMorley, _sk.ElementTriArgyris, _sk.ElementTri15ParamPlate])
        r = rng.random()
        if r < 0.25:
            mg, infog = _sk.MeshTri1(), {"gen": "MeshTri()"}
        elif r < 0.4:
            mg, infog = _sk.MeshTri1.init_refdom(), {"gen": "single cell"}
        else:
            mg, infog = meshes.gen_first_order(rng, "tri")
        if mg.nelements > 30:
            continue
        try:
            e = ecls()
            row = [k for k, nm in enumerate(e.dofnames[e.nodal_dofs:e.nodal_dofs + e.facet_dofs]) if nm == "u_n"]
            if not row:
                continue
            bg = _B(mg, e)
            fbg = _FB(mg, e, quadrature=(np.array([[0.5]]), np.array([1.0])))
            ctx.case({"element": ecls.__name__, "t": mg.t.tolist(), "p": mg.p.tolist(), "kind": "u_n-outward"},
                     nontrivial=True)
            ctx.count("normal-derivative-dofs-on-boundary")
            for q, f in enumerate(fbg.find):
                k = int(fbg.tind[q])
                dof = int(bg.facet_dofs[row[0], f])
                j = list(bg.element_dofs[:, k]).index(dof)
                g = float((np.asarray(fbg.basis[j][0].grad)[:, q, 0] * np.asarray(fbg.normals)[:, q, 0]).sum())
                if abs(g - 1.0) > 1e-3:      # (a flipped normal gives -1; the power basis costs several digits)
                    ctx.violation("the basis function of a normal-derivative DOF on a boundary facet does not have "
                                  "outward normal derivative +1 at the facet midpoint",
                                  {"element": ecls.__name__, "mesh": meshes.mesh_descr(mg), "facet": int(f), "cell": k,
                                   "outward_normal_derivative": g},
                                  {"what": "global-dual-normal", "element": ecls.__name__})
                    break
        except Exception as ex:
            ctx.violation("normal-derivative duality check raised " + exc_kind(ex),
                          {"element": ecls.__name__, "err": repr(ex)}, {"what": "raise-gbasis", "element": ecls.__name__})
    # ---- composites of nodal elements: local function i of component c takes the value 1 at ITS location in the
    # composite's location table and 0 at the locations of the other functions of that component
    import json as _json
    from pathlib import Path as _Path
    _exp = _json.loads((_Path(__file__).resolve().parents[1] / "gens" / "shape_expect.json").read_text())
    _dual = {k for k, v in _exp.items() if isinstance(v, dict) and v.get("dual")}
    for it in range(ctx.scale(24, 200)):
        if ctx.time_left(0.99) < 0:
            break
        kind = rng.choice(["tet", "hex", "tet", "hex", "tri", "quad"])
        cands = [(n, f) for (n, f) in elements.pool()[kind] if n in _dual and not n.endswith("0")]
        if len(cands) < 2:
            continue
        (n1, f1), (n2, f2) = rng.sample(cands, 2)
        name = f"ElementComposite({n1},{n2})"
        try:
            ec = ElementComposite(f1(), f2())
            locs = np.asarray(ec.doflocs, dtype=float)
            if np.isnan(locs).any():
                continue
            mref = meshes.CLS[kind].init_refdom()
            mp = mref.mapping()
            X = locs.T.copy()
            nb = locs.shape[0]
            comp_of, vals = [], []
            for i in range(nb):
                flds = ec.gbasis(mp, X, i)
                v = [np.asarray(f.value)[0] for f in flds]
                act = [c for c, a in enumerate(v) if np.abs(a).max() > 1e-12]
                comp_of.append(act[0] if len(act) == 1 else None)
                vals.append(v)
            ctx.case({"element": name, "kind": kind}, nontrivial=True)
            ctx.count("composite-nodal-duality")
            badi = None
            for i in range(nb):
                c = comp_of[i]
                if c is None:
                    badi = (i, "not exactly one component is active")
                    break
                for j in range(nb):
                    if comp_of[j] == c and abs(vals[i][c][j] - (1.0 if i == j else 0.0)) > 1e-9:
                        badi = (i, f"value {float(vals[i][c][j]):.3g} at the location of function {j}")
                        break
                if badi:
                    break
            if badi:
                ctx.violation("the location table of a composite of nodal elements is not in the order of its basis "
                              "functions", {"element": name, "basis_function": badi[0], "detail": badi[1]},
                              {"what": "composite-duality", "kind": kind})
        except Exception as ex:
            ctx.violation("composite duality check raised " + exc_kind(ex), {"element": name, "err": repr(ex)},
                          {"what": "raise-gbasis", "element": name})
    # ---- points stored as INTEGERS (vertex / lumping rules written with integer literals): same values and
    # derivatives as with the same points stored as floats, also for a float call on the same object afterwards
    import skfem
    RDP = {"line": skfem.refdom.RefLine, "tri": skfem.refdom.RefTri, "quad": skfem.refdom.RefQuad,
           "tet": skfem.refdom.RefTet, "hex": skfem.refdom.RefHex, "wedge": skfem.refdom.RefWedge}
    for kind, lst in elements.pool().items():
        Xf = np.array(RDP[kind].p, dtype=np.float64)
        Xi = np.rint(Xf).astype(np.int64)
        if not np.array_equal(Xi, Xf):
            continue
        for name, fac in lst:
            if "Skeleton" in name or ctx.time_left(0.995) < 0:
                continue
            try:
                e_int, e_flt = fac(), fac()
                if not hasattr(e_int, "lbasis") or elements.family(e_int) == "global":
                    continue
                nb = int(sum(e_int._bfun_counts()))
                ctx.count("integer-typed-points")
                for i in range(nb):
                    a = [np.asarray(v, dtype=float) for v in e_int.lbasis(Xi, i)]
                    a2 = [np.asarray(v, dtype=float) for v in e_int.lbasis(Xf, i)]     # same object, now floats
                    b_ = [np.asarray(v, dtype=float) for v in e_flt.lbasis(Xf, i)]
                    for lab, u_ in (("integer-typed points", a), ("float points after an integer-typed call", a2)):
                        if any(x.shape != y.shape or not np.allclose(x, y, rtol=1e-13, atol=1e-13, equal_nan=True)
                               for x, y in zip(u_, b_)):
                            ctx.violation("lbasis at " + lab + " differs from lbasis at the same points stored as "
                                          "floats on a fresh object", {"element": name, "basis_function": i,
                                                                       "points": Xi.tolist()},
                                          {"what": "integer-points", "element": name.split("(")[0]})
                            raise StopIteration
            except StopIteration:
                pass
            except Exception as ex:
                ctx.count("integer-typed-points:raises:" + exc_kind(ex))
    if ctx.tier == "thorough" and not getattr(ctx, "no_lean", False):
        ctx.leanchecker(["SkfemVerif.Props.C09"])
