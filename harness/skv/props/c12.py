"""C12  Uniform refinement preserves domain, conformity and named regions.

Layers (GUIDE.md): (1) Lean proof `SkfemVerif.Props.C12` over the executable model
`Model/RefineUniform.lean`; (2) correspondence `refine.*` ops: the model's `p`, `t`, subdomain and
boundary index arrays against `m.refined()` (exact); (3) the search below: an independent exact
(integer) geometric oracle that never looks at how the code numbers the children.

The oracle works on integer coordinates (all generated coordinates are dyadic; a common power of
two clears the denominators), so every predicate below is decided exactly.
"""
from __future__ import annotations

import contextlib
import itertools
import logging
import os

import numpy as np

from .. import meshes
from ..core import exc_kind, qstr

SIMPLEX = {"line": 1, "tri": 2, "tet": 3}
DIM = {"line": 1, "tri": 2, "quad": 2, "tet": 3, "hex": 3, "wedge": 3}
BOUNDARY_PROPAGATED = ("line", "tri", "quad")      # the statement names these cell types


# ---------------------------------------------------------------------------------------------
# exact integer geometry

class NotDyadic(Exception):
    pass


def to_int(arrays):
    """common power-of-two scaling of float arrays (dim, n) -> object arrays (n, dim) of Python ints"""
    S = 0
    while S <= 48:
        f = 2.0 ** S
        if all(np.all(a * f == np.rint(a * f)) for a in arrays):
            break
        S += 1
    else:
        raise NotDyadic()
    out = []
    for a in arrays:
        ai = np.rint(a * 2.0 ** S)
        if ai.size and np.abs(ai).max() >= 2.0 ** 52:
            raise NotDyadic()
        o = np.empty((a.shape[1], a.shape[0]), dtype=object)
        for i in range(a.shape[1]):
            for c in range(a.shape[0]):
                o[i, c] = int(ai[c, i])
        out.append(o)
    return out, S


def narrow(*arrs):
    """int64 views when every determinant formed below provably fits, else the object arrays"""
    m = 1
    dim = arrs[0].shape[-1]
    for a in arrs:
        if a.size:
            m = max(m, max(abs(int(v)) for v in a.flat))
    bits = m.bit_length() + 5          # differences, centroid sums (x8), products with nv
    if dim * bits + 4 < 62:
        return tuple(a.astype(np.int64) for a in arrs)
    return arrs


def det(M):
    d = M.shape[-1]
    if d == 1:
        return M[..., 0, 0]
    if d == 2:
        return M[..., 0, 0] * M[..., 1, 1] - M[..., 0, 1] * M[..., 1, 0]
    return (M[..., 0, 0] * (M[..., 1, 1] * M[..., 2, 2] - M[..., 1, 2] * M[..., 2, 1])
            - M[..., 0, 1] * (M[..., 1, 0] * M[..., 2, 2] - M[..., 1, 2] * M[..., 2, 0])
            + M[..., 0, 2] * (M[..., 1, 0] * M[..., 2, 1] - M[..., 1, 1] * M[..., 2, 0]))


def sgn(a):
    a = np.asarray(a)
    if a.dtype == object:
        return np.array([(v > 0) - (v < 0) for v in a.flat], dtype=np.int64).reshape(a.shape)
    return np.sign(a).astype(np.int64)


def simplex_vol(X):
    """X (..., d+1, d) -> signed d! * volume"""
    return det(X[..., 1:, :] - X[..., :1, :])


def simplex_halfspaces(X, Y):
    """X (n, d+1, d) simplices, Y (n, m, d) points -> (n, m, d+1): barycentric numerators times the
    sign of the simplex volume (>= 0 inside, > 0 strictly inside)"""
    n, nv, d = X.shape
    m = Y.shape[1]
    D = sgn(simplex_vol(X))
    out = []
    for i in range(nv):
        Xi = np.repeat(X[:, None, :, :], m, axis=1).copy()
        Xi[:, :, i, :] = Y
        out.append(simplex_vol(Xi) * D[:, None])
    return np.stack(out, axis=-1)


def quad_area2(X):
    """X (..., 4, 2) cyclic -> twice the signed area (shoelace)"""
    Xn = np.roll(X, -1, axis=-2)
    return (X[..., 0] * Xn[..., 1] - X[..., 1] * Xn[..., 0]).sum(axis=-1)


def quad_corners(X):
    """X (..., 4, 2) -> (..., 4) cross products at the corners (all of one sign <=> strictly convex)"""
    a = np.roll(X, -1, axis=-2) - X
    b = np.roll(X, -2, axis=-2) - np.roll(X, -1, axis=-2)
    return a[..., 0] * b[..., 1] - a[..., 1] * b[..., 0]


def quad_halfspaces(X, Y):
    """X (n,4,2) convex quads (cyclic), Y (n,m,2) -> (n,m,4) side functions times orientation"""
    ori = sgn(quad_area2(X))
    A = X[:, None, :, :]
    B = np.roll(X, -1, axis=1)[:, None, :, :]
    Yb = Y[:, :, None, :]
    s = (B[..., 0] - A[..., 0]) * (Yb[..., 1] - A[..., 1]) - (B[..., 1] - A[..., 1]) * (Yb[..., 0] - A[..., 0])
    return s * ori[:, None, None]


def halfspaces(kind, X, Y):
    return quad_halfspaces(X, Y) if kind == "quad" else simplex_halfspaces(X, Y)


def measure(kind, X, refp=None):
    """signed measure of straight cells up to a positive constant that depends on the kind only"""
    if kind in SIMPLEX:
        return simplex_vol(X)
    if kind == "quad":
        return quad_area2(X)
    return hex_measure(X, refp)


def hex_measure(X, refp, samples=False):
    """216*64 * integral of det J over the reference cube by the tensor Simpson rule, which is exact:
    det J of a trilinear map has degree <= 2 in each variable.  X (n, 8, 3) object ints;
    refp (8, 3) 0/1 reference coordinates of the local vertices.
    samples=True: returns (min, max) of the sign of det J over the 27 Simpson points instead"""
    X = X.astype(object)
    n = X.shape[0]
    tot = np.zeros(n, dtype=object)
    smin = np.full(n, 2, dtype=np.int64)
    smax = np.full(n, -2, dtype=np.int64)
    w = (1, 4, 1)
    for ijk in itertools.product(range(3), repeat=3):
        J = np.zeros((n, 3, 3), dtype=object)
        for v in range(8):
            for c in range(3):
                g = 1 if refp[v][c] else -1
                for c2 in range(3):
                    if c2 != c:
                        g *= ijk[c2] if refp[v][c2] else 2 - ijk[c2]
                if g:
                    J[:, :, c] = J[:, :, c] + g * X[:, v, :]
        dj = det(J)
        tot = tot + w[ijk[0]] * w[ijk[1]] * w[ijk[2]] * dj
        if samples:
            sg = sgn(dj)
            smin = np.minimum(smin, sg)
            smax = np.maximum(smax, sg)
    if samples:
        return smin, smax
    return tot


# ---------------------------------------------------------------------------------------------
# multilinear lattices (hexahedra and their quadrilateral faces)

def lattice_points(Xc, refp, L):
    """images of the dyadic lattice {0..2^L}^q / 2^L under the multilinear map with vertex values
    Xc (nv, d) and reference coordinates refp (nv, q); values scaled by 2^(qL).
    returns dict point-tuple -> lattice index tuple"""
    q = len(refp[0])
    N = 1 << L
    out = {}
    for idx in itertools.product(range(N + 1), repeat=q):
        pt = [0] * Xc.shape[1]
        for v in range(len(refp)):
            wgt = 1
            for c in range(q):
                wgt *= idx[c] if refp[v][c] else N - idx[c]
            if wgt:
                for a in range(Xc.shape[1]):
                    pt[a] += wgt * int(Xc[v, a])
        out.setdefault(tuple(pt), idx)
    return out


def aligned_box(xis, refp):
    """xis: lattice indices of the images of the local vertices (in local order); refp their
    reference coordinates.  Returns (lo, hi, detsign) if xi_v = base + A refp_v with A a signed
    axis permutation scaled per axis (an axis aligned sub-box, any rotation/reflection), else None"""
    q = len(refp[0])
    nv = len(refp)
    origin = next(v for v in range(nv) if not any(refp[v]))
    base = xis[origin]
    cols = []
    for c in range(q):
        v = next(v for v in range(nv) if sum(refp[v]) == 1 and refp[v][c] == 1)
        cols.append([xis[v][a] - base[a] for a in range(q)])
    axes = []
    for col in cols:
        nz = [a for a in range(q) if col[a] != 0]
        if len(nz) != 1:
            return None
        axes.append(nz[0])
    if len(set(axes)) != q:
        return None
    for v in range(nv):
        want = [base[a] + sum(cols[c][a] * refp[v][c] for c in range(q)) for a in range(q)]
        if list(xis[v]) != want:
            return None
    A = np.array(cols, dtype=object).T
    d = int(det(A[None])[0]) if q == 3 else int(A[0, 0] * A[1, 1] - A[0, 1] * A[1, 0])
    lo = [min(x[a] for x in xis) for a in range(q)]
    hi = [max(x[a] for x in xis) for a in range(q)]
    return lo, hi, (d > 0) - (d < 0)


# ---------------------------------------------------------------------------------------------
# topology by vertex sets (independent of Mesh.facets)

def cell_facets(m):
    """list over cells of list of facet keys (sorted vertex tuples) + ordered local vertex tuples"""
    rf = m.elem.refdom.facets
    t = m.t
    keys, ordered = [], []
    for k in range(t.shape[1]):
        ks, os_ = [], []
        for loc in rf:
            vs = [int(t[i, k]) for i in loc]
            os_.append(tuple(dict.fromkeys(vs)))
            ks.append(tuple(sorted(set(vs))))
        keys.append(ks)
        ordered.append(os_)
    return keys, ordered


def facet_incidence(keys):
    inc = {}
    for k, ks in enumerate(keys):
        for s, key in enumerate(ks):
            inc.setdefault(key, []).append((k, s))
    return inc


def point_in_facet(dim, G, y):
    """closed straight facet G (list of integer points: 1 point / segment / planar polygon in 3-D
    given in cyclic order) contains y ?"""
    if dim == 1:
        return tuple(G[0]) == tuple(y)
    if dim == 2:
        a, b = G
        u = (b[0] - a[0], b[1] - a[1])
        w = (y[0] - a[0], y[1] - a[1])
        if u[0] * w[1] - u[1] * w[0] != 0:
            return False
        s = u[0] * w[0] + u[1] * w[1]
        return 0 <= s <= u[0] * u[0] + u[1] * u[1]
    # dim 3, planar convex polygon
    a, b, c = G[0], G[1], G[2]
    u = [b[i] - a[i] for i in range(3)]
    v = [c[i] - a[i] for i in range(3)]
    nrm = [u[1] * v[2] - u[2] * v[1], u[2] * v[0] - u[0] * v[2], u[0] * v[1] - u[1] * v[0]]
    if sum(nrm[i] * (y[i] - a[i]) for i in range(3)) != 0:
        return False
    for i in range(len(G)):
        p0, p1 = G[i], G[(i + 1) % len(G)]
        e = [p1[j] - p0[j] for j in range(3)]
        w = [y[j] - p0[j] for j in range(3)]
        cr = [e[1] * w[2] - e[2] * w[1], e[2] * w[0] - e[0] * w[2], e[0] * w[1] - e[1] * w[0]]
        if sum(cr[j] * nrm[j] for j in range(3)) < 0:
            return False
    return True


def facet_weight(dim, G, g):
    """relative (d-1)-measure of facet g inside the coplanar facet G, as an integer pair (num, den)"""
    if dim == 1:
        return 1, 1
    if dim == 2:
        U = (G[1][0] - G[0][0], G[1][1] - G[0][1])
        u = (g[1][0] - g[0][0], g[1][1] - g[0][1])
        return abs(u[0] * U[0] + u[1] * U[1]), U[0] * U[0] + U[1] * U[1]

    def area_vec(P):
        tot = [0, 0, 0]
        for i in range(1, len(P) - 1):
            u = [P[i][j] - P[0][j] for j in range(3)]
            v = [P[i + 1][j] - P[0][j] for j in range(3)]
            tot[0] += u[1] * v[2] - u[2] * v[1]
            tot[1] += u[2] * v[0] - u[0] * v[2]
            tot[2] += u[0] * v[1] - u[1] * v[0]
        return tot
    N, n = area_vec(G), area_vec(g)
    return abs(sum(N[i] * n[i] for i in range(3))), sum(N[i] * N[i] for i in range(3))


def planar(G):
    if len(G) < 4:
        return True
    a, b, c, d = G
    M = np.array([[[b[i] - a[i] for i in range(3)], [c[i] - a[i] for i in range(3)],
                   [d[i] - a[i] for i in range(3)]]], dtype=object)
    return int(det(M)[0]) == 0


QUAD_REF = [(0, 0), (1, 0), (1, 1), (0, 1)]


class Geo:
    """integer geometry of one mesh (vertex part only)"""

    def __init__(self, m, kind, P):
        self.m = m
        self.kind = kind
        self.base = kind[:-1] if kind.endswith("2") else kind
        self.dim = DIM[self.base]
        self.P = P                                    # (nverts_total, dim) object ints
        nn = m.elem.refdom.nnodes
        self.t = m.t[:nn]
        self.nt = self.t.shape[1]
        self.X = P[self.t.T]                          # (nt, nn, dim)
        rp = m.elem.refdom.p
        self.refp = [tuple(int(round(v)) for v in rp[:, j]) for j in range(rp.shape[1])]
        self.keys, self.ordered = cell_facets(m)
        self.inc = facet_incidence(self.keys)

    def cell_measure(self):
        return measure(self.base, self.X, self.refp)

    def boundary_facets(self):
        """list of (key, ordered vertex tuple (cyclic for quads faces), cell, slot)"""
        out = []
        for key, own in self.inc.items():
            if len(own) == 1:
                k, s = own[0]
                out.append((key, self.ordered[k][s], k, s))
        return out

    def pts(self, vs):
        return [tuple(int(c) for c in self.P[v]) for v in vs]


# ---------------------------------------------------------------------------------------------
# the oracle: old mesh, new mesh (claimed to be `levels` uniform refinements of old)

def validate_input(g: Geo):
    """the property quantifies over valid conforming straight meshes; reject other inputs"""
    base = g.base
    if base == "wedge":
        return None
    vol = g.cell_measure()
    if any(int(v) == 0 for v in vol):
        return "degenerate input cell"
    if base == "quad":
        c = quad_corners(g.X)
        s = sgn(c)
        if not all(abs(int(r.sum())) == 4 for r in s):
            return "non-convex input quadrilateral"
    if base == "hex":
        smin, smax = hex_measure(g.X, g.refp, samples=True)
        if not ((smin == smax) & (smin != 0)).all():
            return "input hexahedron with det J of varying sign"
    if any(len(o) > 2 for o in g.inc.values()):
        return "input facet in more than two cells"
    cellsets = [tuple(sorted(int(v) for v in c)) for c in g.t.T]
    if len(set(cellsets)) != len(cellsets):
        return "duplicate input cells"
    # hanging nodes of the input: a vertex in the closed boundary facet of another cell
    used = sorted(set(int(v) for v in g.t.flat))
    pts = {v: tuple(int(c) for c in g.P[v]) for v in used}
    if len(set(pts.values())) != len(used):
        return "duplicate input vertices"
    if base != "hex":
        bf = g.boundary_facets()
        Gs = [g.pts(ordv) for _, ordv, _, _ in bf]
        for (key, ordv, k, s), G in zip(bf, Gs):
            for v in used:
                if v not in key and point_in_facet(g.dim, G, pts[v]):
                    return "hanging node in the input"
        if g.dim >= 2:
            # coplanar overlapping boundary facets (zero-thickness cracks left by dropped slivers)
            for a, Ga in enumerate(Gs):
                n = len(Ga)
                cen = tuple(sum(p_[i] for p_ in Ga) for i in range(g.dim))
                for b, Gb in enumerate(Gs):
                    if a != b and point_in_facet(g.dim, [tuple(c * n for c in p_) for p_ in Gb], cen):
                        return "overlapping boundary facets in the input"
    return None


def find_parents(old: Geo, new: Geo, levels: int):
    """parent[j] = the unique old cell containing new cell j (exactly, closed), found geometrically.
    returns (parent array with -1 where none/ambiguous, list of failure descriptions)"""
    base = old.base
    bad = []
    ntn = new.nt
    parent = -np.ones(ntn, dtype=np.int64)
    if base == "hex":
        refp = old.refp
        # global dictionary lattice point -> [(cell, xi)]
        table = {}
        for q in range(old.nt):
            for pt, xi in lattice_points(old.X[q], refp, levels).items():
                table.setdefault(pt, []).append((q, xi))
        scale = 1 << (3 * levels)
        boxes = {}
        for j in range(ntn):
            hits = []
            for v in range(8):
                pt = tuple(int(c) * scale for c in new.X[j, v])
                hits.append({q: xi for q, xi in table.get(pt, [])})
            common = set(hits[0])
            for h in hits[1:]:
                common &= set(h)
            good = []
            for q in sorted(common):
                bx = aligned_box([hits[v][q] for v in range(8)], new.refp)
                if bx is not None:
                    good.append((q, bx))
            if len(good) != 1:
                bad.append(("new cell is not the image of a dyadic sub-box of exactly one old cell "
                            "(not inside one old cell)", {"new_cell": j, "candidates": [q for q, _ in good]}))
                continue
            q, (lo, hi, dsgn) = good[0]
            parent[j] = q
            if dsgn <= 0:
                bad.append(("new hexahedron is inverted relative to its parent", {"new_cell": j, "old_cell": q}))
            boxes.setdefault(q, []).append((j, lo, hi))
        N = 1 << levels
        for q in range(old.nt):
            cover = np.zeros((N, N, N), dtype=np.int64)
            for j, lo, hi in boxes.get(q, []):
                cover[lo[0]:hi[0], lo[1]:hi[1], lo[2]:hi[2]] += 1
            if not (cover == 1).all():
                bad.append(("the children of an old hexahedron do not tile it (gap or overlap)",
                            {"old_cell": q, "min": int(cover.min()), "max": int(cover.max())}))
                break
        return parent, bad
    # simplices and convex quadrilaterals: locate by the centroid, then check every vertex
    nv = new.X.shape[1]
    Xo, Xn = narrow(old.X * nv, new.X * nv)
    Yc = Xn.sum(axis=1) // nv                                        # nv * centroid (exact)
    H = halfspaces(base, Xo, np.broadcast_to(Yc[None], (old.nt,) + Yc.shape))
    strictly = (sgn(H) > 0).all(axis=-1)                              # (nto, ntn)
    cnt = strictly.sum(axis=0)
    for j in range(ntn):
        if cnt[j] != 1:
            bad.append(("centroid of a new cell is not strictly inside exactly one old cell",
                        {"new_cell": j, "old_cells": np.nonzero(strictly[:, j])[0].tolist()}))
            if len(bad) > 3:
                return parent, bad
    ok = cnt == 1
    parent[ok] = strictly.argmax(axis=0)[ok]
    idx = np.nonzero(ok)[0]
    if len(idx):
        Hv = halfspaces(base, Xo[parent[idx]], Xn[idx])                 # (n, nv, nh)
        inside = (sgn(Hv) >= 0).all(axis=(1, 2))
        for j in idx[~inside][:3]:
            bad.append(("a vertex of a new cell lies outside the old cell that contains its centroid",
                        {"new_cell": int(j), "old_cell": int(parent[j])}))
    return parent, bad


def check_partition(old: Geo, new: Geo, parent):
    """measures add up exactly per old cell; no degenerate / inverted child"""
    bad = []
    base = old.base
    mo = old.cell_measure()
    mn = new.cell_measure()
    sums = {}
    for j in range(new.nt):
        v = int(mn[j])
        q = int(parent[j])
        if v == 0:
            bad.append(("degenerate new cell", {"new_cell": j}))
            break
        if q < 0:
            continue
        if base in ("quad", "hex"):
            if (v > 0) != (int(mo[q]) > 0):
                bad.append(("new cell is inverted relative to its parent", {"new_cell": j, "old_cell": q}))
                break
            sums[q] = sums.get(q, 0) + v
        else:
            sums[q] = sums.get(q, 0) + abs(v)
    if base == "hex" and not bad:
        smin, smax = hex_measure(new.X, new.refp, samples=True)
        if not ((smin == smax) & (smin != 0)).all():
            j = int(np.nonzero(~((smin == smax) & (smin != 0)))[0][0])
            bad.append(("det J of a new hexahedron vanishes or changes sign", {"new_cell": j}))
    if base == "quad":
        c = sgn(quad_corners(new.X))
        for j in range(new.nt):
            if abs(int(c[j].sum())) != 4:
                bad.append(("new quadrilateral is not strictly convex", {"new_cell": j}))
                break
    if (parent >= 0).all():
        for q in range(old.nt):
            want = int(mo[q]) if base in ("quad", "hex") else abs(int(mo[q]))
            if sums.get(q, 0) != want:
                bad.append(("measures of the new cells inside an old cell do not add up to its measure",
                            {"old_cell": q, "sum": str(sums.get(q, 0)), "want": str(want)}))
                break
    return bad


def check_conformity(old: Geo, new: Geo, levels: int):
    """facet in <= 2 cells, neighbours on opposite sides, boundary facets of the new mesh cover
    exactly the old boundary (<=> no hanging nodes, given the partition)"""
    bad = []
    base, dim = old.base, old.dim
    for key, own in new.inc.items():
        if len(own) > 2:
            bad.append(("a facet of the refined mesh belongs to more than two cells",
                        {"facet_vertices": list(key), "cells": [k for k, _ in own]}))
            return bad
    # opposite sides (straight facets: simplices, quads)
    if base in ("tri", "tet", "quad", "line"):
        nv = new.X.shape[1]
        for key, own in new.inc.items():
            if len(own) != 2:
                continue
            (k1, s1), (k2, s2) = own
            if base == "line":
                a = int(new.P[key[0]][0])
                c1 = sum(int(x[0]) for x in new.X[k1]) - nv * a
                c2 = sum(int(x[0]) for x in new.X[k2]) - nv * a
                opp = (c1 > 0) != (c2 > 0) and c1 != 0 and c2 != 0
            else:
                F = [[int(c) * nv for c in new.P[v]] for v in key]
                side = []
                for k in (k1, k2):
                    cen = [sum(int(new.X[k, v, a]) for v in range(nv)) for a in range(dim)]
                    M = np.array([[[F[i][a] - F[0][a] for a in range(dim)] for i in range(1, dim)]
                                  + [[cen[a] - F[0][a] for a in range(dim)]]], dtype=object)
                    side.append(int(det(M)[0]))
                opp = side[0] * side[1] < 0
            if not opp:
                bad.append(("two new cells sharing a facet lie on the same side of it (overlap)",
                            {"cells": [k1, k2], "facet_vertices": list(key)}))
                return bad
    ob = old.boundary_facets()
    nb = new.boundary_facets()
    if dim == 1:
        po = sorted(old.pts(k) for k, _, _, _ in ob)
        pn = sorted(new.pts(k) for k, _, _, _ in nb)
        if po != pn:
            bad.append(("boundary points changed", {"old": po, "new": pn}))
        return bad
    if base == "hex" and not all(planar(old.pts(o)) for _, o, _, _ in ob):
        # bilinear boundary faces: lattice witness on each old boundary face
        table = {}
        for i, (_, o, _, _) in enumerate(ob):
            G = np.array(old.pts(o), dtype=object)
            for pt, eta in lattice_points(G, QUAD_REF, levels).items():
                table.setdefault(pt, []).append((i, eta))
        scale = 1 << (2 * levels)
        N = 1 << levels
        cover = [np.zeros((N, N), dtype=np.int64) for _ in ob]
        for key, o, k, s in nb:
            hits = [dict(table.get(tuple(c * scale for c in pt), [])) for pt in new.pts(o)]
            common = set(hits[0])
            for h in hits[1:]:
                common &= set(h)
            good = [(i, aligned_box([hits[v][i] for v in range(4)], QUAD_REF)) for i in sorted(common)]
            good = [(i, b) for i, b in good if b is not None]
            if len(good) != 1:
                bad.append(("a boundary facet of the refined mesh does not lie on the old boundary "
                            "(hanging node / domain changed)", {"new_cell": k, "facet_vertices": list(key)}))
                return bad
            i, (lo, hi, _) = good[0]
            cover[i][lo[0]:hi[0], lo[1]:hi[1]] += 1
        for i, c in enumerate(cover):
            if not (c == 1).all():
                bad.append(("the new boundary facets do not cover an old boundary facet exactly once",
                            {"old_facet_vertices": list(ob[i][0])}))
                return bad
        return bad
    # straight / planar facets
    Gs = [old.pts(o) for _, o, _, _ in ob]
    tot = [0] * len(ob)
    den = [None] * len(ob)
    # bounding boxes for speed
    lo = [[min(p[a] for p in G) for a in range(dim)] for G in Gs]
    hi = [[max(p[a] for p in G) for a in range(dim)] for G in Gs]
    for key, o, k, s in nb:
        g = new.pts(o)
        where = []
        for i, G in enumerate(Gs):
            if any(p[a] < lo[i][a] or p[a] > hi[i][a] for p in g for a in range(dim)):
                continue
            if all(point_in_facet(dim, G, y) for y in g):
                where.append(i)
        if len(where) != 1:
            bad.append(("a boundary facet of the refined mesh does not lie on the old boundary "
                        "(hanging node / domain changed)", {"new_cell": k, "facet_vertices": list(key),
                                                            "old_facets": where}))
            return bad
        num, d = facet_weight(dim, Gs[where[0]], g)
        tot[where[0]] += num
        den[where[0]] = d
    for i in range(len(ob)):
        if den[i] is None or tot[i] != den[i]:
            bad.append(("the new boundary facets do not cover an old boundary facet exactly",
                        {"old_facet_vertices": list(ob[i][0])}))
            return bad
    return bad


def facet_parents(old: Geo, new: Geo, levels: int):
    """for every facet column of new.m.facets: the old facet column containing it, -1 if it lies
    on no old facet, -2 if ambiguous (all old facets are searched, interior ones included)"""
    dim, base = old.dim, old.base
    mo, mn = old.m, new.m
    fo, fn = mo.facets, mn.facets
    nfo, nfn = fo.shape[1], fn.shape[1]
    res = -np.ones(nfn, dtype=np.int64)
    if base == "hex":
        table = {}
        for i in range(nfo):
            G = np.array(old.pts(fo[:, i]), dtype=object)
            for pt, eta in lattice_points(G, QUAD_REF, levels).items():
                table.setdefault(pt, []).append((i, eta))
        scale = 1 << (2 * levels)
        for f in range(nfn):
            hits = [dict(table.get(tuple(c * scale for c in pt), [])) for pt in new.pts(fn[:, f])]
            common = set(hits[0])
            for h in hits[1:]:
                common &= set(h)
            good = [i for i in sorted(common) if aligned_box([hits[v][i] for v in range(4)], QUAD_REF)]
            if len(good) == 1:
                res[f] = good[0]
            elif len(good) > 1:
                res[f] = -2
        return res
    Gs = [old.pts(fo[:, i]) for i in range(nfo)]
    lo = [[min(p[a] for p in G) for a in range(dim)] for G in Gs]
    hi = [[max(p[a] for p in G) for a in range(dim)] for G in Gs]
    for f in range(nfn):
        g = new.pts(fn[:, f])
        where = []
        for i, G in enumerate(Gs):
            if any(p[a] < lo[i][a] or p[a] > hi[i][a] for p in g for a in range(dim)):
                continue
            if all(point_in_facet(dim, G, y) for y in g):
                where.append(i)
        if len(where) == 1:
            res[f] = where[0]
        elif len(where) > 1:
            res[f] = -2
    return res


def second_order_nodes(new: Geo):
    """straight second-order result: the non-vertex nodes are exactly the entity midpoints"""
    m = new.m
    nverts = int(m.t.max()) + 1
    P = new.P
    have = sorted(tuple(int(c) * 8 for c in P[i]) for i in range(nverts, P.shape[0]))
    want = []
    ents = [m.edges if new.dim == 3 else m.facets]
    if new.base in ("quad", "hex"):
        ents.append(new.t)
        if new.base == "hex":
            ents.append(m.facets)
    for E in ents:
        n = E.shape[0]
        for col in E.T:
            want.append(tuple(sum(int(P[v][a]) for v in col) * (8 // n) for a in range(new.dim)))
    return have == sorted(want)


@contextlib.contextmanager
def capture_warnings(records):
    """collect the library's log records at WARNING level (the harness disables logging globally)"""
    class H(logging.Handler):
        def emit(self, record):
            records.append(record.getMessage())
    h = H(level=logging.WARNING)
    lg = logging.getLogger("skfem")
    prev_disable = logging.root.manager.disable
    logging.disable(logging.NOTSET)
    prev_level = lg.level
    lg.addHandler(h)
    prev_prop = lg.propagate
    lg.propagate = False
    try:
        yield
    finally:
        lg.removeHandler(h)
        lg.propagate = prev_prop
        lg.setLevel(prev_level)
        logging.disable(prev_disable)


def oracle(kind, m_old, m_new, levels, warnings_seen, ctx=None):
    """all clauses of the property for `m_new` claimed to be `levels` uniform refinements of `m_old`.
    returns list of (what, detail)"""
    base = kind[:-1] if kind.endswith("2") else kind
    bad = []
    if type(m_new) is not type(m_old):
        return [("refined mesh has another class", {"old": type(m_old).__name__, "new": type(m_new).__name__})]
    try:
        (Po, Pn), S = to_int([m_old.p, m_new.p])
    except NotDyadic:
        return [("refined coordinates are not the exact dyadic means", None)]
    old, new = Geo(m_old, kind, Po), Geo(m_new, kind, Pn)
    d = old.dim
    # 1. cell count
    if new.nt != old.nt * 2 ** (d * levels):
        bad.append(("cell count is not 2^(d k) times the old one", {"old": old.nt, "new": new.nt, "k": levels}))
        return bad
    # 2. old vertices keep index and position
    nvo = m_old.p.shape[1] if not kind.endswith("2") else int(m_old.t.max()) + 1
    if m_new.p.shape[1] < nvo or not (m_new.p[:, :nvo] == m_old.p[:, :nvo]).all():
        bad.append(("an original vertex changed its index or position", None))
    # 3. no duplicate vertices, validity
    allp = [tuple(int(c) for c in r) for r in Pn]
    if len(set(allp)) != len(allp):
        seen = {}
        dup = next((i, seen[p_]) for i, p_ in enumerate(allp) if p_ in seen or seen.setdefault(p_, i) is None)
        bad.append(("duplicate vertices in the refined mesh", {"indices": list(dup)}))
    if m_old.is_valid() and not m_new.is_valid():
        bad.append(("is_valid() is False for the refined mesh", None))
    if kind.endswith("2") and not second_order_nodes(new):
        bad.append(("second-order nodes of the refined mesh are not the entity midpoints", None))
    # 4. every new cell inside exactly one old cell; partition; orientation
    parent, b = find_parents(old, new, levels)
    bad += b
    if not b:
        per = np.bincount(parent, minlength=old.nt)
        if not (per == 2 ** (d * levels)).all():
            bad.append(("an old cell does not contain 2^(d k) new cells", {"counts": per.tolist()}))
    bad += check_partition(old, new, parent)
    # 5. conformity
    bad += check_conformity(old, new, levels)
    if bad:
        return bad
    # 6. named subdomains
    so, sn = m_old.subdomains, m_new.subdomains
    if so is not None:
        if sn is None:
            if not any("ubdomain" in w for w in warnings_seen):
                bad.append(("named subdomains dropped without a warning", None))
            if ctx:
                ctx.count("subdomains-dropped")
        elif set(so) != set(sn):
            bad.append(("subdomain names changed", {"old": sorted(so), "new": sorted(sn)}))
        else:
            for name in so:
                oldset = set(int(v) for v in np.asarray(so[name]).ravel())
                want = set(int(j) for j in np.nonzero(np.isin(parent, sorted(oldset)))[0])
                got = [int(v) for v in np.asarray(sn[name]).ravel()]
                if set(got) != want or any(v < 0 or v >= new.nt for v in got):
                    bad.append(("named subdomain does not cover the same point set after refinement",
                                {"name": name, "old_cells": sorted(oldset), "got": sorted(set(got)),
                                 "want": sorted(want)}))
                    break
            if ctx:
                ctx.count("subdomains-checked", len(so))
    elif sn is not None and len(sn):
        bad.append(("subdomains appeared from nowhere", None))
    # 7. named boundaries
    bo, bn = m_old.boundaries, m_new.boundaries
    if bo is not None:
        if bn is None:
            if not any("oundar" in w for w in warnings_seen):
                bad.append(("named boundaries dropped without a warning", None))
            if base in BOUNDARY_PROPAGATED and not kind.endswith("2"):
                bad.append(("named boundaries are not propagated for a cell type that supports it", None))
            if ctx:
                ctx.count("boundaries-dropped")
        elif set(bo) != set(bn):
            bad.append(("boundary names changed", {"old": sorted(bo), "new": sorted(bn)}))
        else:
            fpar = facet_parents(old, new, levels)
            for name in bo:
                oldix = [int(v) for v in np.asarray(bo[name]).ravel()]
                want = set(int(j) for j in np.nonzero(np.isin(fpar, oldix))[0])
                got = [int(v) for v in np.asarray(bn[name]).ravel()]
                if set(got) != want or any(v < 0 or v >= m_new.facets.shape[1] for v in got):
                    bad.append(("named boundary does not cover the same point set after refinement",
                                {"name": name, "old_facets": sorted(oldix), "got": sorted(set(got)),
                                 "want": sorted(want)}))
                    break
                ori_o = getattr(bo[name], "ori", None)
                ori_n = getattr(bn[name], "ori", None)
                if ori_o is not None and ori_n is None:
                    if ctx:
                        ctx.count("orientation-dropped")
                if ori_n is not None:
                    if ori_o is None:
                        bad.append(("an unoriented boundary became oriented", {"name": name}))
                        break
                    omap = {int(f): int(o) for f, o in zip(np.asarray(bo[name]), ori_o)}
                    for f, o in zip(got, ori_n):
                        F = int(fpar[f])
                        co = int(m_old.f2t[omap[F], F])
                        cn = int(m_new.f2t[int(o), f])
                        if cn < 0 or co < 0 or int(parent[cn]) != co:
                            bad.append(("oriented boundary points to the other side after refinement",
                                        {"name": name, "new_facet": f, "old_facet": F}))
                            break
                    else:
                        if ctx:
                            ctx.count("orientation-checked")
                        continue
                    break
            if ctx:
                ctx.count("boundaries-checked", len(bo))
    elif bn is not None and len(bn):
        bad.append(("boundaries appeared from nowhere", None))
    return bad


# ---------------------------------------------------------------------------------------------
# generators

KINDS = ["line", "tri", "quad", "tet", "hex", "wedge", "tri2", "quad2", "tet2", "hex2"]
MAXCELLS = {"line": 4000, "tri": 3000, "quad": 3000, "tet": 2600, "hex": 1100}


def shear(rng, p):
    """random dyadic affine map with positive determinant (keeps exactness, destroys alignment)"""
    d = p.shape[0]
    A = np.eye(d)
    for i in range(d):
        for j in range(d):
            if i != j and rng.random() < 0.5:
                A[i, j] = rng.randint(-2, 2) / 4
    if abs(np.linalg.det(A)) < 0.3:
        return p, False
    if np.linalg.det(A) < 0:
        A[0] = -A[0]
    return A @ p, True


def jiggle_hex(rng, p):
    q = p.copy()
    for v in range(q.shape[1]):
        if rng.random() < 0.6:
            q[:, v] += np.array([rng.randint(-1, 1) for _ in range(3)]) / 32
    return q


def gen_case(rng, kind, quick=True):
    """returns (mesh with tags, info) for one history start"""
    base = kind[:-1] if kind.endswith("2") else kind
    m, info = meshes.gen_first_order(rng, base, reorder=None if not kind.endswith("2") else False,
                                     size=None)
    p, t = m.p.copy(), m.t.copy()
    if base != "wedge" and rng.random() < 0.4:
        p, done = shear(rng, p)
        info["sheared"] = done
    if base == "hex" and rng.random() < 0.5:
        p = jiggle_hex(rng, p)
        info["jiggled"] = True
    if base == "quad" and rng.random() < 0.3:
        t = t[[0, 3, 2, 1]]                  # clockwise quadrilaterals (mirror numbering)
        info["clockwise"] = True
    if base == "tri" and rng.random() < 0.3:
        m = type(m)(p, t, sort_t=False)
        info["sort_t"] = False
    else:
        m = type(m)(p, t)
    if base in ("line", "tri", "quad", "tet", "hex") and rng.random() < 0.15:
        # an unused trailing vertex (valid input for refinement: new vertices are appended after it)
        extra = np.floor(p.max(axis=1, keepdims=True)) + 64.0
        if base == "tri" and info.get("sort_t") is False:
            m = type(m)(np.hstack((m.p, extra)), m.t, sort_t=False)
        else:
            m = type(m)(np.hstack((m.p, extra)), m.t)
        info["unused-vertex"] = True
    return m, info


def add_tags(rng, m):
    mm, tags = meshes.random_tags(rng, m, oriented=True, interior=True)
    # edge cases of the index arrays: empty, int64, unsorted with a repeated index
    r = rng.random()
    if r < 0.3 and mm.subdomains:
        sd = dict(mm.subdomains)
        name = sorted(sd)[0]
        if r < 0.08:
            sd["empty"] = np.array([], dtype=np.int32)
        elif r < 0.2:
            a = [int(v) for v in sd[name]]
            a = a + [a[0]]
            rng.shuffle(a)
            sd[name] = np.array(a, dtype=np.int64)
        else:
            sd[name] = np.asarray(sd[name], dtype=np.int64)
        bd = None if mm.boundaries is None else dict(mm.boundaries)
        if bd is not None and r < 0.15:
            bd["none"] = np.array([], dtype=np.int32)
        mm = type(mm)(mm.p, mm.t, **({"sort_t": False} if getattr(mm, "sort_t", False) is False and
                                     type(mm).__name__ == "MeshTri1" else {}))
        mm = mm.with_subdomains(sd)
        if bd is not None:
            mm = mm.with_boundaries(bd)
    return mm, tags


def pre_ops(rng, m, info):
    """other mesh operations before refining: restrict / remove_elements / with_defaults"""
    ops = []
    r = rng.random()
    nt = m.nelements
    if r < 0.2 and nt >= 3:
        keep = sorted(rng.sample(range(nt), rng.randint(2, nt - 1)))
        m = m.restrict(np.array(keep, dtype=np.int32))
        ops.append("restrict")
    elif r < 0.35 and nt >= 3:
        rem = sorted(rng.sample(range(nt), rng.randint(1, max(1, nt // 3))))
        m = m.remove_elements(np.array(rem, dtype=np.int32))
        ops.append("remove_elements")
    elif r < 0.45 and m.subdomains:
        name = sorted(m.subdomains)[0]
        if len(m.subdomains[name]) >= 1:
            m = m.restrict(name)
            ops.append("restrict(name)")
    elif r < 0.6 and type(m).__name__ in ("MeshTri1", "MeshTet1"):
        # negatively oriented cells (first two local vertices swapped in some cells), connectivity tables built,
        # THEN oriented(): the oriented copy must not keep tables of the cell order it no longer has
        t2 = m.t.copy()
        flip = [k for k in range(t2.shape[1]) if rng.random() < 0.5] or [0]
        t2[[0, 1]] = np.where(np.isin(np.arange(t2.shape[1]), flip), t2[[1, 0]], t2[[0, 1]])
        kw = {"_boundaries": m._boundaries, "_subdomains": m._subdomains}
        mq = type(m)(m.p, t2, sort_t=False, **kw) if type(m).__name__ == "MeshTri1" else type(m)(m.p, t2, **kw)
        mq.facets, mq.t2f, mq.f2t, mq.boundary_facets()
        if mq.dim() == 3:
            mq.edges, mq.t2e
        try:
            mq.param()
        except Exception:
            pass
        m = mq.oriented()
        ops.append("tables-then-oriented")
        if type(m).__name__ == "MeshTri1":
            info["sort_t"] = bool(m.sort_t)
    info["pre_ops"] = ops
    return m


def signature(kind, what, m_old, levels):
    return {"what": what, "cls": type(m_old).__name__, "kind": kind}


def refine_with_log(m, arg):
    rec = []
    with capture_warnings(rec):
        r = m.refined(arg) if arg is not None else m.refined()
    return r, rec


def tags_descr(m):
    def one(v):
        o = getattr(v, "ori", None)
        return {"ix": np.asarray(v).tolist(), "ori": None if o is None else np.asarray(o).tolist()}
    return {"boundaries": None if m.boundaries is None else {k: one(v) for k, v in m.boundaries.items()},
            "subdomains": None if m.subdomains is None else {k: np.asarray(v).tolist()
                                                             for k, v in m.subdomains.items()}}


def replay_of(m, info, levels, how, detail):
    d = meshes.mesh_descr(m)
    d.update(tags=tags_descr(m), sort_t=bool(getattr(m, "sort_t", False)), info=info, k=levels, how=how,
             detail=detail,
             replay_hint="m = cls(p, t[, sort_t]).with_boundaries/with_subdomains(tags); m.refined(k)")
    return d


def search_one(ctx, kind, quick=True):
    rng = ctx.rng
    base = kind[:-1] if kind.endswith("2") else kind
    m1, info = gen_case(rng, kind, quick)
    info["kind"] = kind
    if base == "wedge":
        ctx.count("mesh:" + kind)
        try:
            m1.refined()
            ctx.violation("wedge refinement returned although no refinement rule exists (unchecked)",
                          replay_of(m1, info, 1, "refined(1)", None), signature(kind, "wedge-returned", m1, 1))
        except NotImplementedError:
            ctx.count("unsupported:NotImplementedError")
            ctx.case({"kind": kind, "t": m1.t.tolist()}, nontrivial=False)
        except Exception as e:
            ctx.violation("wedge refinement raised " + exc_kind(e), replay_of(m1, info, 1, "refined(1)", repr(e)),
                          signature(kind, "raise", m1, 1))
        return
    # tags on the first-order mesh, other operations, then (maybe) the second-order class
    try:
        m1, _ = add_tags(rng, m1)
        m1 = pre_ops(rng, m1, info)
        if kind.endswith("2"):
            cls2 = meshes.CLS[kind]
            if base == "tri" and rng.random() < 0.5:
                # cells NOT stored with ascending vertex numbers (as in MeshTri2(), loaded or oriented meshes);
                # facets are numbered by their vertex sets, so the tags stay valid
                t_un = meshes.local_reorder(rng, "tri", m1.t.astype(np.int64)).astype(np.int32)
                m1 = type(m1)(m1.p, np.ascontiguousarray(t_un), sort_t=False, _boundaries=m1._boundaries,
                              _subdomains=m1._subdomains)
                info["unsorted-cells"] = True
            m2 = cls2.from_mesh(m1)
            if m1.boundaries:
                m2 = m2.with_boundaries(dict(m1.boundaries))
            if m1.subdomains:
                m2 = m2.with_subdomains(dict(m1.subdomains))
            m = m2
        else:
            m = m1
        if rng.random() < 0.1:
            m = type(m)(m.p, m.t) if not (base == "tri" and info.get("sort_t") is False) else \
                type(m)(m.p, m.t, sort_t=False)
            info["untagged"] = True
    except Exception as e:
        ctx.count("generator-failed:" + exc_kind(e))
        return
    d = DIM[base]
    nt = m.nelements
    kmax = 1
    while kmax < 3 and nt * 2 ** (d * (kmax + 1)) <= MAXCELLS[base] * (1 if not quick else 0.5):
        kmax += 1
    levels = rng.randint(1, kmax)
    how = rng.choice(["refined(k)", "repeated", "refined(k)"]) if levels > 1 else "refined(1)"
    info["k"] = levels
    info["how"] = how
    ctx.count("mesh:" + kind)
    ctx.count("k=%d" % levels)
    ctx.count("how:" + how)
    for key in ("holes", "renumbered", "cells-permuted", "local-reorder", "sheared", "jiggled",
                "unused-vertex", "untagged", "clockwise"):
        if info.get(key):
            ctx.count(key)
    if info.get("sort_t") is False:
        ctx.count("tri:sort_t=False")
    for o in info.get("pre_ops", []):
        ctx.count("pre:" + o)
    # reject inputs outside the quantifier (non-conforming Delaunay leftovers etc.)
    try:
        (P0,), _ = to_int([m.p])
        why = validate_input(Geo(m, kind, P0))
    except NotDyadic:
        why = "not dyadic"
    if why:
        ctx.count("input-rejected:" + why)
        return
    try:
        if how == "repeated":
            r, rec = m, []
            for _ in range(levels):
                r, rr = refine_with_log(r, None)
                rec += rr
        else:
            r, rec = refine_with_log(m, levels)
    except Exception as e:
        ctx.violation("refined() raised " + exc_kind(e), replay_of(m, info, levels, how, repr(e)),
                      signature(kind, "raise", m, levels))
        return
    if how == "refined(k)" and levels > 1:
        try:
            r2 = m
            for _ in range(levels):
                r2 = r2.refined()
            same = (np.array_equal(r.p, r2.p) and np.array_equal(r.t, r2.t)
                    and tag_lists(r.subdomains) == tag_lists(r2.subdomains)
                    and tag_lists(r.boundaries) == tag_lists(r2.boundaries))
        except Exception:
            same = False
        ctx.count("refined(k)-vs-repeated")
        if not same:
            ctx.violation("refined(k) differs from k times refined()", replay_of(m, info, levels, how, None),
                          signature(kind, "refined(k)!=repeated", m, levels))
    # refining the SAME mesh object once more gives the same mesh, and the operand is what it was (a refinement
    # that re-sorts or otherwise rewrites the arrays of its operand shows in the second call)
    try:
        before = (m.p.copy(), m.t.copy())
        ra, _ = refine_with_log(m, None)
        rb, _ = refine_with_log(m, None)
        ctx.count("same-object-refined-twice")
        if not (np.array_equal(before[0], m.p) and np.array_equal(before[1], m.t)):
            ctx.violation("refined() modified the arrays of the mesh it was called on",
                          replay_of(m, info, 1, "refined() twice on one object", None),
                          signature(kind, "operand-modified", m, 1))
        elif not (np.array_equal(ra.p, rb.p) and np.array_equal(ra.t, rb.t)
                  and tag_lists(ra.subdomains) == tag_lists(rb.subdomains)
                  and tag_lists(ra.boundaries) == tag_lists(rb.boundaries)):
            ctx.violation("refining the same mesh object twice gives two different meshes",
                          replay_of(m, info, 1, "refined() twice on one object", None),
                          signature(kind, "second-call-differs", m, 1))
    except Exception as e:
        ctx.violation("second refined() on the same object raised " + exc_kind(e),
                      replay_of(m, info, 1, "refined() twice on one object", repr(e)), signature(kind, "raise", m, 1))
    nb = 0 if not m.boundaries else len(m.boundaries)
    ns = 0 if not m.subdomains else len(m.subdomains)
    ctx.case({"cls": type(m).__name__, "p": m.p.tolist(), "t": m.t.tolist(), "tags": tags_descr(m), "k": levels,
              "how": how}, nontrivial=nt >= 2 and (nb + ns) > 0,
             sample={"info": info, "nt": nt, "nt_refined": int(r.nelements), "tags": tags_descr(m)})
    try:
        bad = oracle(kind, m, r, levels, rec, ctx)
    except Exception as e:        # an oracle crash must not pass silently
        import traceback
        traceback.print_exc()
        bad = [("oracle could not evaluate the refined mesh: " + exc_kind(e), repr(e))]
    for what, detail in bad[:2]:
        if os.environ.get("C12_DEBUG"):
            from ..core import log
            log("DEBUG violation:", kind, what, str(detail)[:200], info)
        ctx.violation(what, replay_of(m, info, levels, how, detail), signature(kind, what, m, levels))
    # histories: refine, then restrict to a refined subdomain, then refine again
    if not bad and levels == 1 and r.subdomains and rng.random() < 0.3 and r.nelements * 2 ** d <= MAXCELLS[base]:
        name = sorted(r.subdomains)[0]
        try:
            if len(r.subdomains[name]) >= 1 and not kind.endswith("2"):
                r1 = r.restrict(name)
                (P1,), _ = to_int([r1.p])
                why1 = validate_input(Geo(r1, kind, P1))
                if why1:
                    ctx.count("input-rejected:" + why1)
                    return
                r2, rec2 = refine_with_log(r1, 1)
                ctx.count("history:refine-restrict-refine")
                bad2 = oracle(kind, r1, r2, 1, rec2, ctx)
                for what, detail in bad2[:1]:
                    ctx.violation(what + " (after refine, restrict)", replay_of(r1, info, 1, "refined(1)", detail),
                                  signature(kind, what, r1, 1))
        except Exception as e:
            ctx.violation("refine after restrict raised " + exc_kind(e), replay_of(m, info, levels, how, repr(e)),
                          signature(kind, "raise-history", m, levels))
    return m, r, info, levels


def replay(ctx, rp):
    """re-evaluate the oracle on the recorded failing input"""
    import skfem
    from skfem.generic_utils import OrientedBoundary
    inp = rp["input"]
    cls = getattr(skfem, inp["cls"])
    kw = {"sort_t": False} if inp["cls"] == "MeshTri1" and not inp.get("sort_t", True) else {}
    if inp["cls"].endswith("2"):
        base = getattr(skfem, inp["cls"][:-1] + "1")
        nv = int(np.array(inp["t"]).max()) + 1
        m = cls.from_mesh(base(np.array(inp["p"])[:, :nv], np.array(inp["t"], dtype=np.int32)))
    else:
        m = cls(np.array(inp["p"]), np.array(inp["t"], dtype=np.int32), **kw)
    tg = inp.get("tags") or {}
    if tg.get("boundaries"):
        m = m.with_boundaries({k: (OrientedBoundary(np.array(v["ix"], dtype=np.int32), np.array(v["ori"]))
                                   if v["ori"] is not None else np.array(v["ix"], dtype=np.int32))
                               for k, v in tg["boundaries"].items()})
    if tg.get("subdomains"):
        m = m.with_subdomains({k: np.array(v, dtype=np.int32) for k, v in tg["subdomains"].items()})
    kind = inp["info"]["kind"]
    levels = int(inp["k"])
    rec = []
    if inp.get("how") == "repeated":
        r = m
        for _ in range(levels):
            r, rr = refine_with_log(r, None)
            rec += rr
    else:
        r, rec = refine_with_log(m, levels)
    ctx.case({"replay": rp.get("what")})
    for what, detail in oracle(kind, m, r, levels, rec, ctx)[:2]:
        ctx.violation(what, replay_of(m, inp["info"], levels, inp.get("how"), detail),
                      signature(kind, what, m, levels))


def run(ctx):
    ctx.rule = ("a case is one (mesh, tags, k, way of iterating) history; meshes of all ten classes from "
                "skv.meshes (Delaunay/tensor/refined, holes, renumbered, permuted, locally re-ordered) plus dyadic "
                "shear, jiggled hexahedra, sort_t=False triangles, unused vertices, restrict/remove_elements before "
                "and between refinements; random named boundaries (interior facets, oriented) and subdomains; "
                "non-trivial = at least two cells and at least one tag")
    ctx.trusted += ["Lean kernel; axioms propext/Classical.choice/Quot.sound",
                    "model Skv.Refine.* hand-written, tied by exact correspondence ops refine.*",
                    "Mesh.facets / Mesh.f2t used to interpret facet tags (property C11)"]
    ctx.assumptions += ["input meshes are valid, conforming and straight-sided (checked by the oracle, others are "
                        "rejected and counted)",
                        "coordinates dyadic so that every midpoint is exact in binary floating point"]
    ctx.notes["partial"] = ("proved for every mesh: counts, prefix, positions of all new vertices, template "
                            "geometry for arbitrary coordinates (measures, inside, multilinear restriction, "
                            "convexity), conformity along shared facets, interior pairing, subdomain maps for all "
                            "classes and k passes, new_facets maps of triangles (both sort_t modes) and quads; "
                            "NOT formalised: the degree argument from (inside, measures add, facets pair) to tiling, "
                            "and that MeshLine1 keeps facet numbers (both covered by the search)")
    quick = ctx.tier == "quick"
    if not getattr(ctx, "no_lean", False):
        ctx.prove(["SkfemVerif.Props.C12"], ["SkfemVerif/Props/C12.lean"])
    correspondence(ctx, ctx.scale(120, 900))
    n = ctx.scale(600, 9000)
    for it in range(n):
        if ctx.time_left(0.6 if quick else 0.85) < 0:
            ctx.count("stopped-by-time-budget")
            break
        kind = KINDS[it % len(KINDS)] if it < 3 * len(KINDS) else ctx.rng.choice(KINDS)
        search_one(ctx, kind, quick)
    if ctx.tier == "thorough" and not getattr(ctx, "no_lean", False):
        ctx.leanchecker(["SkfemVerif.Props.C12"])


# ---------------------------------------------------------------------------------------------
# correspondence: model `refine.uniform` vs `m.refined()`

def tag_lists(d):
    return None if d is None else [[int(v) for v in np.asarray(a).ravel()] for a in d.values()]


def model_request(kind, m, times):
    base = kind[:-1] if kind.endswith("2") else kind
    second = kind.endswith("2")
    nv = m.p.shape[1] if not second else int(m.t.max()) + 1
    return {"op": "refine.uniform", "kind": base, "second": second, "old": False, "times": times,
            "p": [[qstr(c) for c in col] for col in m.p[:, :nv].T.tolist()],
            "cells": m.t.T.tolist(), "sort_t": bool(m.sort_t),
            "bnd": tag_lists(m.boundaries), "sub": tag_lists(m.subdomains)}


def compare_model(ctx, kind, m, r, times, out, info):
    from fractions import Fraction
    second = kind.endswith("2")
    if "error" in out:
        ctx.corr("refine.uniform", False, {"kind": kind, "mesh": meshes.mesh_descr(m)}, out, None)
        return
    nvn = r.p.shape[1] if not second else int(r.t.max()) + 1
    impl_p = [[Fraction(c) for c in col] for col in r.p[:, :nvn].T.tolist()]
    model_p = [[Fraction(c) for c in col] for col in out["p"]]
    inp = {"kind": kind, "mesh": meshes.mesh_descr(m), "tags": tags_descr(m), "times": times, "info": info}
    ctx.corr("refine.uniform:t", out["cells"] == r.t.T.tolist(), inp, out["cells"][:8], r.t.T.tolist()[:8])
    ctx.corr("refine.uniform:p", model_p == impl_p, inp, out["p"][:4], r.p.T.tolist()[:4])
    ctx.corr("refine.uniform:subdomains", out["sub"] == tag_lists(r.subdomains), inp, out["sub"],
             tag_lists(r.subdomains))
    ctx.corr("refine.uniform:boundaries", out["bnd"] == tag_lists(r.boundaries), inp, out["bnd"],
             tag_lists(r.boundaries))


def correspondence(ctx, ncases):
    from fractions import Fraction
    rng = ctx.rng
    if not ctx.driver.available():
        ctx.broken.append({"kind": "driver-missing"})
        return
    # reference tables the theorems are stated for = the live refdom tables
    from skfem.refdom import RefLine, RefTri, RefQuad, RefTet, RefHex
    tabs = ctx.driver.run([{"op": "refine.tables"}])[0]
    live = {"lineFacets": RefLine.facets, "triFacets": RefTri.facets, "quadFacets": RefQuad.facets,
            "tetFacets": RefTet.facets, "tetEdges": RefTet.edges, "hexFacets": RefHex.facets,
            "hexEdges": RefHex.edges}
    for name, tb in live.items():
        ctx.corr("refine.tables:" + name, tabs.get(name) == [list(map(int, r)) for r in tb], name,
                 tabs.get(name), tb)
    for name, rd in (("quadRefP", RefQuad), ("hexRefP", RefHex)):
        want = [[qstr(c) for c in col] for col in rd.p.T.tolist()]
        got = [[qstr(Fraction(c)) for c in col] for col in tabs.get(name, [])]
        ctx.corr("refine.tables:" + name, got == want, name, tabs.get(name), rd.p.T.tolist())
    pend = []
    kinds = [k for k in KINDS if k != "wedge"]
    for it in range(ncases):
        if ctx.time_left(0.85) < 0:
            break
        kind = kinds[it % len(kinds)]
        base = kind[:-1] if kind.endswith("2") else kind
        try:
            m1, info = gen_case(rng, kind, True)
            if m1.nelements > 60:
                continue
            m1, _ = add_tags(rng, m1)
            m1 = pre_ops(rng, m1, info)
            if kind.endswith("2"):
                m = meshes.CLS[kind].from_mesh(m1)
                if m1.boundaries:
                    m = m.with_boundaries(dict(m1.boundaries))
                if m1.subdomains:
                    m = m.with_subdomains(dict(m1.subdomains))
            else:
                m = m1
            times = 2 if m.nelements * 2 ** (2 * DIM[base]) <= 260 and rng.random() < 0.5 else 1
            r = m.refined(times)
        except Exception as e:
            ctx.count("corr-generator-failed:" + exc_kind(e))
            continue
        pend.append((kind, m, r, times, info))
    reqs = [model_request(kind, m, times) for kind, m, r, times, info in pend]
    outs = ctx.driver.run(reqs)
    for (kind, m, r, times, info), out in zip(pend, outs):
        compare_model(ctx, kind, m, r, times, out, info)
        ctx.count("corr:" + kind)
        ctx.count("corr:times=%d" % times)
    # the model's parent map against the geometric parents of the oracle, tet masks distribution
    preq, pmeta = [], []
    for kind, m, r, times, info in pend:
        if times != 1 or kind.endswith("2"):
            continue
        rq = model_request(kind, m, 1)
        rq["op"] = "refine.parents"
        preq.append(rq)
        pmeta.append((kind, m, r, "parents"))
        if kind == "tet":
            rq2 = dict(rq)
            rq2["op"] = "refine.tetmasks"
            preq.append(rq2)
            pmeta.append((kind, m, r, "masks"))
    pouts = ctx.driver.run(preq)
    for (kind, m, r, what), out in zip(pmeta, pouts):
        if what == "masks":
            for i in range(3):
                ctx.count("tet-diagonal-choice:%d" % i, sum(1 for b in out[i] if b))
            continue
        try:
            (Po, Pn), _ = to_int([m.p, r.p])
            par, bad = find_parents(Geo(m, kind, Po), Geo(r, kind, Pn), 1)
        except Exception:
            continue
        if not bad:
            ctx.corr("refine.parents", out == [int(v) for v in par], {"kind": kind, "mesh": meshes.mesh_descr(m)},
                     out, par.tolist())
