"""C10  Reference maps, Jacobians, facet maps and normals are mutually consistent."""
import hashlib
import itertools
from fractions import Fraction

import numpy as np

from .. import meshes
from ..core import exc_kind, qstr, unq
from ..gens import affine as genaffine

KINDS = meshes.FIRST_ORDER + meshes.SECOND_ORDER
DIM = {"line": 1, "tri": 2, "quad": 2, "tet": 3, "hex": 3, "wedge": 3}
BND = {"line": "point", "tri": "line", "quad": "line", "tet": "tri", "hex": "quad"}
REFMEAS = {"point": 1.0, "line": 1.0, "tri": 0.5, "quad": 1.0}
TOL = 1e-11


# ---------------------------------------------------------------------------------------------
# independent oracle: the cell map is THE polynomial map of the element's space that sends the
# reference node k to the global node k.  Nodal bases are obtained by exact inversion of the
# Vandermonde matrix of the reference nodes (Fractions), derivatives are formal.

def exponents(base, order):
    d = DIM.get(base, {"point": 0}.get(base, None))
    if base == "point":
        return [()]
    if base in ("line", "tri", "tet"):
        return [e for e in itertools.product(range(order + 1), repeat=d) if sum(e) <= order]
    if base in ("quad", "hex"):
        return list(itertools.product(range(order + 1), repeat=d))
    if base == "wedge":
        return [e for e in itertools.product(range(order + 1), repeat=3) if e[0] + e[1] <= order]
    raise ValueError(base)


def _inv_exact(V):
    n = len(V)
    M = [list(r) + [Fraction(int(i == j)) for j in range(n)] for i, r in enumerate(V)]
    for c in range(n):
        piv = next(r for r in range(c, n) if M[r][c] != 0)
        M[c], M[piv] = M[piv], M[c]
        pv = M[c][c]
        M[c] = [a / pv for a in M[c]]
        for r in range(n):
            if r != c and M[r][c] != 0:
                f = M[r][c]
                M[r] = [a - f * b for a, b in zip(M[r], M[c])]
    return [r[n:] for r in M]


class NodalBasis:
    _cache = {}

    def __init__(self, nodes, exps):
        self.nodes = np.asarray(nodes, dtype=float)          # n x d
        self.exps = exps
        n = len(exps)
        if self.nodes.shape[0] != n:
            raise RuntimeError(f"oracle: {self.nodes.shape[0]} nodes for a space of dimension {n}")
        V = [[_prod(Fraction(float(x)) ** a for x, a in zip(node, e)) for e in exps] for node in self.nodes]
        Ci = _inv_exact(V)          # columns: coefficients of the nodal functions
        self.C = np.array([[float(v) for v in r] for r in Ci])      # nm x n : phi_k = sum_m C[m,k] mono_m
        self.d = self.nodes.shape[1]

    @classmethod
    def get(cls, nodes, exps):
        key = (np.asarray(nodes, dtype=float).tobytes(), tuple(exps))
        if key not in cls._cache:
            cls._cache[key] = cls(nodes, exps)
        return cls._cache[key]

    def _mono(self, X, e):
        out = np.ones(X.shape[1:])
        for i, a in enumerate(e):
            if a:
                out = out * X[i] ** a
        return out

    def phi(self, X):
        mono = np.array([self._mono(X, e) for e in self.exps])      # nm x ...
        return np.tensordot(self.C.T, mono, axes=(1, 0))             # n x ...

    def dphi(self, X):
        out = []
        for j in range(self.d):
            dm = []
            for e in self.exps:
                if e[j] == 0:
                    dm.append(np.zeros(X.shape[1:]))
                else:
                    e2 = list(e)
                    e2[j] -= 1
                    dm.append(e[j] * self._mono(X, e2))
            out.append(np.tensordot(self.C.T, np.array(dm), axes=(1, 0)))
        return np.array(out).swapaxes(0, 1)                           # n x d x ...


def _prod(it):
    r = Fraction(1)
    for v in it:
        r *= v
    return r


def gauss01(n=6):
    x, w = np.polynomial.legendre.leggauss(n)
    return (x + 1) / 2, w / 2


def ref_quadrature(base):
    """independent quadrature on the reference cell (Gauss-Legendre tensor / Duffy), exact to degree 11"""
    x, w = gauss01(6)
    if base == "line":
        return x[None, :], w
    if base in ("quad",):
        U, V = np.meshgrid(x, x, indexing="ij")
        return np.array([U.ravel(), V.ravel()]), np.outer(w, w).ravel()
    if base == "hex":
        U, V, W = np.meshgrid(x, x, x, indexing="ij")
        return np.array([U.ravel(), V.ravel(), W.ravel()]), np.einsum("i,j,k->ijk", w, w, w).ravel()
    if base == "tri":
        U, V = np.meshgrid(x, x, indexing="ij")
        return np.array([U.ravel(), (V * (1 - U)).ravel()]), (np.outer(w, w) * (1 - U)).ravel()
    if base == "tet":
        U, V, W = np.meshgrid(x, x, x, indexing="ij")
        wt = np.einsum("i,j,k->ijk", w, w, w) * (1 - U) ** 2 * (1 - V)
        return np.array([U.ravel(), (V * (1 - U)).ravel(), (W * (1 - U) * (1 - V)).ravel()]), wt.ravel()
    if base == "wedge":
        U, V, W = np.meshgrid(x, x, x, indexing="ij")
        wt = np.einsum("i,j,k->ijk", w, w, w) * (1 - U)
        return np.array([U.ravel(), (V * (1 - U)).ravel(), W.ravel()]), wt.ravel()
    raise ValueError(base)


class Geo:
    """oracle geometry of one mesh"""

    def __init__(self, m, kind):
        self.m, self.kind = m, kind
        self.second = kind.endswith("2")
        self.base = kind[:-1] if self.second else kind
        self.d = DIM[self.base]
        el = m.elem()
        nodes = np.asarray(el.doflocs, dtype=float)
        self.basis = NodalBasis.get(nodes, exponents(self.base, 2 if self.second else 1))
        rd = m.elem.refdom
        self.refp = np.asarray(rd.p, dtype=float)                 # d x nv
        self.reffacets = [sorted(set(int(v) for v in f)) for f in rd.facets]
        nv = self.refp.shape[1]
        if not np.array_equal(nodes[:nv], self.refp.T):
            raise RuntimeError("oracle: vertex nodes of the mapping element differ from refdom.p")
        conn = m.dofs.element_dofs if self.second else m.t
        self.xn = np.asarray(m.doflocs)[:, conn]                  # d x n x nt
        self.nt = m.t.shape[1]
        self.centroid = self.refp.mean(axis=1)
        if self.base in BND:
            bk = BND[self.base]
            if bk == "point":
                self.bbasis = None
            else:
                brd = rd.brefdom
                self.bbasis = NodalBasis.get(np.asarray(brd.p, dtype=float).T, exponents(bk, 1))
        self._vol = None

    # --- cell map
    def F(self, X, cells):
        phi = self.basis.phi(X)
        xn = self.xn[:, :, cells]
        if X.ndim == 2:
            return np.einsum("ikc,kq->icq", xn, phi)
        return np.einsum("ikc,kcq->icq", xn, phi)

    def DF(self, X, cells):
        dphi = self.basis.dphi(X)
        xn = self.xn[:, :, cells]
        if X.ndim == 2:
            return np.einsum("ikc,kjq->ijcq", xn, dphi)
        return np.einsum("ikc,kjcq->ijcq", xn, dphi)

    def valid(self):
        """every cell is a non-degenerate image of the reference cell: the determinant keeps its sign and
        does not vary by more than a factor 4 over a lattice of the closed reference cell (curved cells
        produced by perturbing the non-vertex nodes can fold)"""
        g = np.linspace(0, 1, 5)
        pts = np.array(list(itertools.product(g, repeat=self.d))).T
        if self.base in ("tri", "tet"):
            pts = pts[:, pts.sum(axis=0) <= 1 + 1e-12]
        elif self.base == "wedge":
            pts = pts[:, pts[:2].sum(axis=0) <= 1 + 1e-12]
        DF = self.DF(pts, np.arange(self.nt))
        det = np.linalg.det(np.moveaxis(DF, (0, 1), (-2, -1)))
        lo, hi = np.abs(det).min(axis=1), np.abs(det).max(axis=1)
        same = (np.sign(det) == np.sign(det[:, :1])).all(axis=1)
        return bool(same.all() and (lo > 0.25 * hi).all())

    def volume(self):
        if self._vol is None:
            X, W = ref_quadrature(self.base)
            DF = self.DF(X, np.arange(self.nt))
            det = np.linalg.det(np.moveaxis(DF, (0, 1), (-2, -1)))
            self._vol = np.abs(det) @ W                            # per cell
        return self._vol

    # --- reference facet parametrisation by the facet's vertices
    def loc(self, fs, cells):
        """loc[k, q] = local index in cell cells[q] of vertex k of facet fs[q]"""
        m = self.m
        nvf = len(self.reffacets[0]) if self.base != "wedge" else None
        fv = m.facets[:nvf, fs] if self.d > 1 else m.facets[:, fs]
        t = m.t[:, cells]
        out = np.empty(fv.shape, dtype=np.int64)
        for q in range(fv.shape[1]):
            for k in range(fv.shape[0]):
                w = np.nonzero(t[:, q] == fv[k, q])[0]
                if len(w) != 1:
                    raise RuntimeError("oracle: facet vertex not found in the adjacent cell")
                out[k, q] = w[0]
        return out

    def gamma(self, s, fs, cells):
        """cell reference points of the facet reference points s; returns (Y, Dgamma)
        Y: d x nsel x npts ; Dgamma: d x (d-1) x nsel x npts"""
        loc = self.loc(fs, cells)
        P = self.refp[:, loc]                                   # d x nvf x nsel
        nsel = len(fs)
        if self.d == 1:
            npts = s.shape[-1]
            Y = np.repeat(P[:, 0, :, None], npts, axis=2)
            return Y, np.zeros((1, 0, nsel, npts))
        psi = self.bbasis.phi(s)
        dpsi = self.bbasis.dphi(s)
        if s.ndim == 2:
            Y = np.einsum("ikc,kq->icq", P, psi)
            D = np.einsum("ikc,kjq->ijcq", P, dpsi)
        else:
            Y = np.einsum("ikc,kcq->icq", P, psi)
            D = np.einsum("ikc,kjcq->ijcq", P, dpsi)
        return Y, D


# ---------------------------------------------------------------------------------------------
# generators

def ref_points(rng, base, npts, shape_cells=None):
    """dyadic interior points of the reference cell; shape (d, npts) or (d, ncells, npts)"""
    d = DIM[base]
    n = npts * (1 if shape_cells is None else shape_cells)
    if n == 0:
        return np.zeros((d, 0, npts))
    pts = []
    for _ in range(n):
        if base in ("line", "quad", "hex"):
            pts.append([rng.randint(1, 31) / 32 for _ in range(d)])
        elif base in ("tri", "tet"):
            while True:
                a = [rng.randint(1, 30) for _ in range(d)]
                if sum(a) < 32:
                    break
            pts.append([v / 32 for v in a])
        else:  # wedge
            while True:
                a = [rng.randint(1, 30) for _ in range(2)]
                if sum(a) < 32:
                    break
            pts.append([a[0] / 32, a[1] / 32, rng.randint(1, 31) / 32])
    P = np.array(pts).T
    if shape_cells is None:
        return P
    return P.reshape(d, shape_cells, npts)


def subset(rng, n, how):
    """index selections: None, sorted subset, permuted subset with repetitions"""
    if how == "none":
        return None
    if how == "empty":
        return np.array([], dtype=rng.choice([np.int32, np.int64]))
    k = rng.randint(1, n)
    ix = rng.sample(range(n), k)
    if how == "subset":
        ix = sorted(ix)
    else:
        ix = ix + [rng.choice(ix) for _ in range(rng.randint(1, 3))]
        rng.shuffle(ix)
    dt = rng.choice([np.int32, np.int64])
    return np.array(ix, dtype=dt)


def special_meshes():
    """library constructors: single reference cells, default meshes, genuinely curved second-order meshes"""
    import skfem as sk
    out = []
    for kind, cls in meshes.CLS.items():
        if not kind.endswith("2"):      # init_refdom of a second-order class has no non-vertex nodes
            out.append((kind, lambda cls=cls: cls.init_refdom(), "init_refdom"))
        out.append((kind, lambda cls=cls: cls(), "default"))
    out.append(("tri2", lambda: sk.MeshTri2.init_circle(1), "init_circle(1)"))
    out.append(("tri2", lambda: sk.MeshTri2.init_circle(2), "init_circle(2)"))
    out.append(("tet2", lambda: sk.MeshTet2.init_ball(1), "init_ball(1)"))
    out.append(("tri", lambda: sk.MeshTri1.init_sqsymmetric(), "init_sqsymmetric"))
    out.append(("tri", lambda: sk.MeshTri1.init_lshaped(), "init_lshaped"))
    out.append(("quad", lambda: sk.MeshQuad1().refined(1), "refined"))
    out.append(("hex", lambda: sk.MeshHex1().refined(1), "refined"))
    out.append(("tet", lambda: sk.MeshTet1().refined(1), "refined"))
    out.append(("wedge", lambda: sk.MeshWedge1(), "default"))
    return out


def mesh_digest(m):
    h = hashlib.sha1()
    h.update(np.ascontiguousarray(m.doflocs).tobytes())
    h.update(np.ascontiguousarray(m.t).tobytes())
    return type(m).__name__ + ":" + h.hexdigest()[:16]


def mesh_replay(m):
    return {"cls": type(m).__name__, "doflocs": np.asarray(m.doflocs).tolist(), "t": np.asarray(m.t).tolist()}


def close(a, b, scale=1.0, tol=TOL):
    a, b = np.asarray(a), np.asarray(b)
    if a.shape != b.shape:
        return False
    if a.size == 0:
        return True
    if not np.isfinite(a).all():
        return False
    return bool(np.max(np.abs(a - b)) <= tol * max(1.0, scale, float(np.max(np.abs(b)))))


# ---------------------------------------------------------------------------------------------

class Checker:
    def __init__(self, ctx, m, kind, info):
        self.ctx, self.m, self.kind, self.info = ctx, m, kind, info
        self.geo = Geo(m, kind)
        self.base = self.geo.base
        self.d = self.geo.d
        self.digest = mesh_digest(m)

    def viol(self, what, mpname, extra, sig):
        rp = {"mesh": mesh_replay(self.m), "info": self.info, "mapping": mpname}
        rp.update(extra)
        s = {"mapping": mpname.split("(")[0], "kind": self.kind}
        s.update(sig)
        self.ctx.violation(what, rp, s)

    def mappings(self):
        """(name, mapping object, cells it is restricted to or None)"""
        from skfem.mapping import MappingAffine, MappingIsoparametric
        m = self.m
        out = [("default", m.mapping(), None)]
        if self.kind in ("line", "tri", "tet"):
            out.append(("affine", MappingAffine(m), None))
            elem = m.elem()
            out.append(("iso", MappingIsoparametric(m, elem, m.bndelem), None))
            if m.t.shape[1] >= 1:
                sub = subset(self.ctx.rng, m.t.shape[1], self.ctx.rng.choice(["subset", "perm"]))
                out.append(("affine(tind)", MappingAffine(m, tind=sub), sub))
        return out

    # --- cell maps ---------------------------------------------------------------------------
    def cell_checks(self, mpname, mp, fixed, layout, how):
        ctx, geo, d, rng = self.ctx, self.geo, self.d, self.ctx.rng
        nt = geo.nt
        if fixed is not None:
            tind, cells = None, np.asarray(fixed, dtype=np.int64)
            how = "fixed"
        else:
            tind = subset(rng, nt, how)
            cells = np.arange(nt) if tind is None else tind.astype(np.int64)
        nsel = len(cells)
        npts = rng.randint(1, 4)
        if layout == "percell" and npts == nsel and rng.random() < 0.7:
            npts += 1               # ncells == npts hides shape mistakes
        X = ref_points(rng, self.base, npts, nsel if layout == "percell" else None)
        descr = {"mesh": self.digest, "map": mpname, "layout": layout, "subset": how,
                 "tind": None if tind is None else tind.tolist(), "X": X.tolist()}
        ctx.case(descr, nontrivial=True,
                 sample=dict(descr, mesh=mesh_replay(self.m)) if len(ctx.samples) < 2 else None)
        ctx.count(f"cell:{self.kind}:{mpname.split('(')[0]}:{layout}:{how}")
        inp = {"X": X.tolist(), "tind": None if tind is None else tind.tolist(),
               "tind_dtype": None if tind is None else str(tind.dtype), "layout": layout}
        sig0 = {"layout": layout, "subset": how}
        if tind is not None and how == "subset" and fixed is None and len(tind) > 0 and mpname == "affine":
            # the same subset as a boolean mask (the affine mapping indexes its per-cell arrays directly, so NumPy
            # accepts a mask wherever a sorted index array is accepted; the isoparametric mapping does not)
            mask = np.zeros(nt, dtype=bool)
            mask[tind] = True
            ctx.count("cell-subset-as-boolean-mask")
            for name in ("F", "DF", "invDF", "detDF"):
                try:
                    a, b_ = np.asarray(getattr(mp, name)(X, tind)), np.asarray(getattr(mp, name)(X, mask))
                    okm = a.shape == b_.shape and np.array_equal(a, b_)
                except Exception as ex:
                    okm = False
                if not okm:
                    self.viol(f"{name} with the cell subset given as boolean mask differs from the same subset as "
                              f"index array", mpname, dict(inp, mask=mask.tolist()), dict(sig0, what="mask", fn=name))
                    break
        xo = geo.F(X, cells)
        DFo = geo.DF(X, cells)
        deto = np.linalg.det(np.moveaxis(DFo, (0, 1), (-2, -1)))
        scale = float(np.max(np.abs(geo.xn))) + 1.0
        res = {}
        for name, call in (("F", lambda: mp.F(X, tind)), ("DF", lambda: mp.DF(X, tind)),
                           ("invDF", lambda: mp.invDF(X, tind)), ("detDF", lambda: mp.detDF(X, tind))):
            try:
                res[name] = np.array(call())
            except Exception as ex:
                self.viol(f"{name} raised {exc_kind(ex)} on a valid input", mpname,
                          dict(inp, call=name, err=repr(ex)), dict(sig0, what="raise", call=name))
                res[name] = None
        if res["F"] is not None and not close(res["F"], xo, scale):
            self.viol("F differs from the nodal polynomial map of the cell", mpname,
                      dict(inp, got_shape=list(res["F"].shape), want_shape=list(xo.shape)),
                      dict(sig0, what="F-value"))
        if res["DF"] is not None:
            if not close(res["DF"], DFo, scale):
                self.viol("DF differs from the exact derivative of the cell map", mpname,
                          dict(inp, got_shape=list(res["DF"].shape), want_shape=list(DFo.shape)),
                          dict(sig0, what="DF-value"))
            elif res["F"] is not None:
                # central differences of the implementation's own F (exact up to rounding: degree <= 2 per variable)
                h = 2.0 ** -9
                try:
                    fd = np.empty_like(DFo)
                    for j in range(d):
                        E = np.zeros_like(X)
                        E[j] = h
                        fd[:, j] = (np.array(mp.F(X + E, tind)) - np.array(mp.F(X - E, tind))) / (2 * h)
                    if not close(res["DF"], fd, scale, tol=1e-9):
                        self.viol("DF differs from central differences of F", mpname, inp, dict(sig0, what="DF-fd"))
                except Exception as ex:
                    self.viol(f"F raised {exc_kind(ex)} on shifted points", mpname, dict(inp, err=repr(ex)),
                              dict(sig0, what="raise", call="F"))
        if res["detDF"] is not None and not close(res["detDF"], deto, scale ** d):
            self.viol("detDF is not the determinant of the derivative", mpname,
                      dict(inp, got_shape=list(res["detDF"].shape), want_shape=list(deto.shape)),
                      dict(sig0, what="detDF-value"))
        if res["invDF"] is not None:
            ok = res["invDF"].shape == DFo.shape
            if ok:
                prod = np.einsum("ijcq,jkcq->ikcq", res["invDF"], DFo)
                eye = np.einsum("ik,cq->ikcq", np.eye(d), np.ones(DFo.shape[2:]))
                cond = float(np.max(np.abs(res["invDF"]))) * float(np.max(np.abs(DFo))) if DFo.size else 1.0
                ok = close(prod, eye, tol=1e-13 * max(1.0, cond) * 64)
            if not ok:
                self.viol("invDF * DF is not the identity", mpname, dict(inp, got_shape=list(res["invDF"].shape)),
                          dict(sig0, what="invDF-value"))
        # inverse map: invF(F(X)) = X and F(invF(x)) = x   (interior points)
        try:
            Xi = np.array(mp.invF(xo.copy(), tind))
            Xw = X if X.ndim == 3 else np.repeat(X[:, None, :], nsel, axis=1)
            if not close(Xi, Xw, tol=1e-9):
                self.viol("invF(F(X)) differs from X", mpname, dict(inp, got_shape=list(Xi.shape)),
                          dict(sig0, what="invF-value"))
            elif res["F"] is not None:
                back = np.array(mp.F(Xi, tind))
                if not close(back, xo, scale, tol=1e-9):
                    self.viol("F(invF(x)) differs from x", mpname, inp, dict(sig0, what="F-invF"))
        except Exception as ex:
            self.viol(f"invF raised {exc_kind(ex)} on interior points", mpname, dict(inp, err=repr(ex)),
                      dict(sig0, what="raise", call="invF"))
        return res

    # --- facet maps --------------------------------------------------------------------------
    def facet_points(self, npts, nsel=None):
        bk = BND[self.base]
        if bk == "point":
            return np.zeros((0, npts)) if nsel is None else np.zeros((0, nsel, npts))
        return ref_points(self.ctx.rng, bk, npts, nsel)

    def facet_checks(self, mpname, mp, layout, how):
        ctx, geo, d, rng, m = self.ctx, self.geo, self.d, self.ctx.rng, self.m
        nf = m.facets.shape[1]
        find = subset(rng, nf, how)
        fs = np.arange(nf) if find is None else find.astype(np.int64)
        nsel = len(fs)
        npts = rng.randint(1, 3)
        if layout == "percell" and npts == nsel and rng.random() < 0.7:
            npts += 1
        s = self.facet_points(npts, nsel if layout == "percell" else None)
        descr = {"mesh": self.digest, "map": mpname, "facets": True, "layout": layout, "subset": how,
                 "find": None if find is None else find.tolist(), "s": s.tolist()}
        ctx.case(descr)
        ctx.count(f"facet:{self.kind}:{mpname.split('(')[0]}:{layout}:{how}")
        inp = {"s": s.tolist(), "find": None if find is None else find.tolist(),
               "find_dtype": None if find is None else str(find.dtype), "layout": layout}
        sig0 = {"layout": layout, "subset": how, "facets": True}
        if find is not None and how == "subset" and len(find) > 0 and mpname == "affine":
            fmask = np.zeros(nf, dtype=bool)
            fmask[find] = True
            ctx.count("facet-subset-as-boolean-mask")
            for name in ("G", "detDG"):
                try:
                    a, b_ = np.asarray(getattr(mp, name)(s, find)), np.asarray(getattr(mp, name)(s, fmask))
                    okm = a.shape == b_.shape and np.array_equal(a, b_)
                except NotImplementedError:
                    okm = True
                except Exception as ex:
                    okm = False
                if not okm:
                    self.viol(f"{name} with the facet subset given as boolean mask differs from the same subset as "
                              f"index array", mpname, dict(inp, mask=fmask.tolist()), dict(sig0, what="mask", fn=name))
                    break
        scale = float(np.max(np.abs(geo.xn))) + 1.0
        try:
            G = np.array(mp.G(s, find))
        except Exception as ex:
            self.viol(f"G raised {exc_kind(ex)} on a valid input", mpname, dict(inp, err=repr(ex)),
                      dict(sig0, what="raise", call="G"))
            G = None
        try:
            dG = np.array(mp.detDG(s, find))
        except Exception as ex:
            self.viol(f"detDG raised {exc_kind(ex)} on a valid input", mpname, dict(inp, err=repr(ex)),
                      dict(sig0, what="raise", call="detDG"))
            dG = None
        for side in (0, 1):
            cells_all = m.f2t[side, fs]
            sel = np.nonzero(cells_all >= 0)[0]
            if len(sel) == 0:
                continue
            cells = cells_all[sel].astype(np.int64)
            ssel = s if s.ndim == 2 else s[:, sel]
            Y, Dg = geo.gamma(ssel, fs[sel], cells)
            xo = geo.F(Y, cells)
            DFo = geo.DF(Y, cells)
            DGo = np.einsum("ijcq,jkcq->ikcq", DFo, Dg)              # d x (d-1) x nsel x npts
            gram = np.einsum("ikcq,ilcq->klcq", DGo, DGo)
            surf = np.sqrt(np.abs(np.linalg.det(np.moveaxis(gram, (0, 1), (-2, -1))))) if d > 1 \
                else np.ones(DGo.shape[2:])
            if G is not None:
                if G.shape != (d, nsel, npts) or not close(G[:, sel], xo, scale):
                    self.viol("G(s) is not the image under the map of the adjacent cell of the reference facet point",
                              mpname, dict(inp, side=side, got_shape=list(G.shape), want_shape=[d, nsel, npts]),
                              dict(sig0, what="G-value", side=side))
                    G = None
            if dG is not None:
                if dG.shape != (nsel, npts) or not close(np.abs(dG[sel]), surf, scale ** max(d - 1, 1)):
                    self.viol("detDG is not the surface factor of the facet map", mpname,
                              dict(inp, side=side, got_shape=list(dG.shape), want_shape=[nsel, npts]),
                              dict(sig0, what="detDG-value", side=side))
                    dG = None
            # normals taken from the cell on this side
            self.normal_checks(mpname, mp, fs[sel], cells, Y, DFo, inp, dict(sig0, side=side))
        # exact measure of straight simplex facets
        if dG is not None and not geo.second and self.base in ("tri", "tet", "quad", "line"):
            meas = []
            P = np.asarray(m.doflocs)
            for f in fs:
                v = [[Fraction(float(c)) for c in P[:, k]] for k in m.facets[:, f]]
                if d == 1:
                    meas.append(1.0)
                elif d == 2:
                    e = [a - b for a, b in zip(v[1], v[0])]
                    meas.append(float(sum(c * c for c in e)) ** 0.5)
                else:
                    a = [p - q for p, q in zip(v[1], v[0])]
                    b = [p - q for p, q in zip(v[2], v[0])]
                    cr = [a[1] * b[2] - a[2] * b[1], a[2] * b[0] - a[0] * b[2], a[0] * b[1] - a[1] * b[0]]
                    meas.append(0.5 * float(sum(c * c for c in cr)) ** 0.5)
            meas = np.array(meas)
            want = meas / REFMEAS[BND[self.base]]
            if not close(dG, np.repeat(want[:, None], npts, axis=1), scale ** max(d - 1, 1), tol=1e-12):
                self.viol("detDG times the reference facet measure is not the measure of a straight facet", mpname,
                          inp, dict(sig0, what="detDG-measure"))

    def normal_checks(self, mpname, mp, fs, cells, Y, DFo, inp, sig0, given=None):
        """unit, orthogonal to the facet tangents, pointing out of the cell `cells[q]`"""
        geo, d, m = self.geo, self.d, self.m
        try:
            if given is None:
                tind = cells.astype(self.ctx.rng.choice([np.int32, np.int64]))
                find = fs.astype(self.ctx.rng.choice([np.int32, np.int64]))
                n = np.array(mp.normals(Y, tind, find, m.t2f))
            else:
                n = given
        except Exception as ex:
            self.viol(f"normals raised {exc_kind(ex)} on a valid input", mpname, dict(inp, err=repr(ex)),
                      dict(sig0, what="raise", call="normals"))
            return
        nsel, npts = Y.shape[1], Y.shape[2]
        if n.shape != (d, nsel, npts):
            self.viol("normals have the wrong shape", mpname, dict(inp, got_shape=list(n.shape)),
                      dict(sig0, what="normal-shape"))
            return
        ln = np.sqrt(np.sum(n ** 2, axis=0))
        bad = None
        if not close(ln, np.ones_like(ln), tol=1e-12):
            bad = "normals are not of unit length"
        # tangents: images of the reference edge vectors of the local facet
        lf = np.array([int(np.nonzero(m.t2f[:, c] == f)[0][0]) for f, c in zip(fs, cells)])
        worst = 0.0
        inward_ok = True
        for q in range(nsel):
            verts = geo.reffacets[lf[q]]
            for a in verts[1:]:
                tv = geo.refp[:, a] - geo.refp[:, verts[0]]
                img = np.einsum("ijp,j->ip", DFo[:, :, q, :], tv)
                nrm = np.sqrt(np.sum(img ** 2, axis=0))
                worst = max(worst, float(np.max(np.abs(np.sum(img * n[:, q, :], axis=0)) / np.maximum(nrm, 1e-300))))
            vin = geo.centroid[:, None] - Y[:, q, :]                     # points into the reference cell
            img = np.einsum("ijp,jp->ip", DFo[:, :, q, :], vin)
            if not (np.sum(img * n[:, q, :], axis=0) < 0).all():
                inward_ok = False
        if bad is None and worst > 1e-10:
            bad = "normals are not orthogonal to the facet"
        if bad is None and not inward_ok:
            bad = "normals do not point out of the cell they are taken from"
        if bad:
            self.viol(bad, mpname, dict(inp, cells=cells.tolist(), facets=fs.tolist(), Y=Y.tolist(), normals=n.tolist()),
                      dict(sig0, what="normal"))

    def wedge_normals(self, mpname, mp):
        """wedges have no facet map in the library; the normals are still delivered"""
        geo, m, rng = self.geo, self.m, self.ctx.rng
        nf = m.facets.shape[1]
        fs = subset(rng, nf, rng.choice(["subset", "perm"])).astype(np.int64)
        for side in (0, 1):
            cells_all = m.f2t[side, fs]
            sel = np.nonzero(cells_all >= 0)[0]
            if len(sel) == 0:
                continue
            cells = cells_all[sel].astype(np.int64)
            npts = rng.randint(1, 3)
            Y = np.empty((3, len(sel), npts))
            for q, (f, c) in enumerate(zip(fs[sel], cells)):
                lf = int(np.nonzero(m.t2f[:, c] == f)[0][0])
                verts = geo.reffacets[lf]
                for p in range(npts):
                    w = np.array([rng.randint(1, 8) for _ in verts], dtype=float)
                    w /= w.sum()
                    Y[:, q, p] = geo.refp[:, verts] @ w
            DFo = geo.DF(Y, cells)
            self.ctx.case({"mesh": self.digest, "map": mpname, "wedge-normals": fs[sel].tolist(), "side": side})
            self.ctx.count(f"facet:wedge:normals:side{side}")
            self.normal_checks(mpname, mp, fs[sel], cells, Y, DFo,
                               {"facets": fs[sel].tolist(), "side": side}, {"side": side, "facets": True})

    def refpoint_check(self, mpname, fb, inp, sig):
        """FacetBasis composes the facet map with the inverse cell map: the values of the nodal shape
        functions it tabulates must be those at the reference facet points gamma(s) of the cell fb.tind"""
        geo, d = self.geo, self.d
        fs = np.asarray(fb.find).astype(np.int64)
        cells = np.asarray(fb.tind).astype(np.int64)
        sX = np.asarray(fb.X) if d > 1 else np.zeros((0, len(fb.W)))
        Y, _ = geo.gamma(sX, fs, cells)
        want = geo.basis.phi(Y)                                   # n x nfacets x npts
        got = np.array([b[0].value for b in fb.basis])
        if not close(got, want, tol=1e-9):
            self.viol("FacetBasis evaluates the shape functions at points other than the reference facet points "
                      "of the cell it is taken from", mpname, dict(inp, facets=fs.tolist(), cells=cells.tolist()),
                      dict(sig, what="facetbasis-refpoints"))

    # --- boundary integral of x.n ---------------------------------------------------------------
    def divergence_checks(self, mpname, mp):
        from skfem import FacetBasis, Functional
        from skfem.helpers import dot
        ctx, geo, m, d = self.ctx, self.geo, self.m, self.d
        vol = geo.volume()
        order = 2 if not geo.second else 8
        if self.base in ("quad", "hex"):
            order += 2
        form = Functional(lambda w: dot(w.x, w.n))
        scale = (float(np.max(np.abs(geo.xn))) + 1.0) ** d * max(1, geo.nt)
        kw = {} if mpname == "default" else {"mapping": mp}
        inp = {"intorder": order}
        # whole boundary
        try:
            fb = FacetBasis(m, m.elem(), intorder=order, **kw)
            val = float(form.assemble(fb))
            ctx.case({"mesh": self.digest, "map": mpname, "divergence": "boundary"})
            ctx.count(f"divergence:{self.kind}:{mpname}")
            if abs(val - d * vol.sum()) > 1e-10 * scale:
                self.viol("the boundary integral of x.n is not d times the volume", mpname,
                          dict(inp, got=val, want=float(d * vol.sum())), {"what": "divergence", "facets": True})
            # the facet basis composes the facet map with the inverse cell map: normals / dx at its points
            fs = fb.find.astype(np.int64)
            cells = m.f2t[0, fs].astype(np.int64)
            sX = np.asarray(fb.X) if d > 1 else np.zeros((0, len(fb.W)))
            Y, Dg = geo.gamma(sX, fs, cells)
            DFo = geo.DF(Y, cells)
            self.normal_checks(mpname, mp, fs, cells, Y, DFo, dict(inp, via="FacetBasis"),
                               {"what2": "facetbasis", "facets": True}, given=np.array(fb.normals.value))
            if d > 1:
                DGo = np.einsum("ijcq,jkcq->ikcq", DFo, Dg)
                gram = np.einsum("ikcq,ilcq->klcq", DGo, DGo)
                surf = np.sqrt(np.abs(np.linalg.det(np.moveaxis(gram, (0, 1), (-2, -1)))))
            else:
                surf = np.ones((len(fs), len(fb.W)))
            if not close(fb.dx, surf * fb.W, scale):
                self.viol("FacetBasis.dx is not surface factor times weight", mpname, inp,
                          {"what": "facetbasis-dx", "facets": True})
            self.refpoint_check(mpname, fb, inp, {"facets": True})
        except Exception as ex:
            self.viol(f"FacetBasis / boundary integral raised {exc_kind(ex)}", mpname, dict(inp, err=repr(ex)),
                      {"what": "raise", "call": "FacetBasis", "facets": True})
        # interior facets seen from either side: the normals are those of the cell f2t[0] in both cases
        interior = np.nonzero(m.f2t[1] >= 0)[0]
        if len(interior):
            k = ctx.rng.randint(1, min(4, len(interior)))
            fsub = np.array(sorted(ctx.rng.sample(list(interior), k)), dtype=np.int32)
            for side in (0, 1):
                try:
                    fb = FacetBasis(m, m.elem(), intorder=order, facets=fsub, side=side, **kw)
                    ctx.case({"mesh": self.digest, "map": mpname, "interior-facets": fsub.tolist(), "side": side})
                    ctx.count(f"facetbasis-interior:{self.kind}:side{side}")
                    fs = fsub.astype(np.int64)
                    cells = m.f2t[0, fs].astype(np.int64)
                    sX = np.asarray(fb.X) if d > 1 else np.zeros((0, len(fb.W)))
                    Y, Dg = geo.gamma(sX, fs, cells)
                    DFo = geo.DF(Y, cells)
                    self.normal_checks(mpname, mp, fs, cells, Y, DFo,
                                       dict(inp, via="FacetBasis", facets=fsub.tolist(), side=side),
                                       {"what2": "facetbasis-interior", "facets": True, "side": side},
                                       given=np.array(fb.normals.value))
                    self.refpoint_check(mpname, fb, dict(inp, side=side), {"facets": True, "side": side})
                except Exception as ex:
                    self.viol(f"FacetBasis on interior facets raised {exc_kind(ex)}", mpname,
                              dict(inp, facets=fsub.tolist(), side=side, err=repr(ex)),
                              {"what": "raise", "call": "FacetBasis(interior)", "facets": True})
        # closed surface of single cells / cell groups (oriented facets: normals from f2t[1] too)
        for _ in range(2):
            k = ctx.rng.randint(1, min(3, geo.nt))
            cells = sorted(ctx.rng.sample(range(geo.nt), k))
            try:
                ob = m.facets_around(np.array(cells, dtype=np.int32))
                fb = FacetBasis(m, m.elem(), intorder=order, facets=ob, **kw)
                val = float(form.assemble(fb))
                ctx.case({"mesh": self.digest, "map": mpname, "divergence": cells})
                ctx.count(f"divergence-cells:{self.kind}:{mpname}")
                want = d * vol[cells].sum()
                if abs(val - want) > 1e-10 * scale:
                    self.viol("the integral of x.n over the boundary of a cell group is not d times its volume",
                              mpname, dict(inp, cells=cells, got=val, want=float(want)),
                              {"what": "divergence-cells", "facets": True})
            except Exception as ex:
                self.viol(f"FacetBasis on facets_around raised {exc_kind(ex)}", mpname,
                          dict(inp, cells=cells, err=repr(ex)),
                          {"what": "raise", "call": "FacetBasis(oriented)", "facets": True})

    # --- affine vs isoparametric on straight simplices -----------------------------------------------
    def affine_vs_iso(self, aff, iso):
        ctx, rng, m, d = self.ctx, self.ctx.rng, self.m, self.d
        nt, nf = m.t.shape[1], m.facets.shape[1]
        for layout in ("shared", "percell"):
            for how in ("none", "subset", "perm"):
                tind = subset(rng, nt, how)
                nsel = nt if tind is None else len(tind)
                npts = rng.randint(1, 3) + (1 if layout == "percell" else 0)
                X = ref_points(rng, self.base, npts, nsel if layout == "percell" else None)
                inp = {"X": X.tolist(), "tind": None if tind is None else tind.tolist(), "layout": layout}
                ctx.case({"mesh": self.digest, "affine-vs-iso": True, "layout": layout, "subset": how,
                          "tind": inp["tind"], "X": inp["X"]})
                ctx.count(f"affine-vs-iso:{self.kind}:{layout}:{how}")
                for name in ("F", "DF", "invDF", "detDF"):
                    try:
                        a = np.array(getattr(aff, name)(X, tind))
                        b = np.array(getattr(iso, name)(X, tind))
                    except Exception as ex:
                        self.viol(f"{name} raised {exc_kind(ex)} (affine vs isoparametric)", "affine-vs-iso",
                                  dict(inp, call=name, err=repr(ex)),
                                  {"what": "raise", "call": name, "layout": layout, "subset": how})
                        continue
                    if not close(a, b, tol=1e-10):
                        self.viol(f"affine and isoparametric {name} differ on a straight simplex mesh",
                                  "affine-vs-iso", dict(inp, call=name, shapes=[list(a.shape), list(b.shape)]),
                                  {"what": "affine-vs-iso", "call": name, "layout": layout, "subset": how})
                try:
                    x = np.array(aff.F(X, tind))
                    a = np.array(aff.invF(x, tind))
                    b = np.array(iso.invF(x, tind))
                    if not close(a, b, tol=1e-9):
                        self.viol("affine and isoparametric invF differ on a straight simplex mesh", "affine-vs-iso",
                                  inp, {"what": "affine-vs-iso", "call": "invF", "layout": layout, "subset": how})
                except Exception as ex:
                    self.viol(f"invF raised {exc_kind(ex)} (affine vs isoparametric)", "affine-vs-iso",
                              dict(inp, err=repr(ex)), {"what": "raise", "call": "invF", "layout": layout,
                                                        "subset": how})
                if d == 1:
                    continue
                find = subset(rng, nf, how)
                nsel = nf if find is None else len(find)
                s = self.facet_points(npts, nsel if layout == "percell" else None)
                inp = {"s": s.tolist(), "find": None if find is None else find.tolist(), "layout": layout}
                for name in ("G", "detDG"):
                    try:
                        a = np.array(getattr(aff, name)(s, find))
                        b = np.array(getattr(iso, name)(s, find))
                    except Exception as ex:
                        self.viol(f"{name} raised {exc_kind(ex)} (affine vs isoparametric)", "affine-vs-iso",
                                  dict(inp, call=name, err=repr(ex)),
                                  {"what": "raise", "call": name, "layout": layout, "subset": how, "facets": True})
                        continue
                    if not close(a, b, tol=1e-10):
                        self.viol(f"affine and isoparametric {name} differ on a straight simplex mesh",
                                  "affine-vs-iso", dict(inp, call=name, shapes=[list(a.shape), list(b.shape)]),
                                  {"what": "affine-vs-iso", "call": name, "layout": layout, "subset": how})
                # normals for the cell on either side
                fs = np.arange(nf) if find is None else find.astype(np.int64)
                side = rng.randint(0, 1)
                cells_all = m.f2t[side, fs]
                sel = np.nonzero(cells_all >= 0)[0]
                if len(sel):
                    cells = cells_all[sel].astype(np.int64)
                    Y, _ = self.geo.gamma(s if s.ndim == 2 else s[:, sel], fs[sel], cells)
                    try:
                        a = np.array(aff.normals(Y, cells, fs[sel], m.t2f))
                        b = np.array(iso.normals(Y, cells, fs[sel], m.t2f))
                        if not close(a, b, tol=1e-10):
                            self.viol("affine and isoparametric normals differ on a straight simplex mesh",
                                      "affine-vs-iso", dict(inp, side=side),
                                      {"what": "affine-vs-iso", "call": "normals", "layout": layout, "subset": how})
                    except Exception as ex:
                        self.viol(f"normals raised {exc_kind(ex)} (affine vs isoparametric)", "affine-vs-iso",
                                  dict(inp, err=repr(ex)), {"what": "raise", "call": "normals", "layout": layout,
                                                            "subset": how, "facets": True})

    # --- results must not depend on the call history (Jacobian cache) -----------------------------------
    def history_checks(self):
        from skfem.mapping import MappingIsoparametric
        ctx, rng, m, geo, d = self.ctx, self.ctx.rng, self.m, self.geo, self.d
        nt = geo.nt
        if self.base == "wedge":
            mk = lambda: MappingIsoparametric(m, m.elem(), None)
        else:
            mk = lambda: MappingIsoparametric(m, m.elem(), m.bndelem)
        scale = float(np.max(np.abs(geo.xn))) + 1.0
        # (a) index arrays with identical bytes: int64 [a] and int32 [a, 0]
        a = rng.randrange(nt)
        t1 = np.array([a], dtype=np.int64)
        t2 = np.array([a, 0], dtype=np.int32)
        X = ref_points(rng, self.base, rng.randint(1, 3))
        for first, second in ((t1, t2), (t2, t1)):
            mp = mk()
            ctx.case({"mesh": self.digest, "history": "same-bytes-tind", "first": first.tolist(), "X": X.tolist()})
            ctx.count("history:same-bytes-tind")
            inp = {"X": X.tolist(), "first_tind": first.tolist(), "first_dtype": str(first.dtype),
                   "second_tind": second.tolist(), "second_dtype": str(second.dtype)}
            try:
                mp.DF(X, first)
                got = np.array(mp.DF(X, second))
                got_det = np.array(mp.detDF(X, second))
                want = geo.DF(X, second.astype(np.int64))
                if not close(got, want, scale) or got_det.shape != want.shape[2:]:
                    self.viol("DF depends on an earlier call with a different cell subset (same raw bytes)", "iso",
                              dict(inp, got_shape=list(got.shape), want_shape=list(want.shape)),
                              {"what": "history", "case": "same-bytes-tind"})
            except Exception as ex:
                self.viol(f"DF raised {exc_kind(ex)} after an earlier call with another subset", "iso",
                          dict(inp, err=repr(ex)), {"what": "history", "case": "same-bytes-tind"})
        # (b) shared points (d, nsel*npts) then per-cell points with the same bytes (d, nsel, npts)
        how = rng.choice(["none", "subset", "perm"])
        tind = subset(rng, nt, how)
        nsel = nt if tind is None else len(tind)
        cells = np.arange(nt) if tind is None else tind.astype(np.int64)
        npts = rng.randint(1, 3)
        Xp = ref_points(rng, self.base, npts, nsel)
        Xs = Xp.reshape(d, nsel * npts)
        for first, second in ((Xs, Xp), (Xp, Xs)):
            mp = mk()
            ctx.case({"mesh": self.digest, "history": "same-bytes-X", "first": list(first.shape), "X": Xp.tolist(),
                      "tind": None if tind is None else tind.tolist()})
            ctx.count("history:same-bytes-X")
            inp = {"first_X_shape": list(first.shape), "second_X_shape": list(second.shape), "X": Xp.tolist(),
                   "tind": None if tind is None else tind.tolist()}
            try:
                mp.detDF(first, tind)
                got = np.array(mp.detDF(second, tind))
                DFo = geo.DF(second, cells)
                want = np.linalg.det(np.moveaxis(DFo, (0, 1), (-2, -1)))
                if not close(got, want, scale ** d):
                    self.viol("detDF depends on an earlier call with another point layout (same raw bytes)", "iso",
                              dict(inp, got_shape=list(got.shape), want_shape=list(want.shape)),
                              {"what": "history", "case": "same-bytes-X"})
            except Exception as ex:
                self.viol(f"detDF raised {exc_kind(ex)} after an earlier call with another point layout", "iso",
                          dict(inp, err=repr(ex)), {"what": "history", "case": "same-bytes-X",
                                                    "layout": "percell" if second.ndim == 3 else "shared",
                                                    "subset": how})


# ---------------------------------------------------------------------------------------------
# correspondence with the Lean model

def qmat(a):
    return [[qstr(float(v)) for v in row] for row in np.asarray(a).tolist()]


def build_corr(ck, reqs, post):
    """model requests for a few cells / facets of the mesh"""
    from skfem.mapping import MappingAffine, MappingIsoparametric
    rng, m, geo, d, kind = ck.ctx.rng, ck.m, ck.geo, ck.d, ck.kind
    nt, nf = geo.nt, m.facets.shape[1]
    P = np.asarray(m.doflocs)
    famname = {"line": "lineP1", "tri": "triP1", "tet": "tetP1", "quad": "quad1", "hex": "hex1",
               "tri2": "triP2", "tet2": "tetP2", "wedge": "wedge1"}.get(kind)
    bndname = {"tri": "lineP1", "quad": "lineP1", "tet": "triP1", "hex": "quad1", "tri2": "lineP2",
               "quad2": "lineP2", "tet2": "triP2"}.get(kind)
    refname = {"line": "Line", "tri": "Tri", "tet": "Tet", "quad": "Quad", "hex": "Hex",
               "wedge": "Wedge"}.get(geo.base)
    npts = 2
    X = ref_points(rng, geo.base, npts)
    cells = np.array(rng.sample(range(nt), min(nt, 3)), dtype=np.int64)
    if kind in ("line", "tri", "tet"):
        for sub in (False, True):
            mp = MappingAffine(m, tind=cells) if sub else MappingAffine(m)
            sel = np.arange(len(cells)) if sub else cells
            tind = None if sub else cells
            xg = mp.F(X, tind)
            xi = mp.invF(xg, tind)
            nrm = {}
            for q, c in enumerate(cells):
                for i in range(d + 1):
                    f = m.t2f[i, c]
                    Y = np.zeros((d, 1, 1))
                    if sub:
                        # a restricted mapping ignores tind: ask for all of its cells, read position q
                        find = m.t2f[i, cells]
                        nn = mp.normals(np.zeros((d, len(cells), 1)), np.arange(len(cells)), find, m.t2f[:, cells])
                        nrm[(q, i)] = nn[:, q, 0]
                        # the way the facet bases call it: GLOBAL cell numbers and the whole t2f (a restricted
                        # mapping ignores the cell numbers it is given, as for F / DF / invDF)
                        ng = mp.normals(np.zeros((d, len(cells), 1)), cells, find, m.t2f)
                        ck.ctx.count("normals:restricted-mapping-global-numbers")
                        if ng.shape != nn.shape or not np.allclose(ng, nn, atol=1e-14):
                            ck.ctx.violation("normals of a mapping restricted to a cell subset (MappingAffine(mesh, "
                                             "tind=cells)) depend on the cell numbers passed per call",
                                             {"mesh": meshes.mesh_descr(m), "cells": cells.tolist(), "local_facet": i,
                                              "with_local_numbers": nn[:, :, 0].T.tolist(),
                                              "with_global_numbers": ng[:, :, 0].T.tolist()},
                                             {"what": "normals-restricted", "cls": type(m).__name__})
                    else:
                        nn = mp.normals(Y, np.array([c]), np.array([f]), m.t2f)
                        nrm[(q, i)] = nn[:, 0, 0]
            for q, c in enumerate(cells):
                v = P[:, m.t[:, c]].T
                reqs.append({"op": "map.aff", "d": d, "v": qmat(v), "X": qmat(X.T), "x": qmat(xg[:, q, :].T),
                             "sub": sub})
                post.append(("aff", {"mesh": ck.digest, "cell": int(c), "sub": sub, "v": v.tolist()},
                             {"A": mp.A[:, :, sel[q]], "b": mp.b[:, sel[q]], "det": mp.detA[sel[q]],
                              "inv": mp.invA[:, :, sel[q]], "F": xg[:, q, :].T, "invF": xi[:, q, :].T,
                              "normals": [nrm[(q, i)] for i in range(d + 1)]}))
        if d > 1:
            mp = MappingAffine(m)
            fs = np.array(rng.sample(range(nf), min(nf, 3)), dtype=np.int64)
            S = ck.facet_points(npts)
            Gx = mp.G(S, fs)
            for q, f in enumerate(fs):
                w = P[:, m.facets[:, f]].T
                reqs.append({"op": "map.affbnd", "d": d, "w": qmat(w), "S": qmat(S.T)})
                post.append(("affbnd", {"mesh": ck.digest, "facet": int(f), "w": w.tolist()},
                             {"B": mp.B[:, :, f], "c": mp.c[:, f], "detB": mp.detB[f], "G": Gx[:, q, :].T}))
    if famname is not None:
        mp = m.mapping() if kind not in ("line", "tri", "tet") else MappingIsoparametric(m, m.elem(), m.bndelem)
        Fx = np.array(mp.F(X, cells))
        J = np.array(mp.DF(X, cells))
        det = np.array(mp.detDF(X, cells))
        inv = np.array(mp.invDF(X, cells))
        conn = m.dofs.element_dofs if geo.second else m.t
        nfl = len(geo.reffacets)
        for q, c in enumerate(cells):
            v = P[:, conn[:, c]].T
            nrm = np.empty((npts, nfl, d))
            for i in range(nfl):
                Xc = np.repeat(X[:, None, :], 1, axis=1)
                nn = mp.normals(Xc, np.array([c]), np.array([m.t2f[i, c]]), m.t2f)
                nrm[:, i, :] = nn[:, 0, :].T
            reqs.append({"op": "map.iso", "d": d, "elem": famname, "ref": refname, "v": qmat(v), "X": qmat(X.T)})
            post.append(("iso", {"mesh": ck.digest, "cell": int(c), "elem": famname, "v": v.tolist(), "X": X.T.tolist()},
                         {"F": Fx[:, q, :].T, "J": np.moveaxis(J[:, :, q, :], -1, 0), "det": det[q],
                          "inv": np.moveaxis(inv[:, :, q, :], -1, 0), "normals": nrm}))
    if bndname is not None and d > 1:
        mp = m.mapping() if kind not in ("tri", "tet") else MappingIsoparametric(m, m.elem(), m.bndelem)
        fs = np.array(rng.sample(range(nf), min(nf, 3)), dtype=np.int64)
        S = ck.facet_points(npts)
        Gx = np.array(mp.G(S, fs))
        dG = np.array(mp.detDG(S, fs))
        BJ = np.array([[mp.bndJ(i, j, S, fs) for j in range(d - 1)] for i in range(d)])
        rows = m.facets
        if geo.second:
            if len(m.dofs.edge_dofs) > 0:
                rows = np.vstack((rows, m.dofs.edge_dofs[0, m.f2e]))
            if len(m.dofs.facet_dofs) > 0:
                rows = np.vstack((rows, m.dofs.facet_dofs))
            if kind == "quad2":
                rows = rows[:3]
        for q, f in enumerate(fs):
            w = P[:, rows[:, f]].T
            reqs.append({"op": "map.isobnd", "d": d, "elem": bndname, "w": qmat(w), "S": qmat(S.T)})
            post.append(("isobnd", {"mesh": ck.digest, "facet": int(f), "elem": bndname, "w": w.tolist(),
                                    "S": S.T.tolist()},
                         {"G": Gx[:, q, :].T, "BJ": np.moveaxis(BJ[:, :, q, :], -1, 0), "detDG": dG[q]}))


def compare_corr(ctx, post, outs):
    def eq(model, impl, tol=1e-12):
        a = np.array(model, dtype=float)
        b = np.array(impl, dtype=float)
        return a.shape == b.shape and (a.size == 0 or
                                       bool(np.max(np.abs(a - b)) <= tol * max(1.0, float(np.max(np.abs(a))))))

    def fm(j):
        u = unq(j)

        def conv(x):
            return [conv(y) for y in x] if isinstance(x, list) else float(x)
        return conv(u)

    def normals_ok(mod, impl):
        for mo, im in zip(mod, impl):
            raw = np.array(fm(mo["raw"]))
            ln = float(Fraction(mo["lenSq"])) ** 0.5
            if ln == 0 or not eq(raw / ln, im):
                return False
        return len(mod) == len(impl)

    for (tag, inp, impl), out in zip(post, outs):
        if isinstance(out, dict) and "error" in out:
            ctx.corr("map." + tag, False, inp, out, None)
            continue
        if tag == "aff":
            ctx.corr("map.aff(A,b)", eq(fm(out["A"]), impl["A"]) and eq(fm(out["b"]), impl["b"]), inp, out["A"], impl["A"])
            ctx.corr("map.aff(det)", eq(fm(out["det"]), impl["det"]), inp, out["det"], impl["det"])
            ctx.corr("map.aff(inv)", eq(fm(out["inv"]), impl["inv"]), inp, out["inv"], impl["inv"])
            ctx.corr("map.aff(F)", eq(fm(out["F"]), impl["F"]), inp, out["F"], impl["F"])
            ctx.corr("map.aff(invF)", eq(fm(out["invF"]), impl["invF"], 1e-11), inp, out["invF"], impl["invF"])
            ctx.corr("map.aff(normals)", normals_ok(out["normals"], impl["normals"]), inp, out["normals"],
                     impl["normals"])
        elif tag == "affbnd":
            ctx.corr("map.affbnd(B,c)", eq(fm(out["B"]), impl["B"]) and eq(fm(out["c"]), impl["c"]), inp, out["B"],
                     impl["B"])
            ctx.corr("map.affbnd(detB)", eq(float(Fraction(out["surfSq"])) ** 0.5, impl["detB"]), inp,
                     out["surfSq"], impl["detB"])
            ctx.corr("map.affbnd(G)", eq(fm(out["G"]), impl["G"]), inp, out["G"], impl["G"])
        elif tag == "iso":
            ok = {k: True for k in ("F", "J", "det", "inv", "normals")}
            for p, o in enumerate(out):
                ok["F"] &= eq(fm(o["F"]), impl["F"][p])
                ok["J"] &= eq(fm(o["J"]), impl["J"][p])
                ok["det"] &= eq(fm(o["det"]), impl["det"][p])
                ok["inv"] &= eq(fm(o["inv"]), impl["inv"][p], 1e-11)
                ok["normals"] &= normals_ok(o["normals"], impl["normals"][p])
            for k, v in ok.items():
                ctx.corr(f"map.iso({k})", v and len(out) == len(impl["F"]), inp,
                         [o[k] for o in out], np.asarray(impl[k]).tolist())
        elif tag == "isobnd":
            ok = {k: True for k in ("G", "BJ", "detDG")}
            for p, o in enumerate(out):
                ok["G"] &= eq(fm(o["G"]), impl["G"][p])
                ok["BJ"] &= eq(fm(o["BJ"]), impl["BJ"][p])
                ok["detDG"] &= eq(float(Fraction(o["surfSq"])) ** 0.5, impl["detDG"][p])
            for k, v in ok.items():
                ctx.corr(f"map.isobnd({k})", v and len(out) == len(impl["G"]), inp, None,
                         np.asarray(impl[k]).tolist())


def scale_covariance(ctx):
    """the SAME mesh in other units (coordinates times a power of two: exact in floating point): F and DF scale by
    the factor, detDF by its d-th power, invDF by its inverse, bit for bit - for affine and isoparametric
    mappings, several points per cell, very small and very large units"""
    import skfem
    from skfem.mapping import MappingIsoparametric, MappingAffine
    rng = ctx.rng
    for rep in range(ctx.scale(10, 80)):
        kind = rng.choice(["quad", "quad", "hex", "tri", "tet", "line"])
        m, info = meshes.gen_first_order(rng, kind)
        if m.nelements > 12:
            continue
        if kind in ("quad", "hex"):
            pp = m.p.copy()
            for v in range(pp.shape[1]):
                pp[:, v] += np.array([rng.randint(-2, 2) for _ in range(pp.shape[0])]) / 64      # non-affine cells
            m = type(m)(pp, m.t)
        d = m.p.shape[0]
        X = ref_points(rng, kind, 3)
        for expo in (-30, -40, 30):
            sfac = 2.0 ** expo
            ms = type(m)(m.p * sfac, m.t)
            for mname, mk in (("isoparametric", lambda mm: MappingIsoparametric(mm, mm.elem(), mm.bndelem)),
                              ("default", lambda mm: mm._mapping())):
                try:
                    a, b_ = mk(m), mk(ms)
                    ctx.count("scale-covariance:" + mname)
                    checks = (("F", a.F(X) * sfac, b_.F(X)), ("DF", a.DF(X) * sfac, b_.DF(X)),
                              ("detDF", a.detDF(X) * sfac ** d, b_.detDF(X)),
                              ("invDF", a.invDF(X) / sfac, b_.invDF(X)))
                    for fn_, want, got in checks:
                        want, got = np.asarray(want), np.asarray(got)
                        if want.shape != got.shape or not np.allclose(got, want, rtol=1e-12, atol=0.0):
                            ctx.violation(f"{fn_} of the mesh in other units (coordinates x 2^{expo}) is not the scaled "
                                          f"{fn_} of the mesh", {"mesh": meshes.mesh_descr(m), "mapping": mname,
                                                                 "factor": f"2^{expo}", "X": X.tolist(),
                                                                 "relative_error": float(np.abs(got - want).max()
                                                                                         / max(1e-300, np.abs(want).max()))},
                                          {"what": "scale-covariance", "fn": fn_, "mapping": mname, "kind": kind})
                            break
                except Exception as ex:
                    ctx.violation("mapping of a rescaled mesh raised " + exc_kind(ex),
                                  {"mesh": meshes.mesh_descr(m), "factor": f"2^{expo}", "err": repr(ex)},
                                  {"what": "raise", "mapping": mname})


def shape_and_key_corr(ctx):
    """model of the output sizing (F16) and of the cache key (F11) against the implementation's behaviour"""
    from skfem import MeshQuad
    from skfem.generic_utils import hash_args
    rng = ctx.rng
    reqs, post = [], []
    m = MeshQuad().refined(1)
    for _ in range(6):
        npts = rng.randint(1, 5)
        shapeX = [2, npts] if rng.random() < 0.3 else [2, 4, npts]
        X = np.full(shapeX, 0.5)
        mp = type(m.mapping())(m, m.elem(), m.bndelem)
        try:
            mp.F(X)
            mp.DF(X)
            okF = True
        except ValueError:
            okF = False
        reqs.append({"op": "map.outshape", "shapeX": shapeX, "rows": 4})
        post.append(("outshape", {"shapeX": shapeX}, okF))
    cases = [(8, [1], 4, [1, 0]), (8, [3], 4, [3, 0]), (4, [1, 0], 4, [1, 0]), (8, [2, 5], 8, [2, 5]),
             (4, [7], 8, [7]), (8, [1], 8, [1, 0])]
    for w1, a1, w2, a2 in cases:
        x = np.array(a1, dtype=np.int64 if w1 == 8 else np.int32)
        y = np.array(a2, dtype=np.int64 if w2 == 8 else np.int32)
        reqs.append({"op": "map.hashkey", "w1": w1, "a1": a1, "w2": w2, "a2": a2})
        post.append(("hashkey", {"a1": a1, "w1": w1, "a2": a2, "w2": w2}, hash_args(x) == hash_args(y)))
    outs = ctx.driver.run(reqs)
    for (tag, inp, impl), out in zip(post, outs):
        if isinstance(out, dict) and "error" in out:
            ctx.corr("map." + tag, False, inp, out, impl)
        elif tag == "outshape":
            ctx.corr("map.outshape", all(o["ok"] for o in out) == impl, inp, out, impl)
        else:
            ctx.corr("map.hashkey", out["same_key"] == impl, inp, out, impl)


# ---------------------------------------------------------------------------------------------

def check_mesh(ctx, ck, maps):
    """every check family on one mesh"""
    for mpname, mp, fixed in maps:
        for layout in ("shared", "percell"):
            hows = ("none", "subset", "perm") + (("empty",) if ctx.rng.random() < 0.15 else ())
            for how in (hows if fixed is None else ("fixed",)):
                ck.cell_checks(mpname, mp, fixed, layout, how)
                if fixed is None and ck.base != "wedge" and not (ck.base == "line" and
                                                                 type(mp).__name__ != "MappingAffine"):
                    ck.facet_checks(mpname, mp, layout, how)
        if ck.base == "wedge":
            ck.wedge_normals(mpname, mp)
        elif fixed is None and not (ck.base == "line" and type(mp).__name__ != "MappingAffine"):
            ck.divergence_checks(mpname, mp)
    if ck.kind in ("line", "tri", "tet"):
        ck.affine_vs_iso(maps[1][1], maps[2][1])
    ck.history_checks()


def replay(ctx, rp):
    """re-run every check family on the mesh recorded in a replay file"""
    import skfem
    inp = rp.get("input", {})
    md = inp.get("mesh")
    if not md:
        return run(ctx)
    cls = getattr(skfem, md["cls"])
    m = cls(np.array(md["doflocs"], dtype=np.float64), np.array(md["t"], dtype=np.int32))
    kind = (inp.get("info") or {}).get("kind") or {v.__name__: k for k, v in meshes.CLS.items()}[md["cls"]]
    for _ in range(5):
        ck = Checker(ctx, m, kind, inp.get("info") or {})
        check_mesh(ctx, ck, ck.mappings())


def run(ctx):
    ctx.rule = ("random meshes of every class (line, tri, quad, tet, hex, wedge; second-order tri2/quad2/tet2/hex2, "
                "curved or straight): irregular, renumbered, cells permuted, locally re-ordered (negative "
                "determinants), with holes; mappings: mesh.mapping() and explicit MappingAffine / "
                "MappingIsoparametric / MappingAffine(tind=...) on simplices; dyadic interior reference points "
                "shared (dim x npts) and per-cell (dim x ncells x npts); tind/find None, sorted subset, permuted "
                "subset with repetitions, int32/int64; distinct = (mesh, mapping, layout, subset, points); "
                "all cases non-trivial")
    ctx.trusted += ["Lean kernel; axioms propext/Classical.choice/Quot.sound",
                    "translator gens/affine.py (restricted AST: closed forms of mapping_affine / "
                    "mapping_isoparametric, lbasis of the mapping elements, refdom tables, re-extracted on every run)",
                    "model Skv.Map.* (einsum contractions hand-written, tied by correspondence ops map.*)",
                    "oracle: exact inversion of the Vandermonde matrix of the reference nodes, formal derivatives, "
                    "Gauss-Legendre/Duffy volumes (numpy)",
                    "the square root (unit length of normals, surface factor): sqrt trusted, squares proved"]
    ctx.assumptions += ["Newton inverse converges on the generated (mildly curved) cells: checked a posteriori, "
                        "not proved", "NumPy broadcasting of the two point layouts: correspondence and search only",
                        "shape functions of ElementQuad2/ElementHex2 (outside the translator's subset) are covered "
                        "by the search only"]
    changed = False
    try:
        changed = genaffine.generate()
    except Exception as ex:
        # (the formulas the theorems quote then are those of the last successful translation; they remain tied
        # to the live code by the exact comparison of A, b, det, inverse, F, invF, normals, B, c, detB, G)
        ctx.translator_failed("closed-form blocks of the mappings not recognised", ex,
                              ["map.aff(A,b)", "map.aff(det)", "map.aff(inv)", "map.aff(F)", "map.aff(invF)",
                               "map.aff(normals)", "map.affbnd(B,c)", "map.affbnd(detB)", "map.affbnd(G)",
                               "map.iso(F)", "map.iso(J)", "map.iso(det)", "map.iso(inv)", "map.iso(normals)",
                               "map.isobnd(G)", "map.isobnd(BJ)", "map.isobnd(detDG)"])
    ctx.notes["generated_files_changed"] = bool(changed)
    if not getattr(ctx, "no_lean", False):
        ctx.prove(["SkfemVerif.Props.C10"], ["SkfemVerif/Props/C10.lean"])
    reqs, post = [], []
    n_meshes = ctx.scale(170, 2500)
    kinds_cycle = list(KINDS)
    special = special_meshes()
    if ctx.tier == "quick":
        ctx.rng.shuffle(special)
        special = special[:12]
    import time
    # the search gets its own budget, counted from the end of the proof layer (a cold Lean build must not
    # eat the exploration)
    deadline = time.time() + ctx.scale(60, 700)
    for it in range(-len(special), n_meshes):
        if time.time() > deadline:
            break
        if it < 0:
            kind, mk, how = special[it + len(special)]
            try:
                m = mk()
            except Exception:
                ctx.count("constructor-failed:" + how)      # not this property's business
                continue
            info = {"gen": how, "kind": kind, "nt": int(m.t.shape[1])}
        else:
            kind = kinds_cycle[it % len(kinds_cycle)] if it < 2 * len(kinds_cycle) else ctx.rng.choice(KINDS)
            try:
                m, info = meshes.gen_mesh(ctx.rng, [kind])
            except Exception:
                ctx.count("generator-failed")
                continue
            if hasattr(meshes, "derive") and not kind.endswith("2") and ctx.rng.random() < 0.25:
                # meshes as users obtain them: refined (uniformly / adaptively) or restricted by the library
                try:
                    m, ops = meshes.derive(ctx.rng, m, kind)
                    if ops:
                        info = dict(info, derived=ops, nt=int(m.t.shape[1]))
                        ctx.count("mesh-derived:" + "+".join(ops))
                except Exception:
                    pass
        ctx.count("mesh:" + kind + (":curved" if info.get("curved") else ""))
        try:
            ck = Checker(ctx, m, kind, info)
            if not ck.geo.valid():
                ctx.count("mesh-rejected:folded-or-degenerate:" + kind)
                continue
        except Exception as ex:
            ctx.count("oracle-not-applicable:" + kind)
            ctx.notes.setdefault("oracle_failures", []).append(repr(ex)[:200])
            continue
        try:
            maps = ck.mappings()
        except Exception as ex:
            ctx.violation("constructing the mapping raised " + exc_kind(ex),
                          {"mesh": mesh_replay(m), "info": info, "err": repr(ex)}, {"what": "raise", "call": "mapping"})
            continue
        check_mesh(ctx, ck, maps)
        if it < ctx.scale(60, 400):
            try:
                build_corr(ck, reqs, post)
            except Exception as ex:
                ctx.broken.append({"kind": "correspondence", "op": "map.*", "err": repr(ex),
                                   "mesh": mesh_replay(m)})
    # ---- correspondence
    if not ctx.driver.available():
        ctx.broken.append({"kind": "driver-missing"})
        return
    outs = ctx.driver.run(reqs)
    compare_corr(ctx, post, outs)
    shape_and_key_corr(ctx)
    try:
        scale_covariance(ctx)
    except Exception as ex:
        ctx.violation("scale covariance check raised " + exc_kind(ex), {"err": repr(ex)}, {"what": "raise"})
    if ctx.tier == "thorough" and not getattr(ctx, "no_lean", False):
        ctx.leanchecker(["SkfemVerif.Props.C10"])
